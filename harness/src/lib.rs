//! Runtime-monitoring harness for librqbit-utp. See /verif/DESIGN.md.
pub mod app;
pub mod checks;
pub mod events;
pub mod fam;
pub mod json;
pub mod mon;
pub mod peer;
pub mod prng;
pub mod runner;
pub mod sim;
pub mod trace_capture;
pub mod verdict;
pub mod view;
pub mod wire;
