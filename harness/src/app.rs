//! Application-side drivers: deterministic payload generator, writer / reader drivers that
//! record every API call at the boundary (call before the first poll, return after the reply).
use std::{pin::Pin, sync::Arc};

use librqbit_utp::{UtpStream, UtpStreamReadHalf, UtpStreamWriteHalf};
use tokio::io::{AsyncRead, AsyncWrite, ReadBuf};

use crate::{
    events::{ApiOp, Log, Us},
    prng::{mix2, Prng},
    sim::{SockHandle, World},
};

/// The byte at `offset` of the stream identified by `key`. Never uniform: any offset,
/// duplication or reordering error changes bytes.
pub fn gen_byte(key: u64, offset: u64) -> u8 {
    let w = mix2(key, offset >> 3);
    (w >> ((offset & 7) * 8)) as u8
}

pub fn gen_fill(key: u64, offset: u64, buf: &mut [u8]) {
    let mut i = 0usize;
    while i < buf.len() {
        let o = offset + i as u64;
        let w = mix2(key, o >> 3).to_le_bytes();
        let start = (o & 7) as usize;
        let n = (8 - start).min(buf.len() - i);
        buf[i..i + n].copy_from_slice(&w[start..start + n]);
        i += n;
    }
}

pub fn gen_vec(key: u64, offset: u64, len: usize) -> Vec<u8> {
    let mut v = vec![0u8; len];
    gen_fill(key, offset, &mut v);
    v
}

/// Compare `got` with the generator at `offset`; returns the first mismatching position.
pub fn gen_check(key: u64, offset: u64, got: &[u8]) -> Option<(u64, u8, u8)> {
    let mut i = 0usize;
    while i < got.len() {
        let o = offset + i as u64;
        let w = mix2(key, o >> 3).to_le_bytes();
        let start = (o & 7) as usize;
        let n = (8 - start).min(got.len() - i);
        if got[i..i + n] != w[start..start + n] {
            for k in 0..n {
                if got[i + k] != w[start + k] {
                    return Some((o + k as u64, w[start + k], got[i + k]));
                }
            }
        }
        i += n;
    }
    None
}

/// Stream key of connection `conn` in direction `side` (0: initiator writes, 1: acceptor writes).
pub fn stream_key(case_seed: u64, conn: u32, side: u8) -> u64 {
    mix2(case_seed ^ 0xC0FFEE, ((conn as u64) << 8) | side as u64)
}

#[derive(Clone, Copy, Debug, PartialEq, Eq)]
pub enum WriterEnd {
    /// Call shutdown() and wait for it to return, then drop the half.
    Shutdown,
    /// flush(), then drop the half.
    FlushThenDrop,
    /// Drop the half right after the last write.
    Drop,
    /// Keep the half alive (returned to the caller).
    Hold,
}

#[derive(Clone, Debug)]
pub struct WriterPlan {
    pub total: usize,
    /// Chunk size range, sampled log-uniformly.
    pub chunk: (usize, usize),
    pub pause_prob: f64,
    pub pause: (Us, Us),
    pub flush_prob: f64,
    pub start_delay: Us,
    pub end: WriterEnd,
}

impl WriterPlan {
    pub fn simple(total: usize) -> WriterPlan {
        WriterPlan {
            total,
            chunk: (1, 65536),
            pause_prob: 0.0,
            pause: (0, 0),
            flush_prob: 0.0,
            start_delay: 0,
            end: WriterEnd::Shutdown,
        }
    }
    pub fn describe(&self) -> String {
        format!(
            "total={} chunk={:?} pause={}/{:?}us flush={} delay={}us end={:?}",
            self.total, self.chunk, self.pause_prob, self.pause, self.flush_prob, self.start_delay, self.end
        )
    }
}

pub struct WriterOutcome {
    pub accepted: usize,
    /// First error any call returned.
    pub error: Option<String>,
    pub flushes_ok: usize,
    /// Bytes accepted before each successful flush/shutdown (the amount that call covers).
    pub flushed_upto: usize,
    pub shutdown_ok: Option<bool>,
    pub finished_at: Us,
    pub half: Option<UtpStreamWriteHalf>,
}

pub struct ApiCtx {
    pub log: Arc<Log>,
    pub conn: u32,
    pub side: u8,
}

impl ApiCtx {
    pub fn rec(&self, op: ApiOp) {
        self.log.api(self.conn, self.side, op);
    }
}

/// Guard that records a cancelled call if a driver future is dropped mid-call.
struct CallGuard<'a> {
    ctx: &'a ApiCtx,
    what: &'static str,
    armed: bool,
}
impl Drop for CallGuard<'_> {
    fn drop(&mut self) {
        if self.armed {
            self.ctx.rec(ApiOp::Cancelled(self.what));
        }
    }
}

pub async fn api_write(ctx: &ApiCtx, w: &mut UtpStreamWriteHalf, buf: &[u8]) -> std::io::Result<usize> {
    ctx.rec(ApiOp::WriteCall { len: buf.len() });
    let mut g = CallGuard { ctx, what: "write", armed: true };
    let r = std::future::poll_fn(|cx| Pin::new(&mut *w).poll_write(cx, buf)).await;
    g.armed = false;
    ctx.rec(ApiOp::WriteRet(r.as_ref().map(|n| *n).map_err(|e| e.to_string())));
    r
}

pub async fn api_flush(ctx: &ApiCtx, w: &mut UtpStreamWriteHalf) -> std::io::Result<()> {
    ctx.rec(ApiOp::FlushCall);
    let mut g = CallGuard { ctx, what: "flush", armed: true };
    let r = std::future::poll_fn(|cx| Pin::new(&mut *w).poll_flush(cx)).await;
    g.armed = false;
    ctx.rec(ApiOp::FlushRet(r.as_ref().map(|_| ()).map_err(|e| e.to_string())));
    r
}

pub async fn api_shutdown(ctx: &ApiCtx, w: &mut UtpStreamWriteHalf) -> std::io::Result<()> {
    ctx.rec(ApiOp::ShutdownCall);
    let mut g = CallGuard { ctx, what: "shutdown", armed: true };
    let r = std::future::poll_fn(|cx| Pin::new(&mut *w).poll_shutdown(cx)).await;
    g.armed = false;
    ctx.rec(ApiOp::ShutdownRet(r.as_ref().map(|_| ()).map_err(|e| e.to_string())));
    r
}

pub async fn api_read(ctx: &ApiCtx, r: &mut UtpStreamReadHalf, buf: &mut [u8]) -> std::io::Result<usize> {
    ctx.rec(ApiOp::ReadCall { buf: buf.len() });
    let mut g = CallGuard { ctx, what: "read", armed: true };
    let res = std::future::poll_fn(|cx| {
        let mut rb = ReadBuf::new(buf);
        match Pin::new(&mut *r).poll_read(cx, &mut rb) {
            std::task::Poll::Ready(Ok(())) => std::task::Poll::Ready(Ok(rb.filled().len())),
            std::task::Poll::Ready(Err(e)) => std::task::Poll::Ready(Err(e)),
            std::task::Poll::Pending => std::task::Poll::Pending,
        }
    })
    .await;
    g.armed = false;
    ctx.rec(ApiOp::ReadRet(res.as_ref().map(|n| *n).map_err(|e| e.to_string())));
    res
}

pub fn api_drop_writer(ctx: &ApiCtx, w: UtpStreamWriteHalf) {
    ctx.rec(ApiOp::DropWriter);
    drop(w);
}

pub fn api_drop_reader(ctx: &ApiCtx, r: UtpStreamReadHalf) {
    ctx.rec(ApiOp::DropReader);
    drop(r);
}

pub async fn run_writer(
    ctx: ApiCtx,
    mut w: UtpStreamWriteHalf,
    key: u64,
    plan: WriterPlan,
    mut rng: Prng,
    // when present, the end action waits until the local reader has received everything it
    // expects (uTP has no half-close: a FIN ends both directions)
    gate: Option<tokio::sync::oneshot::Receiver<()>>,
    // when present, the network is cut at the instant a flush/shutdown returns Ok
    cut_on_ok: Option<Arc<crate::sim::Net>>,
) -> WriterOutcome {
    let cut = |what: &str| {
        if let Some(net) = &cut_on_ok {
            let now = net.clock.now_us();
            net.with_plan(|p| {
                if p.cut_at_time.is_none() {
                    p.cut_at_time = Some(now);
                }
            });
            net.log.note(format!("network cut at the return of {what}"));
        }
    };
    let clock = ctx.log.clock.clone();
    let mut out = WriterOutcome {
        accepted: 0,
        error: None,
        flushes_ok: 0,
        flushed_upto: 0,
        shutdown_ok: None,
        finished_at: 0,
        half: None,
    };
    if plan.start_delay > 0 {
        tokio::time::sleep(std::time::Duration::from_micros(plan.start_delay)).await;
    }
    let mut buf = Vec::new();
    'outer: while out.accepted < plan.total {
        let want = (rng.log_range(plan.chunk.0.max(1) as u64, plan.chunk.1.max(1) as u64) as usize)
            .min(plan.total - out.accepted);
        buf.resize(want, 0);
        gen_fill(key, out.accepted as u64, &mut buf);
        let mut off = 0;
        while off < want {
            match api_write(&ctx, &mut w, &buf[off..]).await {
                Ok(0) => {
                    out.error = Some("write returned 0".into());
                    break 'outer;
                }
                Ok(n) => {
                    off += n;
                    out.accepted += n;
                }
                Err(e) => {
                    out.error = Some(e.to_string());
                    break 'outer;
                }
            }
        }
        if plan.flush_prob > 0.0 && rng.chance(plan.flush_prob) {
            let upto = out.accepted;
            match api_flush(&ctx, &mut w).await {
                Ok(()) => {
                    out.flushes_ok += 1;
                    out.flushed_upto = upto;
                    cut("flush");
                }
                Err(e) => {
                    out.error = Some(e.to_string());
                    break 'outer;
                }
            }
        }
        if plan.pause_prob > 0.0 && rng.chance(plan.pause_prob) {
            let d = rng.range(plan.pause.0, plan.pause.1);
            tokio::time::sleep(std::time::Duration::from_micros(d)).await;
        }
    }
    if out.error.is_none() {
        if let Some(g) = gate {
            let _ = g.await;
        }
        match plan.end {
            WriterEnd::Shutdown => {
                let upto = out.accepted;
                match api_shutdown(&ctx, &mut w).await {
                    Ok(()) => {
                        out.shutdown_ok = Some(true);
                        out.flushed_upto = upto;
                        cut("shutdown");
                    }
                    Err(e) => {
                        out.shutdown_ok = Some(false);
                        out.error = Some(e.to_string());
                    }
                }
                api_drop_writer(&ctx, w);
            }
            WriterEnd::FlushThenDrop => {
                let upto = out.accepted;
                match api_flush(&ctx, &mut w).await {
                    Ok(()) => {
                        out.flushes_ok += 1;
                        out.flushed_upto = upto;
                        cut("flush");
                    }
                    Err(e) => out.error = Some(e.to_string()),
                }
                api_drop_writer(&ctx, w);
            }
            WriterEnd::Drop => api_drop_writer(&ctx, w),
            WriterEnd::Hold => out.half = Some(w),
        }
    } else {
        // after an error the half is useless; keep it so that dropping it is the caller's choice
        out.half = Some(w);
    }
    out.finished_at = clock.now_us();
    out
}

#[derive(Clone, Copy, Debug, PartialEq, Eq)]
pub enum ReaderStop {
    /// Read until EOF or error.
    Never,
    /// After this many bytes, drop the half.
    DropAfter(usize),
    /// After this many bytes, stop reading but keep the half.
    HoldAfter(usize),
}

#[derive(Clone, Debug)]
pub struct ReaderPlan {
    pub buf: (usize, usize),
    pub pause_prob: f64,
    pub pause: (Us, Us),
    /// After reading this many bytes, stall for this long (once).
    pub stall: Option<(usize, Us)>,
    pub start_delay: Us,
    pub stop: ReaderStop,
}

impl ReaderPlan {
    pub fn greedy() -> ReaderPlan {
        ReaderPlan {
            buf: (65536, 65536),
            pause_prob: 0.0,
            pause: (0, 0),
            stall: None,
            start_delay: 0,
            stop: ReaderStop::Never,
        }
    }
    pub fn describe(&self) -> String {
        format!(
            "buf={:?} pause={}/{:?}us stall={:?} delay={}us stop={:?}",
            self.buf, self.pause_prob, self.pause, self.stall, self.start_delay, self.stop
        )
    }
}

#[derive(Clone, Debug, PartialEq, Eq)]
pub enum ReadEnd {
    Eof,
    Error(String),
    Stopped,
}

#[derive(Clone, Debug)]
pub struct Mismatch {
    pub offset: u64,
    pub want: u8,
    pub got: u8,
}

pub struct ReaderOutcome {
    pub read: usize,
    pub end: ReadEnd,
    pub mismatch: Option<Mismatch>,
    pub finished_at: Us,
    pub half: Option<UtpStreamReadHalf>,
}

pub async fn run_reader(
    ctx: ApiCtx,
    mut r: UtpStreamReadHalf,
    key: u64,
    plan: ReaderPlan,
    mut rng: Prng,
    // fired once `expect` bytes have been read
    mut done: Option<(usize, tokio::sync::oneshot::Sender<()>)>,
) -> ReaderOutcome {
    let clock = ctx.log.clock.clone();
    let mut out = ReaderOutcome {
        read: 0,
        end: ReadEnd::Stopped,
        mismatch: None,
        finished_at: 0,
        half: None,
    };
    if plan.start_delay > 0 {
        tokio::time::sleep(std::time::Duration::from_micros(plan.start_delay)).await;
    }
    let mut stalled = false;
    let mut buf = Vec::new();
    loop {
        if matches!(&done, Some((n, _)) if out.read >= *n) {
            if let Some((_, tx)) = done.take() {
                let _ = tx.send(());
            }
        }
        match plan.stop {
            ReaderStop::DropAfter(n) if out.read >= n => {
                api_drop_reader(&ctx, r);
                out.end = ReadEnd::Stopped;
                out.finished_at = clock.now_us();
                return out;
            }
            ReaderStop::HoldAfter(n) if out.read >= n => {
                out.end = ReadEnd::Stopped;
                out.half = Some(r);
                out.finished_at = clock.now_us();
                return out;
            }
            _ => {}
        }
        if let Some((at, dur)) = plan.stall {
            if !stalled && out.read >= at {
                stalled = true;
                ctx.log.note(format!(
                    "reader conn={} side={} stalls for {}us at {} bytes",
                    ctx.conn, ctx.side, dur, out.read
                ));
                tokio::time::sleep(std::time::Duration::from_micros(dur)).await;
                ctx.log.note(format!("reader conn={} side={} resumes", ctx.conn, ctx.side));
            }
        }
        let want = rng.log_range(plan.buf.0.max(1) as u64, plan.buf.1.max(1) as u64) as usize;
        buf.resize(want, 0);
        match api_read(&ctx, &mut r, &mut buf).await {
            Ok(0) => {
                out.end = ReadEnd::Eof;
                break;
            }
            Ok(n) => {
                if out.mismatch.is_none() {
                    if let Some((offset, want, got)) = gen_check(key, out.read as u64, &buf[..n]) {
                        out.mismatch = Some(Mismatch { offset, want, got });
                        ctx.log.note(format!(
                            "MISMATCH conn={} side={} offset={} want={} got={}",
                            ctx.conn, ctx.side, offset, want, got
                        ));
                    }
                }
                out.read += n;
            }
            Err(e) => {
                out.end = ReadEnd::Error(e.to_string());
                break;
            }
        }
        if plan.pause_prob > 0.0 && rng.chance(plan.pause_prob) {
            let d = rng.range(plan.pause.0, plan.pause.1);
            tokio::time::sleep(std::time::Duration::from_micros(d)).await;
        }
    }
    out.half = Some(r);
    out.finished_at = clock.now_us();
    out
}

/// Establish one connection from `a` to `b` (b accepts). Records the calls under `conn`.
pub async fn connect_pair(
    world: &World,
    conn: u32,
    a: &SockHandle,
    b: &SockHandle,
) -> (Result<UtpStream, String>, Result<UtpStream, String>) {
    let log = world.log.clone();
    let bs = b.sock.clone();
    let log2 = log.clone();
    let acc = tokio::spawn(async move {
        log2.api(conn, 1, ApiOp::AcceptCall);
        let r = bs.accept().await;
        log2.api(
            conn,
            1,
            ApiOp::AcceptRet(r.as_ref().map(|s| s.remote_addr()).map_err(|e| e.to_string())),
        );
        r.map_err(|e| e.to_string())
    });
    log.api(conn, 0, ApiOp::ConnectCall);
    let c = a.sock.connect(b.addr).await;
    log.api(
        conn,
        0,
        ApiOp::ConnectRet(c.as_ref().map(|_| ()).map_err(|e| e.to_string())),
    );
    let c = c.map_err(|e| e.to_string());
    let acc = match acc.await {
        Ok(r) => r,
        Err(e) => Err(format!("accept task failed: {e}")),
    };
    (c, acc)
}

// keep the traits referenced so that unused-import lints stay quiet in all cfgs
#[allow(dead_code)]
fn _assert_traits<T: AsyncRead + AsyncWrite>() {}
