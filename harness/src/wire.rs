//! Independent BEP-29 (uTP) codec, written from the specification. It never calls the
//! crate's own serializer or parser, so it can serve as the reference in differential checks
//! and as the decoder for everything observed on the simulated wire.
//!
//! Packet layout (BEP 29):
//!   0: type (high nibble) | version (low nibble)      1: first extension id
//!   2..4 connection_id   4..8 timestamp_us   8..12 timestamp_diff_us
//!   12..16 wnd_size   16..18 seq_nr   18..20 ack_nr
//! followed by a chain of extensions [next_ext_id:u8][len:u8][len bytes], terminated by id 0,
//! followed by the payload.

pub const ST_DATA: u8 = 0;
pub const ST_FIN: u8 = 1;
pub const ST_STATE: u8 = 2;
pub const ST_RESET: u8 = 3;
pub const ST_SYN: u8 = 4;

pub const EXT_SACK: u8 = 1;
pub const EXT_CLOSE_REASON: u8 = 3;

pub const HEADER_LEN: usize = 20;

pub fn type_name(t: u8) -> &'static str {
    match t {
        ST_DATA => "DATA",
        ST_FIN => "FIN",
        ST_STATE => "STATE",
        ST_RESET => "RESET",
        ST_SYN => "SYN",
        _ => "?",
    }
}

#[derive(Clone, Debug, PartialEq, Eq, Default)]
pub struct Pkt {
    pub ty: u8,
    pub ver: u8,
    pub conn_id: u16,
    pub ts: u32,
    pub ts_diff: u32,
    pub wnd: u32,
    pub seq: u16,
    pub ack: u16,
    /// (extension id, data) in wire order.
    pub exts: Vec<(u8, Vec<u8>)>,
    pub payload: Vec<u8>,
}

#[derive(Clone, Copy, Debug, PartialEq, Eq)]
pub enum ParseErr {
    TooShort,
    BadVersion,
    BadType,
    ExtOverrun,
}

/// Parse the header and the extension chain. Returns the packet (payload = everything after
/// the chain) and the header length (20 + extensions).
pub fn parse_header(buf: &[u8]) -> Result<(Pkt, usize), ParseErr> {
    if buf.len() < HEADER_LEN {
        return Err(ParseErr::TooShort);
    }
    let ty = buf[0] >> 4;
    let ver = buf[0] & 0x0f;
    if ver != 1 {
        return Err(ParseErr::BadVersion);
    }
    if ty > ST_SYN {
        return Err(ParseErr::BadType);
    }
    let be16 = |i: usize| u16::from_be_bytes([buf[i], buf[i + 1]]);
    let be32 = |i: usize| u32::from_be_bytes([buf[i], buf[i + 1], buf[i + 2], buf[i + 3]]);
    let mut p = Pkt {
        ty,
        ver,
        conn_id: be16(2),
        ts: be32(4),
        ts_diff: be32(8),
        wnd: be32(12),
        seq: be16(16),
        ack: be16(18),
        exts: Vec::new(),
        payload: Vec::new(),
    };
    let mut next = buf[1];
    let mut pos = HEADER_LEN;
    while next != 0 {
        if pos + 2 > buf.len() {
            return Err(ParseErr::ExtOverrun);
        }
        let id = next;
        next = buf[pos];
        let len = buf[pos + 1] as usize;
        if pos + 2 + len > buf.len() {
            return Err(ParseErr::ExtOverrun);
        }
        p.exts.push((id, buf[pos + 2..pos + 2 + len].to_vec()));
        pos += 2 + len;
    }
    p.payload = buf[pos..].to_vec();
    Ok((p, pos))
}

/// Full message-level parse: header rules plus "payload present exactly for data packets".
pub fn parse(buf: &[u8]) -> Option<Pkt> {
    let (p, _) = parse_header(buf).ok()?;
    if p.ty == ST_DATA {
        if p.payload.is_empty() {
            return None;
        }
    } else if !p.payload.is_empty() {
        return None;
    }
    Some(p)
}

impl Pkt {
    pub fn new(ty: u8, conn_id: u16, seq: u16, ack: u16, wnd: u32) -> Pkt {
        Pkt {
            ty,
            ver: 1,
            conn_id,
            seq,
            ack,
            wnd,
            ..Default::default()
        }
    }

    pub fn with_payload(mut self, payload: Vec<u8>) -> Pkt {
        self.payload = payload;
        self
    }

    pub fn with_ts(mut self, ts: u32, ts_diff: u32) -> Pkt {
        self.ts = ts;
        self.ts_diff = ts_diff;
        self
    }

    pub fn with_sack(mut self, bytes: Vec<u8>) -> Pkt {
        self.exts.push((EXT_SACK, bytes));
        self
    }

    pub fn encode(&self) -> Vec<u8> {
        let mut b = Vec::with_capacity(HEADER_LEN + self.payload.len() + 16);
        b.push((self.ty << 4) | (self.ver & 0x0f));
        b.push(self.exts.first().map(|e| e.0).unwrap_or(0));
        b.extend_from_slice(&self.conn_id.to_be_bytes());
        b.extend_from_slice(&self.ts.to_be_bytes());
        b.extend_from_slice(&self.ts_diff.to_be_bytes());
        b.extend_from_slice(&self.wnd.to_be_bytes());
        b.extend_from_slice(&self.seq.to_be_bytes());
        b.extend_from_slice(&self.ack.to_be_bytes());
        for (i, (_, data)) in self.exts.iter().enumerate() {
            b.push(self.exts.get(i + 1).map(|e| e.0).unwrap_or(0));
            b.push(data.len() as u8);
            b.extend_from_slice(data);
        }
        b.extend_from_slice(&self.payload);
        b
    }

    /// The selective-ACK bitmask bytes in force (the last SACK extension wins, which is also
    /// what a parser that stores one SACK per header does).
    pub fn sack(&self) -> Option<&[u8]> {
        self.exts
            .iter()
            .rev()
            .find(|e| e.0 == EXT_SACK)
            .map(|e| e.1.as_slice())
    }

    /// Is bit `i` of the selective ACK set? Bit i stands for sequence number ack_nr + 2 + i.
    pub fn sack_bit(&self, i: usize) -> bool {
        match self.sack() {
            Some(b) => b.get(i / 8).map(|x| (x >> (i % 8)) & 1 == 1).unwrap_or(false),
            None => false,
        }
    }

    /// Sequence numbers selectively acknowledged by this packet (first 64 bits only; the
    /// implementation under test documents that it truncates longer masks).
    pub fn sacked_seqs(&self, max_bits: usize) -> Vec<u16> {
        let mut v = Vec::new();
        if let Some(b) = self.sack() {
            for i in 0..(b.len() * 8).min(max_bits) {
                if (b[i / 8] >> (i % 8)) & 1 == 1 {
                    v.push(self.ack.wrapping_add(2).wrapping_add(i as u16));
                }
            }
        }
        v
    }

    pub fn short(&self) -> String {
        let mut s = format!(
            "{} id={} seq={} ack={} wnd={}",
            type_name(self.ty),
            self.conn_id,
            self.seq,
            self.ack,
            self.wnd
        );
        if let Some(b) = self.sack() {
            s.push_str(" sack=");
            for x in b {
                s.push_str(&format!("{:02x}", x));
            }
        }
        if !self.payload.is_empty() {
            s.push_str(&format!(" len={}", self.payload.len()));
        }
        s
    }
}

/// True modular distance a - b in (-32768, 32768].
pub fn seq_diff(a: u16, b: u16) -> i32 {
    let d = a.wrapping_sub(b);
    if d <= 0x8000 {
        d as i32
    } else {
        d as i32 - 0x10000
    }
}

pub fn seq_le(a: u16, b: u16) -> bool {
    seq_diff(a, b) <= 0
}
pub fn seq_lt(a: u16, b: u16) -> bool {
    seq_diff(a, b) < 0
}
