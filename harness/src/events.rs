//! Event log of one simulated case. Everything the monitors look at is in here.
use std::{net::SocketAddr, sync::Arc};

use librqbit_utp::verif::VerifEvent;
use parking_lot::Mutex;

use crate::wire::Pkt;

/// Virtual microseconds since the start of the case.
pub type Us = u64;

pub const MS: Us = 1_000;
pub const SEC: Us = 1_000_000;

#[derive(Clone, Debug, PartialEq)]
pub enum Fate {
    /// Delivered once per entry, after the given delay.
    Deliver(Vec<Us>),
    Drop(&'static str),
    /// The local send call failed with EMSGSIZE.
    Emsgsize,
    /// The local send call returned Poll::Pending (back-pressure).
    Pending,
    /// The local send call failed with another error.
    SendError,
}

#[derive(Clone, Debug, PartialEq)]
pub enum ApiOp {
    ConnectCall,
    ConnectRet(Result<(), String>),
    AcceptCall,
    AcceptRet(Result<SocketAddr, String>),
    WriteCall { len: usize },
    WriteRet(Result<usize, String>),
    ReadCall { buf: usize },
    /// Ok(0) is end of stream.
    ReadRet(Result<usize, String>),
    FlushCall,
    FlushRet(Result<(), String>),
    ShutdownCall,
    ShutdownRet(Result<(), String>),
    DropReader,
    DropWriter,
    /// A future was dropped before completing.
    Cancelled(&'static str),
}

#[derive(Clone, Debug)]
pub enum Ev {
    Send {
        id: u64,
        src: SocketAddr,
        dst: SocketAddr,
        bytes: Arc<Vec<u8>>,
        pkt: Option<Pkt>,
        fate: Fate,
        /// Sent by harness code (scripted peer / attacker), not by a real socket.
        scripted: bool,
    },
    /// Datagram `id` was placed into the destination's receive queue.
    Arrive { id: u64, dst: SocketAddr },
    /// Datagram `id` was handed to the destination by `recv_from`.
    Recv { id: u64, dst: SocketAddr },
    Api { conn: u32, side: u8, op: ApiOp },
    Hook(VerifEvent),
    /// WARN-or-above tracing event emitted by the library.
    Warn(String),
    Panic(String),
    Note(String),
}

#[derive(Clone, Debug)]
pub struct Event {
    pub t: Us,
    pub ev: Ev,
}

pub struct Clock {
    base_tokio: tokio::time::Instant,
    base_std: std::time::Instant,
}

impl Clock {
    /// Must be called inside the (paused) runtime.
    pub fn new() -> Arc<Clock> {
        Arc::new(Clock {
            base_tokio: tokio::time::Instant::now(),
            base_std: std::time::Instant::now(),
        })
    }
    pub fn now_us(&self) -> Us {
        (tokio::time::Instant::now() - self.base_tokio).as_micros() as Us
    }
    pub fn now_std(&self) -> std::time::Instant {
        self.base_std + (tokio::time::Instant::now() - self.base_tokio)
    }
    pub fn std_to_us(&self, i: std::time::Instant) -> Us {
        i.saturating_duration_since(self.base_std).as_micros() as Us
    }
    pub fn tokio_at(&self, t: Us) -> tokio::time::Instant {
        self.base_tokio + std::time::Duration::from_micros(t)
    }
}

pub struct Log {
    pub clock: Arc<Clock>,
    events: Mutex<Vec<Event>>,
    /// When false, hook snapshots (PollStart/PollEnd) are not stored (they are large).
    pub keep_snapshots: bool,
    /// Store SocketTables hook events even without snapshots (multi-connection families).
    pub keep_tables: std::sync::atomic::AtomicBool,
    frozen: Mutex<Option<Us>>,
    disabled: std::sync::atomic::AtomicBool,
}

impl Log {
    pub fn new(clock: Arc<Clock>, keep_snapshots: bool) -> Arc<Log> {
        Arc::new(Log {
            clock,
            events: Mutex::new(Vec::new()),
            keep_snapshots,
            keep_tables: std::sync::atomic::AtomicBool::new(false),
            frozen: Mutex::new(None),
            disabled: std::sync::atomic::AtomicBool::new(false),
        })
    }
    /// From now on every event is stamped with `t` (used once the runtime is gone).
    pub fn freeze(&self, t: Us) {
        *self.frozen.lock() = Some(t);
    }
    /// Stop recording (stress binaries that only use the network, not the log).
    pub fn disable(&self) {
        self.disabled.store(true, std::sync::atomic::Ordering::Relaxed);
    }
    pub fn push(&self, ev: Ev) {
        if self.disabled.load(std::sync::atomic::Ordering::Relaxed) {
            return;
        }
        let t = match *self.frozen.lock() {
            Some(t) => t,
            None => self.clock.now_us(),
        };
        self.events.lock().push(Event { t, ev });
    }
    pub fn api(&self, conn: u32, side: u8, op: ApiOp) {
        self.push(Ev::Api { conn, side, op });
    }
    pub fn note(&self, s: impl Into<String>) {
        self.push(Ev::Note(s.into()));
    }
    pub fn len(&self) -> usize {
        self.events.lock().len()
    }
    pub fn take(&self) -> Vec<Event> {
        std::mem::take(&mut *self.events.lock())
    }
    pub fn snapshot(&self) -> Vec<Event> {
        self.events.lock().clone()
    }
    pub fn with<R>(&self, f: impl FnOnce(&[Event]) -> R) -> R {
        f(&self.events.lock())
    }
}

/// Timer deadline relative to the poll's `now`, in milliseconds (negative = overdue).
fn rel(now: Option<std::time::Instant>, t: Option<std::time::Instant>) -> Option<i64> {
    match (now, t) {
        (Some(n), Some(t)) => Some(if t >= n {
            (t - n).as_millis() as i64
        } else {
            -((n - t).as_millis() as i64)
        }),
        _ => None,
    }
}

pub fn fmt_us(t: Us) -> String {
    format!("{}.{:06}s", t / SEC, t % SEC)
}

/// Human-readable one-line rendering, used in replay files and witnesses.
pub fn render(e: &Event) -> String {
    let t = fmt_us(e.t);
    match &e.ev {
        Ev::Send {
            id,
            src,
            dst,
            bytes,
            pkt,
            fate,
            scripted,
        } => {
            let p = match pkt {
                Some(p) => p.short(),
                None => format!("<unparseable {} bytes>", bytes.len()),
            };
            format!(
                "{t} SEND #{id} {}{src}->{dst} [{p}] {} bytes fate={fate:?}",
                if *scripted { "(scripted) " } else { "" },
                bytes.len()
            )
        }
        Ev::Arrive { id, dst } => format!("{t} ARRIVE #{id} at {dst}"),
        Ev::Recv { id, dst } => format!("{t} RECV #{id} by {dst}"),
        Ev::Api { conn, side, op } => format!("{t} API conn={conn} side={side} {op:?}"),
        Ev::Hook(h) => match h {
            VerifEvent::PollStart { id, snap }
            | VerifEvent::PollEnd { id, snap, .. }
            | VerifEvent::VsockDropped { id, snap } => format!(
                "{t} HOOK {} uid={} {}->{} state={} seq={} last_sent={} consumed={} rwnd={} cwnd={} flight={} rec={} rto_rx={} segs={} ring={}/{} rxq={}/{} ooq={} timers[rt={:?} ack={:?} inact={:?} pipe={:?} synack={:?}] rto={:?} pend={} unseg={}",
                match h {
                    VerifEvent::PollStart { .. } => "poll-start".to_string(),
                    VerifEvent::PollEnd { finished, .. } => format!("poll-end({finished:?})"),
                    _ => "vsock-dropped".to_string(),
                },
                id.uid, id.local, id.remote, snap.state, snap.seq_nr, snap.last_sent_seq_nr,
                snap.last_consumed_remote_seq_nr, snap.last_remote_window, snap.cwnd, snap.flight_size,
                snap.recovery, snap.rto_retransmissions, snap.segments.count, snap.tx.ring_len,
                snap.tx.ring_capacity, snap.rx.queue_len_bytes, snap.rx.queue_capacity, snap.rx.ooq_len,
                rel(snap.now, snap.timers.retransmit), rel(snap.now, snap.timers.ack_delay),
                rel(snap.now, snap.timers.remote_inactivity), rel(snap.now, snap.timers.recovery_pipe_expiry),
                rel(snap.now, snap.timers.syn_ack_resend), snap.rto, snap.transport_pending, snap.unsegmented_data
            ),
            other => format!("{t} HOOK {other:?}"),
        },
        Ev::Warn(s) => format!("{t} WARN {s}"),
        Ev::Panic(s) => format!("{t} PANIC {s}"),
        Ev::Note(s) => format!("{t} NOTE {s}"),
    }
}
