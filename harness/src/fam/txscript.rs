//! `tx_script` family: one real socket sends, the scripted peer receives and answers with a
//! generated acknowledgement / window history (cumulative, duplicate, selective, stale ACKs,
//! pretended losses, silence, growing / shrinking / zero / re-opening windows).
use std::{collections::BTreeMap, sync::Arc, time::Duration};

use crate::{
    app::{run_reader, run_writer, stream_key, ApiCtx, ReaderPlan, WriterEnd, WriterPlan},
    events::{Ev, Us, MS, SEC},
    peer::Peer,
    prng::Prng,
    sim::{run_case, v4, v6, CaseRun, FaultPlan, SockCfg, World},
    wire::{self, Pkt},
};

#[derive(Clone, Debug, PartialEq)]
pub enum AckMode {
    /// acknowledge in the step in which the packet arrived
    Immediate,
    /// acknowledge this long after arrival
    Delayed(Us),
    /// acknowledge every n-th data packet (and whatever is left after `flush` us of quiet)
    EveryN(u32, Us),
}

#[derive(Clone, Debug, PartialEq)]
pub enum WindowMode {
    Const(u32),
    /// random walk between lo and hi, step up to `step`
    Walk { lo: u32, hi: u32, step: u32 },
    /// `open` normally; after `after` data packets advertise 0 for `closed_for` us, then re-open
    ZeroThenOpen { open: u32, after: u32, closed_for: Us },
    /// shrink from `from` by `by` per ACK down to `to`
    Shrink { from: u32, by: u32, to: u32 },
}

#[derive(Clone, Debug)]
pub struct PeerPolicy {
    pub sack_capable: bool,
    pub ack: AckMode,
    /// probability that the first transmission of a data packet is "lost" at the peer
    pub lose_first: f64,
    /// probability that a retransmission is "lost" too (each time)
    pub lose_retx: f64,
    /// after each ACK, with this probability, repeat it this many times (duplicate ACKs)
    pub dup_ack: (f64, u32),
    /// repeat ACKs only while the peer holds data out of order (what a real receiver does);
    /// false = also repeat ACKs that report no hole (spurious duplicates)
    pub dup_only_with_hole: bool,
    /// probability to send, in addition, a stale ACK (an old acknowledgement number)
    pub stale_ack: f64,
    pub window: WindowMode,
    /// the peer falls silent after this many data packets, for this long (u64::MAX = for good)
    pub silence: Option<(u32, Us)>,
    /// the peer sends data packets of its own: (payload size, every n-th step with traffic)
    pub peer_data: Option<(usize, u32)>,
    /// reordering without loss: with this probability a first transmission is processed by the
    /// peer only after 1..2 later data packets (its ACKs in between report the hole; fewer than
    /// three of them, so a conforming sender sees no loss event)
    pub reorder: f64,
    /// while silent for good, the peer still emits, at this period, packets that acknowledge
    /// nothing new and are not duplicate ACKs either: 0 = its last ACK with a window that differs
    /// from the previous packet's, 1 = data packets of its own, 2 = both in turn
    pub silence_noise: Option<(Us, u8)>,
}

#[derive(Clone, Debug)]
pub struct TxCfg {
    pub ipv6: bool,
    pub sock: SockCfg,
    pub real_initiates: bool,
    pub peer_isn: u16,
    pub peer_conn_id: u16,
    pub writer: WriterPlan,
    pub policy: PeerPolicy,
    /// virtual time limit of the scenario
    pub limit: Us,
    pub keep_snapshots: bool,
}

impl TxCfg {
    pub fn describe(&self) -> String {
        format!(
            "{} sock[{}] role={} peer_isn={} peer_cid={} writer[{}] policy={:?} limit={}us",
            if self.ipv6 { "v6" } else { "v4" },
            self.sock.describe(),
            if self.real_initiates { "real-connects" } else { "real-accepts" },
            self.peer_isn,
            self.peer_conn_id,
            self.writer.describe(),
            self.policy,
            self.limit
        )
    }
}

#[derive(Default)]
pub struct TxOutcome {
    pub connected: bool,
    pub accepted: usize,
    pub writer_error: Option<String>,
    pub writer_done: bool,
    pub peer_received_bytes: u64,
    pub peer_inbox: Vec<(Us, Pkt)>,
    pub ended_at: Us,
}

enum DueItem {
    /// an acknowledgement built from the peer's receive state at send time, sent `copies` times
    Ack { wnd: u32, copies: u32 },
    Raw(Pkt),
}

pub const REAL_PORT: u16 = 3003;
pub const PEER_PORT: u16 = 4004;

pub async fn tx_scenario(world: Arc<World>, cfg: TxCfg, case_seed: u64) -> TxOutcome {
    let mut out = TxOutcome::default();
    let (ra, pa) = if cfg.ipv6 { (v6(REAL_PORT), v6(PEER_PORT)) } else { (v4(REAL_PORT), v4(PEER_PORT)) };
    let sock = world.socket(ra, &cfg.sock);
    let mut rng = Prng::new(case_seed ^ 0x7C5C);
    let init_wnd = match &cfg.policy.window {
        WindowMode::Const(w) => *w,
        WindowMode::Walk { hi, .. } => *hi,
        WindowMode::ZeroThenOpen { open, .. } => *open,
        WindowMode::Shrink { from, .. } => *from,
    };
    let hs = if cfg.real_initiates {
        Peer::accept_from(world.clone(), pa, &sock, cfg.peer_isn, init_wnd, 0).await
    } else {
        Peer::connect_to(world.clone(), pa, &sock, cfg.peer_conn_id, cfg.peer_isn, 0).await
    };
    let (mut peer, stream) = match hs {
        Some(x) => x,
        None => return out,
    };
    out.connected = true;
    let (r, w) = stream.split();
    let key = stream_key(case_seed, 0, 0);
    let pkey = stream_key(case_seed, 0, 1);
    let ctx = |side: u8| ApiCtx { log: world.log.clone(), conn: 0, side };
    let hw = tokio::spawn(run_writer(ctx(0), w, key, cfg.writer.clone(), rng.fork(1), None, None));
    let hr = tokio::spawn(run_reader(ctx(0), r, pkey, ReaderPlan::greedy(), rng.fork(2), None));
    // the accepting side needs to hear from the initiator first
    let mut cur_wnd = init_wnd;
    if !cfg.real_initiates {
        let p = peer.state_pkt(cur_wnd, false);
        peer.send(p);
    }
    let pol = cfg.policy.clone();
    let mut due: BTreeMap<(Us, u64), DueItem> = BTreeMap::new();
    let mut order = 0u64;
    let mut data_seen: u32 = 0;
    let mut unacked_since_last: u32 = 0;
    let mut last_arrival: Us = 0;
    let mut silent_until: Option<Us> = None;
    let mut silence_done = false;
    let mut zero_until: Option<Us> = None;
    let mut zero_done = false;
    let mut idle_steps: u32 = 0;
    let mut peer_idx: u32 = 0;
    let mut peer_off: u64 = 0;
    let mut log_pos = 0usize;
    let mut dead_at: Option<Us> = None;
    let mut old_acks: Vec<u16> = Vec::new();
    let mut late: Vec<(i64, usize, u32, Us)> = Vec::new();
    let mut last_ack_sent: Option<Pkt> = None;
    let mut next_noise: Us = 0;
    let mut noise_count: u32 = 0;
    loop {
        // adaptive stepping: 1 ms while there is traffic, coarser when idle
        let nap = if idle_steps < 60 {
            MS
        } else if idle_steps < 400 {
            10 * MS
        } else {
            100 * MS
        };
        // never sleep past the next due packet
        let now = world.now();
        let nap = match due.keys().next() {
            Some((t, _)) if *t > now => nap.min((*t - now).max(MS)),
            Some(_) => MS,
            None => nap,
        };
        world.sleep_us(nap).await;
        let now = world.now();
        // has the real endpoint's connection ended?
        world.log.with(|evs| {
            for e in &evs[log_pos..] {
                if let Ev::Hook(librqbit_utp::verif::VerifEvent::VsockDropped { .. }) = &e.ev {
                    dead_at.get_or_insert(e.t);
                }
            }
            log_pos = evs.len();
        });
        let mut rng2 = rng.fork(now);
        let lose_first = pol.lose_first;
        let lose_retx = pol.lose_retx;
        let reorder = pol.reorder;
        let mut held_now: Vec<(i64, usize)> = Vec::new();
        let pkts = peer.drain(|idx, p, nth| {
            if nth <= 1 {
                if reorder > 0.0 && rng2.chance(reorder) {
                    // processed later (reordered on the way), not lost
                    held_now.push((idx, p.payload.len()));
                    return false;
                }
                !rng2.chance(lose_first)
            } else {
                !rng2.chance(lose_retx)
            }
        });
        for (idx, len) in held_now {
            let after = data_seen + 1 + rng2.below(2) as u32;
            late.push((idx, len, after, now + 30 * MS));
        }
        if pkts.is_empty() {
            idle_steps = idle_steps.saturating_add(1);
        } else {
            idle_steps = 0;
        }
        let in_silence = match silent_until {
            Some(t) => now < t,
            None => false,
        };
        let mut got_data = 0u32;
        for k in &pkts {
            if k.ty == wire::ST_DATA || k.ty == wire::ST_FIN {
                got_data += 1;
                data_seen += 1;
                last_arrival = now;
            }
        }
        // reordered packets turn up: after enough later packets, or 30 ms at the latest
        let mut i = 0;
        while i < late.len() {
            if data_seen > late[i].2 || now >= late[i].3 {
                let (idx, len, _, _) = late.remove(i);
                peer.received.entry(idx).or_insert(len);
                got_data += 1;
                last_arrival = now;
            } else {
                i += 1;
            }
        }
        if let (Some((after, dur)), false) = (pol.silence, silence_done) {
            if data_seen >= after {
                silence_done = true;
                silent_until = Some(if dur == u64::MAX { u64::MAX } else { now + dur });
                world.log.note(format!("peer falls silent until {:?}", silent_until));
            }
        }
        // window policy
        match &pol.window {
            WindowMode::Const(w) => cur_wnd = *w,
            WindowMode::Walk { lo, hi, step } => {
                if got_data > 0 {
                    let d = rng.below(*step as u64 + 1) as u32;
                    cur_wnd = if rng.chance(0.5) { cur_wnd.saturating_add(d).min(*hi) } else { cur_wnd.saturating_sub(d).max(*lo) };
                }
            }
            WindowMode::ZeroThenOpen { open, after, closed_for } => {
                if !zero_done && data_seen >= *after {
                    zero_done = true;
                    zero_until = Some(now + *closed_for);
                }
                cur_wnd = match zero_until {
                    Some(t) if now < t => 0,
                    Some(_) => {
                        // re-open: announce it once
                        zero_until = None;
                        due.insert((now, order), DueItem::Ack { wnd: *open, copies: 1 });
                        order += 1;
                        *open
                    }
                    None => *open,
                };
            }
            WindowMode::Shrink { by, to, .. } => {
                if got_data > 0 {
                    cur_wnd = cur_wnd.saturating_sub(*by * got_data).max(*to);
                }
            }
        }
        if got_data > 0 && !in_silence {
            unacked_since_last += got_data;
            let when = match &pol.ack {
                AckMode::Immediate => Some(now),
                AckMode::Delayed(d) => Some(now + *d),
                AckMode::EveryN(n, _) => {
                    if unacked_since_last >= *n {
                        Some(now)
                    } else {
                        None
                    }
                }
            };
            if let Some(t) = when {
                unacked_since_last = 0;
                old_acks.push(peer.ack_nr());
                let mut copies = 1;
                let has_hole = peer.received.range(peer.contiguous() + 1..).next().is_some();
                if pol.dup_ack.0 > 0.0 && rng.chance(pol.dup_ack.0) && (has_hole || !pol.dup_only_with_hole) {
                    copies += pol.dup_ack.1;
                }
                due.insert((t, order), DueItem::Ack { wnd: cur_wnd, copies });
                order += 1;
                if pol.stale_ack > 0.0 && rng.chance(pol.stale_ack) && old_acks.len() > 3 {
                    let a = old_acks[rng.below(old_acks.len() as u64 - 1) as usize];
                    let sp = Pkt::new(wire::ST_STATE, peer.id_send, peer.next_seq, a, cur_wnd);
                    due.insert((t, order), DueItem::Raw(sp));
                    order += 1;
                }
            }
        } else if let AckMode::EveryN(_, flush) = &pol.ack {
            if unacked_since_last > 0 && !in_silence && now >= last_arrival + *flush {
                unacked_since_last = 0;
                due.insert((now, order), DueItem::Ack { wnd: cur_wnd, copies: 1 });
                order += 1;
            }
        }
        // the peer's own data
        if let (Some((size, every)), false) = (pol.peer_data, in_silence) {
            if got_data > 0 && data_seen % every.max(1) == 0 && peer_idx < 4000 {
                let p = peer.data_pkt(pkey, peer_idx, peer_off, size, cur_wnd);
                peer.next_seq = peer.first_seq.wrapping_add(peer_idx as u16 + 1);
                peer_idx += 1;
                peer_off += size as u64;
                due.insert((now, order), DueItem::Raw(p));
                order += 1;
            }
        }
        // send what is due (acknowledgement numbers are refreshed at send time for delayed ACKs)
        let due_now: Vec<(Us, u64)> = due.range(..=(now, u64::MAX)).map(|(k, _)| *k).collect();
        for k in due_now {
            let item = due.remove(&k).unwrap();
            if in_silence {
                continue;
            }
            match item {
                DueItem::Ack { wnd, copies } => {
                    let p = peer.state_pkt(wnd, pol.sack_capable);
                    for _ in 0..copies {
                        peer.send(p.clone());
                    }
                    last_ack_sent = Some(p);
                }
                DueItem::Raw(p) => peer.send(p),
            }
        }
        // noise in the silent phase: packets that acknowledge nothing new
        if let (true, Some((period, kind)), Some(last)) = (in_silence && silent_until == Some(u64::MAX), pol.silence_noise, last_ack_sent.as_ref()) {
            if now >= next_noise {
                next_noise = now + period;
                let mut p = last.clone();
                p.exts.clear();
                noise_count += 1;
                // never a duplicate ACK in the sender's eyes (same type, number and window as the
                // packet before): those legitimately start fast retransmit. A window that differs
                // from the previous packet's, or a payload, makes it an ordinary packet.
                let as_data = match kind {
                    0 => false,
                    1 => true,
                    _ => noise_count % 2 == 0,
                };
                if as_data {
                    p.ty = wire::ST_DATA;
                    p.seq = peer.first_seq.wrapping_add(peer_idx as u16);
                    p.payload = crate::app::gen_vec(pkey, peer_off, 20);
                    peer_idx += 1;
                    peer_off += 20;
                    peer.next_seq = peer.first_seq.wrapping_add(peer_idx as u16);
                }
                p.wnd = last.wnd.saturating_add(1000 + 1000 * (noise_count % 2));
                world.log.note("peer noise: a packet that acknowledges nothing new");
                peer.send(p);
            }
        }
        // termination
        let writer_finished = hw.is_finished();
        let all_rx = peer.received.values().map(|l| *l as u64).sum::<u64>();
        if writer_finished && due.is_empty() && idle_steps > 30 {
            let fin_ok = match cfg.writer.end {
                WriterEnd::Hold | WriterEnd::Drop | WriterEnd::FlushThenDrop => true,
                WriterEnd::Shutdown => true,
            };
            if fin_ok && (all_rx as usize >= cfg.writer.total || dead_at.is_some()) && idle_steps > 200 {
                break;
            }
        }
        if let Some(t) = dead_at {
            if now > t + 2 * SEC {
                break;
            }
        }
        if now >= cfg.limit {
            break;
        }
    }
    out.writer_done = hw.is_finished();
    if hw.is_finished() {
        if let Ok(w) = hw.await {
            out.accepted = w.accepted;
            out.writer_error = w.error.clone();
            drop(w);
        }
    } else {
        hw.abort();
    }
    hr.abort();
    out.peer_received_bytes = peer.received.values().map(|l| *l as u64).sum();
    out.peer_inbox = std::mem::take(&mut peer.inbox_log);
    out.ended_at = world.now();
    drop(sock);
    out
}

pub fn run_tx(case_seed: u64, cfg: &TxCfg) -> CaseRun<TxOutcome> {
    let cfg2 = cfg.clone();
    let deadline = Duration::from_micros(cfg.limit + 120 * SEC);
    run_case(case_seed, deadline, cfg.keep_snapshots, FaultPlan::perfect(case_seed), move |w| tx_scenario(w, cfg2, case_seed))
}

/// What a property wants to stress.
#[derive(Clone, Copy, Debug, PartialEq, Eq)]
pub enum TxFocus {
    /// window histories (C05)
    Window,
    /// losses, duplicate / selective / stale ACKs, silence (C06)
    Retransmit,
    /// write sizes vs ACK timing, both Nagle settings (C18)
    Nagle,
    /// writers outrunning a slow / silent peer, all buffer settings (C19)
    Buffer,
    /// peer payload sizes vs local link MTU (C14)
    Mtu,
}

pub fn generate(case_seed: u64, focus: TxFocus, max_total: usize) -> TxCfg {
    let mut rng = Prng::new(case_seed);
    let ipv6 = rng.chance(0.25);
    let ipv4 = !ipv6;
    let mut sock = SockCfg::default();
    let min_mtu = if ipv4 { 576 } else { 1280 };
    sock.link_mtu = match rng.below(5) {
        0 | 1 => None,
        2 => Some(rng.usize_range(min_mtu, 1500)),
        3 => Some(min_mtu),
        _ => Some(rng.usize_range(if ipv4 { 150 } else { 250 }, 3000)),
    };
    sock.disable_nagle = rng.chance(0.3);
    sock.remote_inactivity_timeout = Some(Duration::from_secs(600));
    match rng.below(4) {
        0 => {}
        1 => {
            sock.tx_buf_initial = Some(rng.log_range(1, 65536) as usize);
            sock.tx_buf_max = Some(rng.log_range(512, 1 << 20) as usize);
        }
        2 => {
            sock.tx_buf_initial = Some(rng.log_range(1024, 1 << 20) as usize);
            sock.tx_buf_max = Some(rng.log_range(64, 1 << 20) as usize);
        }
        _ => sock.tx_buf_initial = Some(rng.log_range(256, 1 << 18) as usize),
    }
    let mss = sock.min_payload(ipv4) as u32;
    let mut total = rng.log_range(1, max_total as u64) as usize;
    let mut writer = WriterPlan {
        total,
        chunk: (1, *rng.pick(&[64usize, 2048, 65536, 400_000])),
        pause_prob: *rng.pick(&[0.0, 0.0, 0.3, 0.6]),
        pause: (MS, *rng.pick(&[5u64, 50, 400]) * MS),
        flush_prob: 0.0,
        start_delay: 0,
        end: if rng.chance(0.5) { WriterEnd::Hold } else { WriterEnd::Shutdown },
    };
    // size probes with no / more retransmissions of their own (default 1)
    {
        let mut a = Prng::new(case_seed ^ 0x9B0B_E5);
        if a.chance(0.4) {
            sock.mtu_probe_max_retransmissions = Some(a.below(3) as usize);
        }
    }
    // the write half dropped right after the last write (the tail may still be buffered)
    if Prng::new(case_seed ^ 0xD20F_E2D).chance(0.3) {
        writer.end = WriterEnd::Drop;
    }
    let big = (1u32 << 20).max(8 * mss);
    let mut policy = PeerPolicy {
        sack_capable: rng.chance(0.6),
        ack: match rng.below(4) {
            0 | 1 => AckMode::Immediate,
            2 => AckMode::Delayed(*rng.pick(&[1u64, 10, 40, 100]) * MS),
            _ => AckMode::EveryN(rng.range(2, 4) as u32, 40 * MS),
        },
        lose_first: 0.0,
        lose_retx: 0.0,
        dup_ack: (0.0, 0),
        dup_only_with_hole: rng.chance(0.8),
        stale_ack: 0.0,
        window: WindowMode::Const(big),
        silence: None,
        peer_data: None,
        reorder: 0.0,
        silence_noise: None,
    };
    match focus {
        TxFocus::Window => {
            policy.window = match rng.below(6) {
                0 => WindowMode::Const(*rng.pick(&[mss, 2 * mss, 3 * mss + 17, 10 * mss, 65536])),
                1 | 2 => {
                    let lo = *rng.pick(&[0u32, 1, mss / 2, mss]);
                    WindowMode::Walk { lo, hi: rng.range(2 * mss as u64, 40 * mss as u64) as u32, step: rng.range(1, 6 * mss as u64) as u32 }
                }
                3 | 4 => WindowMode::ZeroThenOpen { open: rng.range(2 * mss as u64, 30 * mss as u64) as u32, after: rng.range(1, 40) as u32, closed_for: rng.range(50, 3000) * MS },
                _ => WindowMode::Shrink { from: rng.range(10 * mss as u64, 60 * mss as u64) as u32, by: rng.range(1, mss as u64) as u32, to: *rng.pick(&[0u32, mss, 2 * mss]) },
            };
            let mut aux = Prng::new(case_seed ^ 0x71_6877);
            if aux.chance(0.3) {
                // losses under a window that stays the binding limit (the congestion window outgrows
                // it on a long transfer): recovery, and the sending right after it, against a tight window
                policy.sack_capable = aux.chance(0.8);
                policy.lose_first = *aux.pick(&[0.03, 0.08, 0.15, 0.25]);
                if aux.chance(0.5) {
                    policy.ack = AckMode::Immediate;
                }
                policy.window = if aux.chance(0.5) {
                    WindowMode::Const(aux.range(3, 12) as u32 * mss + aux.below(mss as u64) as u32)
                } else {
                    WindowMode::Walk { lo: 3 * mss, hi: aux.range(5, 14) as u32 * mss, step: aux.range(1, 2 * mss as u64) as u32 }
                };
                total = total.max(aux.range(40_000, 150_000) as usize).min(max_total);
                writer.pause_prob = 0.0;
                writer.chunk = (1, 65536);
            } else if rng.chance(0.3) {
                policy.lose_first = *rng.pick(&[0.02, 0.1]);
            } else if rng.chance(0.4) {
                // reordering only: no loss event ever, the slow-start bound stays in force throughout
                policy.reorder = *rng.pick(&[0.05, 0.2, 0.4]);
                policy.ack = AckMode::Immediate;
                policy.window = WindowMode::Const(big);
            }
        }
        TxFocus::Retransmit => {
            match rng.below(5) {
                0 => {
                    // silence: the peer stops acknowledging at a random point
                    policy.silence = Some((rng.range(0, 30) as u32, if rng.chance(0.6) { u64::MAX } else { rng.range(300, 20_000) * MS }));
                    sock.max_retransmissions = Some(*rng.pick(&[2usize, 5, 5, 9, 14]));
                    sock.remote_inactivity_timeout = Some(Duration::from_secs(3600));
                    if rng.chance(0.5) {
                        policy.silence_noise = Some((*rng.pick(&[37u64, 130, 900]) * MS, rng.below(3) as u8));
                    }
                }
                1 => {
                    policy.sack_capable = false;
                    policy.lose_first = *rng.pick(&[0.02, 0.1, 0.25]);
                    policy.dup_ack = (*rng.pick(&[0.0, 0.3, 1.0]), rng.range(1, 5) as u32);
                }
                2 => {
                    policy.sack_capable = true;
                    policy.lose_first = *rng.pick(&[0.02, 0.1, 0.25]);
                    policy.lose_retx = *rng.pick(&[0.0, 0.1, 0.3]);
                }
                3 => {
                    policy.lose_first = *rng.pick(&[0.05, 0.2]);
                    policy.stale_ack = 0.3;
                    policy.dup_ack = (0.2, 2);
                }
                _ => {
                    policy.lose_first = *rng.pick(&[0.05, 0.15]);
                    policy.lose_retx = 0.2;
                    policy.window = WindowMode::Walk { lo: 2 * mss, hi: 30 * mss, step: 3 * mss };
                }
            }
        }
        TxFocus::Nagle => {
            sock.disable_nagle = rng.chance(0.5);
            writer.chunk = (1, *rng.pick(&[16usize, 3 * mss as usize, 700, 64]));
            writer.pause_prob = *rng.pick(&[0.0, 0.2, 0.5, 0.9]);
            writer.pause = (MS, *rng.pick(&[2u64, 20, 90]) * MS);
            policy.ack = match rng.below(3) {
                0 => AckMode::Immediate,
                1 => AckMode::Delayed(*rng.pick(&[1u64, 10, 40, 100]) * MS),
                _ => AckMode::EveryN(2, 40 * MS),
            };
            policy.window = if rng.chance(0.7) { WindowMode::Const(big) } else { WindowMode::Const(*rng.pick(&[mss, 2 * mss + 100, 5 * mss])) };
            total = total.min(60_000);
            // a little loss answered by selective ACKs in a quarter of the cases: holes in front of
            // delivered segments (a size probe among them) while small writes keep coming
            {
                let mut a = Prng::new(case_seed ^ 0x1055_4A6);
                if a.chance(0.25) {
                    policy.sack_capable = true;
                    policy.lose_first = *a.pick(&[0.02, 0.06, 0.15]);
                }
            }
        }
        TxFocus::Buffer => {
            sock.tx_buf_initial = Some(rng.log_range(1, 1 << 20) as usize);
            sock.tx_buf_max = Some(rng.log_range(1, 1 << 20) as usize);
            writer.chunk = (1, *rng.pick(&[64usize, 65536, 2_000_000]));
            writer.pause_prob = 0.0;
            match rng.below(4) {
                0 => policy.silence = Some((rng.range(0, 40) as u32, u64::MAX)),
                1 => policy.ack = AckMode::Delayed(*rng.pick(&[50u64, 200, 900]) * MS),
                2 => policy.window = WindowMode::ZeroThenOpen { open: 20 * mss, after: rng.range(1, 30) as u32, closed_for: rng.range(100, 4000) * MS },
                _ => {}
            }
            if policy.silence.is_some() {
                sock.max_retransmissions = Some(*rng.pick(&[2usize, 5]));
            }
        }
        TxFocus::Mtu => {
            // the peer sends payloads much larger than the local link allows
            let big_payload = *rng.pick(&[1452usize, 2000, 4000, 8952]);
            policy.peer_data = Some((big_payload, rng.range(1, 5) as u32));
            if rng.chance(0.5) {
                policy.lose_first = 0.05;
            }
        }
    }
    writer.total = total.max(1);
    // tiny transmit buffers move one buffer per round trip
    let lim = sock.tx_buf_initial.unwrap_or(32768).max(sock.tx_buf_max.unwrap_or(1 << 20));
    if lim < 2048 {
        writer.total = writer.total.min(lim * 100);
    }
    let long = policy.silence.is_some();
    TxCfg {
        ipv6,
        sock,
        real_initiates: rng.chance(0.5),
        peer_isn: if rng.chance(0.3) { 65535u16.wrapping_sub(rng.below(200) as u16) } else { rng.below(65536) as u16 },
        peer_conn_id: rng.below(65536) as u16,
        writer,
        policy,
        limit: if long { 1500 * SEC } else { 240 * SEC },
        keep_snapshots: false,
    }
}
