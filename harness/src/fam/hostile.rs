//! Hostile datagram source (C10). It can see the wire (the event log) and spoof any source
//! address, so it can aim at a live connection's exact identifiers; it cannot do anything a
//! machine on the path could not do.
use std::{
    collections::{BTreeSet, VecDeque},
    net::SocketAddr,
    sync::Arc,
};

use crate::{
    events::{Ev, Us, MS},
    fam::multi::AttackCfg,
    prng::{mix2, Prng},
    sim::{v4, World},
    wire::{self, Pkt},
};

pub fn attacker_addr() -> SocketAddr {
    v4(31337)
}

/// What an attacker on the path knows: every identifier seen on the wire, and the recent
/// datagrams of the one connection it aims at.
pub struct Recon {
    scan_pos: usize,
    /// (destination socket, source address, connection id) triples in use by anyone
    pub live: BTreeSet<(SocketAddr, SocketAddr, u16)>,
    /// the connection aimed at: (initiator, acceptor); ids learnt from its SYN
    pub target_pair: Option<(SocketAddr, SocketAddr)>,
    pub target_syn_id: Option<u16>,
    /// recent datagrams of the target: (src, dst, packet)
    pub target_pkts: VecDeque<(SocketAddr, SocketAddr, Pkt)>,
}

impl Recon {
    pub fn new(target_pair: Option<(SocketAddr, SocketAddr)>) -> Recon {
        Recon { scan_pos: 0, live: BTreeSet::new(), target_pair, target_syn_id: None, target_pkts: VecDeque::new() }
    }

    fn is_target(&self, src: SocketAddr, dst: SocketAddr, id: u16) -> bool {
        match (self.target_pair, self.target_syn_id) {
            (Some((i, a)), Some(c)) => (src == i && dst == a && (id == c || id == c.wrapping_add(1))) || (src == a && dst == i && id == c),
            _ => false,
        }
    }

    pub fn update(&mut self, world: &World) {
        world.log.with(|evs| {
            for e in &evs[self.scan_pos.min(evs.len())..] {
                if let Ev::Send { src, dst, pkt: Some(p), scripted: false, .. } = &e.ev {
                    if self.target_syn_id.is_none() && p.ty == wire::ST_SYN {
                        if let Some((i, a)) = self.target_pair {
                            if *src == i && *dst == a {
                                self.target_syn_id = Some(p.conn_id);
                            }
                        }
                    }
                    if self.is_target(*src, *dst, p.conn_id) {
                        if p.ty != wire::ST_SYN {
                            self.target_pkts.push_back((*src, *dst, p.clone()));
                            if self.target_pkts.len() > 40 {
                                self.target_pkts.pop_front();
                            }
                        }
                    } else {
                        // the id as it arrives at dst, and its neighbours as they would arrive at src
                        self.live.insert((*dst, *src, p.conn_id));
                        for k in [p.conn_id.wrapping_sub(1), p.conn_id, p.conn_id.wrapping_add(1)] {
                            self.live.insert((*src, *dst, k));
                            self.live.insert((*dst, *src, k));
                        }
                    }
                }
            }
            self.scan_pos = evs.len();
        })
    }

    /// Would this datagram be routed to (or create state next to) a connection other than the
    /// target? Such a datagram is not "aimed at one connection id" and is not sent.
    pub fn touches_bystander(&self, src: SocketAddr, dst: SocketAddr, bytes: &[u8]) -> bool {
        if bytes.len() < 20 {
            return false;
        }
        let id = u16::from_be_bytes([bytes[2], bytes[3]]);
        if self.is_target(src, dst, id) {
            return false;
        }
        let ty = bytes[0] >> 4;
        if ty == wire::ST_SYN && src != attacker_addr() {
            // a spoofed SYN from a real peer creates state answered towards that peer
            return true;
        }
        self.live.contains(&(dst, src, id))
    }
}

pub fn weird_u16(r: &mut Prng, base: u16) -> u16 {
    match r.below(12) {
        0 => base,
        1 => base.wrapping_add(1),
        2 => base.wrapping_sub(1),
        3 => base.wrapping_add(r.range(2, 50) as u16),
        4 => base.wrapping_sub(r.range(2, 50) as u16),
        5 => base.wrapping_add(r.range(50, 2000) as u16),
        6 => base.wrapping_add(32767),
        7 => base.wrapping_add(32768),
        8 => base.wrapping_add(32769),
        9 => 0,
        10 => 0xffff,
        _ => r.next_u64() as u16,
    }
}

pub fn weird_payload(r: &mut Prng) -> Vec<u8> {
    let len = match r.below(10) {
        0 | 1 | 2 => 0,
        3 => 1,
        4 => r.range(2, 200) as usize,
        5 => r.range(200, 1500) as usize,
        6 => 1472 - 20,
        7 => r.range(1500, 9000) as usize,
        8 => 16384 - 20,
        _ => r.range(9000, 20000) as usize,
    };
    let mut v = vec![0u8; len];
    for b in v.iter_mut() {
        *b = r.next_u64() as u8;
    }
    v
}

pub fn weird_exts(r: &mut Prng) -> Vec<(u8, Vec<u8>)> {
    let n = match r.below(8) {
        0..=3 => 0,
        4 | 5 => 1,
        6 => 2,
        _ => r.range(3, 40) as usize,
    };
    (0..n)
        .map(|_| {
            let ty = match r.below(6) {
                0..=2 => 1u8,
                3 => 2,
                4 => 0,
                _ => r.next_u64() as u8,
            };
            let len = match r.below(10) {
                0 => 0,
                1 => 1,
                2 => 3,
                3 | 4 => 4,
                5 => 8,
                6 => 36,
                7 => 252,
                8 => 255,
                _ => r.below(256) as usize,
            };
            let fill = match r.below(3) {
                0 => 0xffu8,
                1 => 0,
                _ => 0xa5,
            };
            let mut d = vec![fill; len];
            if r.chance(0.5) {
                for b in d.iter_mut() {
                    *b = r.next_u64() as u8;
                }
            }
            (ty, d)
        })
        .collect()
}

/// One hostile datagram: (spoofed source, destination, bytes, short description).
pub fn craft(r: &mut Prng, recon: &Recon, sockets: &[SocketAddr]) -> (SocketAddr, SocketAddr, Vec<u8>, &'static str) {
    let seen = &recon.target_pkts;
    let pick_seen = |r: &mut Prng| -> Option<(SocketAddr, SocketAddr, Pkt)> {
        if seen.is_empty() {
            None
        } else {
            Some(seen[r.below(seen.len() as u64) as usize].clone())
        }
    };
    let any_sock = |r: &mut Prng| sockets[r.below(sockets.len() as u64) as usize];
    let other_src = |r: &mut Prng| -> SocketAddr {
        if r.chance(0.5) {
            attacker_addr()
        } else {
            sockets[r.below(sockets.len() as u64) as usize]
        }
    };
    match r.below(12) {
        0 => {
            // pure noise
            let len = if r.chance(0.8) { r.below(64) as usize } else { r.range(64, 3000) as usize };
            let mut v = vec![0u8; len];
            for b in v.iter_mut() {
                *b = r.next_u64() as u8;
            }
            (other_src(r), any_sock(r), v, "noise")
        }
        1 => {
            // a valid datagram cut short
            if let Some((src, dst, p)) = pick_seen(r) {
                let mut b = p.encode();
                let cut = r.below(b.len() as u64 + 1) as usize;
                b.truncate(cut);
                (src, dst, b, "truncated")
            } else {
                (other_src(r), any_sock(r), vec![0x21; r.below(20) as usize], "truncated")
            }
        }
        2 => {
            // bad version / type nibble on live identifiers
            if let Some((src, dst, p)) = pick_seen(r) {
                let mut b = p.encode();
                b[0] = r.next_u64() as u8;
                (src, dst, b, "bad-type-or-version")
            } else {
                let mut b = Pkt::new(wire::ST_DATA, r.next_u64() as u16, 1, 0, 1000).encode();
                b[0] = r.next_u64() as u8;
                (attacker_addr(), any_sock(r), b, "bad-type-or-version")
            }
        }
        3 => {
            // extension chain chaos with raw bytes (lengths that lie)
            let (src, dst, mut p) = pick_seen(r).unwrap_or_else(|| (attacker_addr(), any_sock(r), Pkt::new(wire::ST_STATE, r.next_u64() as u16, 1, 0, 1000)));
            p.exts.clear();
            p.payload.clear();
            let mut b = p.encode();
            b[1] = *r.pick(&[1u8, 1, 2, 3, 0xff]);
            let n = r.range(1, 60) as usize;
            for _ in 0..n {
                b.push(r.next_u64() as u8);
            }
            (src, dst, b, "ext-chain-raw")
        }
        4..=9 => {
            // aimed: live identifiers with absurd but well-formed fields
            if let Some((src, dst, p)) = pick_seen(r) {
                let mut q = p.clone();
                q.ty = *r.pick(&[wire::ST_DATA, wire::ST_DATA, wire::ST_STATE, wire::ST_STATE, wire::ST_FIN, wire::ST_RESET, wire::ST_SYN]);
                q.seq = weird_u16(r, p.seq);
                q.ack = weird_u16(r, p.ack);
                let rnd = r.next_u64() as u32;
                q.wnd = *r.pick(&[p.wnd, p.wnd, 0, 1, 0xffff_ffff, 0x7fff_ffff, rnd]);
                q.ts = r.next_u64() as u32;
                let rnd = r.next_u64() as u32;
                q.ts_diff = *r.pick(&[0u32, 1, 0xffff_ffff, rnd]);
                q.exts = weird_exts(r);
                q.payload = if q.ty == wire::ST_DATA || r.chance(0.3) { weird_payload(r) } else { Vec::new() };
                (src, dst, q.encode(), "aimed")
            } else {
                let p = Pkt::new(wire::ST_STATE, r.next_u64() as u16, r.next_u64() as u16, r.next_u64() as u16, 0);
                (attacker_addr(), any_sock(r), p.encode(), "aimed-blind")
            }
        }
        10 => {
            // unknown connection id / unknown peer, every type
            let mut p = Pkt::new(
                *r.pick(&[wire::ST_DATA, wire::ST_STATE, wire::ST_FIN, wire::ST_RESET, wire::ST_SYN]),
                r.next_u64() as u16,
                r.next_u64() as u16,
                r.next_u64() as u16,
                r.next_u64() as u32,
            );
            p.exts = weird_exts(r);
            p.payload = weird_payload(r);
            let src = if p.ty == wire::ST_SYN { attacker_addr() } else { other_src(r) };
            (src, any_sock(r), p.encode(), "unknown-id")
        }
        _ => {
            // replay of something seen earlier, verbatim
            if let Some((src, dst, p)) = pick_seen(r) {
                (src, dst, p.encode(), "replay")
            } else {
                (attacker_addr(), any_sock(r), Vec::new(), "empty")
            }
        }
    }
}

pub async fn attacker(world: Arc<World>, sockets: Vec<SocketAddr>, target_pair: Option<(SocketAddr, SocketAddr)>, att: AttackCfg, case_seed: u64) {
    let mut r = Prng::new(mix2(case_seed, 0xA77AC));
    world.net.register(attacker_addr());
    world.sleep_us(att.start).await;
    let mut recon = Recon::new(target_pair);
    let mut kinds: std::collections::BTreeMap<&'static str, u32> = Default::default();
    let mut syns = 0;
    let mut sent = 0;
    let mut skipped = 0;
    while sent < att.count && skipped < att.count * 4 {
        recon.update(&world);
        let (src, dst, bytes, kind) = craft(&mut r, &recon, &sockets);
        if src == dst || recon.touches_bystander(src, dst, &bytes) {
            skipped += 1;
            continue;
        }
        if bytes.len() >= 20 && bytes[0] == ((wire::ST_SYN << 4) | 1) && !recon.is_target(src, dst, u16::from_be_bytes([bytes[2], bytes[3]])) {
            // a handful of foreign SYNs only: a SYN flood is not "aimed at one connection id"
            syns += 1;
            if syns > att.max_foreign_syns {
                skipped += 1;
                continue;
            }
        }
        *kinds.entry(kind).or_default() += 1;
        sent += 1;
        let _ = world.net.send(None, src, dst, bytes, true);
        let gap: Us = if att.gap == 0 { 0 } else { r.below(att.gap / MS + 1) * MS };
        if gap > 0 {
            world.sleep_us(gap).await;
        } else if r.chance(0.2) {
            world.step().await;
        }
    }
    world.log.note(format!("attack done: sent={sent} skipped={skipped} target_id={:?} kinds={:?}", recon.target_syn_id, kinds));
}
