//! `lifecycle` family (C08): a subject socket with a small connection limit goes through rounds.
//! In every round it opens as many connections as the limit allows (connecting and accepting),
//! moves some bytes, and ends each connection in a generated way - graceful close, both halves
//! dropped mid-transfer, shutdown while the peer idles, peer dropping first, an injected RESET,
//! the network cut, the peer socket cancelled. After the bounded wait every slot must be free
//! again (the next round needs all of them). The last step may cancel the subject's token with
//! connections still open.
use std::{
    collections::BTreeMap,
    net::SocketAddr,
    sync::{atomic::Ordering, Arc},
    time::Duration,
};

use librqbit_utp::{UtpStreamReadHalf, UtpStreamWriteHalf};
use parking_lot::Mutex;

use crate::{
    app::{api_drop_reader, api_drop_writer, api_read, api_shutdown, api_write, gen_check, gen_vec, stream_key, ApiCtx},
    events::{ApiOp, Ev, Us, MS, SEC},
    fam::multi::{parse_token, token, TOKEN_LEN},
    prng::{mix2, Prng},
    sim::{run_case, v4, CaseRun, FaultPlan, SimSocket, SockCfg, World},
    wire::{self, Pkt},
};

#[derive(Clone, Copy, Debug, PartialEq)]
pub enum EndHow {
    /// subject shuts down after everything was exchanged, peer reads EOF, all halves dropped
    Graceful,
    /// subject writes more and drops both halves at once; the peer reads to the end, then drops
    DropMid,
    /// subject shuts down and drops; the peer application sits on its halves for a while
    ShutdownPeerIdle,
    /// the peer drops both halves mid-transfer; the subject writes until it fails or is done
    PeerDropsMid,
    /// a RESET with the connection's identifiers arrives at the subject
    Reset,
    /// subject drops its halves while the peer has stopped reading with data still coming
    DropWhilePeerStalled,
}

#[derive(Clone, Copy, Debug, PartialEq)]
pub enum RoundFault {
    None,
    /// nothing gets through between the two sockets from mid-round until the round's wait is over
    Cut,
    /// only the direction peer -> subject is cut
    CutToSubject,
    /// only the direction subject -> peer is cut
    CutFromSubject,
}

#[derive(Clone, Debug)]
pub struct RoundCfg {
    /// per connection: (subject connects?, bytes subject->peer, bytes peer->subject, ending)
    pub conns: Vec<(bool, usize, usize, EndHow)>,
    pub fault: RoundFault,
}

#[derive(Clone, Debug)]
pub struct LifeCfg {
    pub subject: SockCfg,
    pub peer: SockCfg,
    pub limit: usize,
    pub rounds: Vec<RoundCfg>,
    /// how long the harness waits after the last let-go of a round before it expects every slot free
    pub bound: Us,
    /// cancel the subject's token at the end with this many connections held open
    pub cancel_with_open: Option<usize>,
    pub keep_snapshots: bool,
    /// accept calls of the subject that are polled once and dropped: (before the accept loops
    /// start, at the start of every round). Their requests stay queued in the dispatcher until a
    /// SYN meets them.
    pub abandoned_accepts: (usize, usize),
    /// rounds (by index) that begin with a burst of concurrent connects from the subject, more
    /// than its connection limit allows (at most 4: the per-address cap on connects in progress);
    /// whatever comes up is closed gracefully at once and the harness waits out the bound
    pub bursts: Vec<usize>,
}

impl LifeCfg {
    pub fn describe(&self) -> String {
        format!(
            "subject[{}] peer[{}] limit={} bound={}s rounds={:?} cancel_with_open={:?} abandoned_accepts={:?} bursts={:?}",
            self.subject.describe(),
            self.peer.describe(),
            self.limit,
            self.bound / SEC,
            self.rounds,
            self.cancel_with_open,
            self.abandoned_accepts,
            self.bursts
        )
    }
}

pub const SUBJECT_PORT: u16 = 9009;
pub const PEER_PORT: u16 = 9119;

pub fn subject_addr() -> SocketAddr {
    v4(SUBJECT_PORT)
}
pub fn peer_addr() -> SocketAddr {
    v4(PEER_PORT)
}

type Halves = (UtpStreamReadHalf, UtpStreamWriteHalf);
type Accepted = Arc<Mutex<BTreeMap<u32, Halves>>>;

#[derive(Default)]
pub struct LifeOutcome {
    /// connections (global numbering) that were established on both sides
    pub established: Vec<u32>,
    /// connections the harness expected to open but could not: (conn, what happened)
    pub failed_to_open: Vec<(u32, String)>,
    /// (round, time the bounded wait of that round was over)
    pub round_done: Vec<(usize, Us)>,
    pub cancelled_at: Option<Us>,
    /// after cancel: results of one more operation on every held half / the socket
    pub after_cancel: Vec<(String, Result<String, String>)>,
    pub ended_at: Us,
}

async fn accept_loop(world: Arc<World>, sock: Arc<SimSocket>, side: u8, case_seed: u64, accepted: Accepted) {
    let mut k = 0u32;
    loop {
        let tmp = 2_000_000 + side as u32 * 100_000 + k;
        k += 1;
        world.log.api(tmp, side, ApiOp::AcceptCall);
        let r = sock.accept().await;
        world.log.api(tmp, side, ApiOp::AcceptRet(r.as_ref().map(|s| s.remote_addr()).map_err(|e| e.to_string())));
        let stream = match r {
            Ok(s) => s,
            Err(_) => return,
        };
        let w2 = world.clone();
        let acc = accepted.clone();
        tokio::spawn(async move {
            let (mut rd, wr) = stream.split();
            let ctx = ApiCtx { log: w2.log.clone(), conn: tmp, side };
            let mut tok = [0u8; TOKEN_LEN];
            let mut got = 0;
            while got < TOKEN_LEN {
                match tokio::time::timeout(Duration::from_secs(20), api_read(&ctx, &mut rd, &mut tok[got..])).await {
                    Ok(Ok(n)) if n > 0 => got += n,
                    _ => {
                        w2.log.note(format!("accepted stream {tmp} ended before its token was complete"));
                        api_drop_writer(&ctx, wr);
                        api_drop_reader(&ctx, rd);
                        return;
                    }
                }
            }
            match parse_token(case_seed, &tok) {
                Some(conn) => {
                    w2.log.note(format!("accepted stream {tmp} is conn {conn}"));
                    acc.lock().insert(conn, (rd, wr));
                }
                None => {
                    w2.log.note(format!("accepted stream {tmp} delivered a corrupt token"));
                    api_drop_writer(&ctx, wr);
                    api_drop_reader(&ctx, rd);
                }
            }
        });
    }
}

/// Open connection `conn`; returns (subject halves, peer halves).
async fn open(world: &Arc<World>, subj: &Arc<SimSocket>, peer: &Arc<SimSocket>, subject_connects: bool, case_seed: u64, conn: u32, acc_subject: &Accepted, acc_peer: &Accepted) -> Result<(Halves, Halves), String> {
    let (csock, cside, to, acc) = if subject_connects { (subj, 0u8, peer_addr(), acc_peer) } else { (peer, 1u8, subject_addr(), acc_subject) };
    world.log.api(conn, cside, ApiOp::ConnectCall);
    let r = tokio::time::timeout(Duration::from_secs(10), csock.connect(to)).await;
    let r = match r {
        Ok(r) => r.map_err(|e| e.to_string()),
        Err(_) => {
            world.log.api(conn, cside, ApiOp::Cancelled("connect"));
            Err("harness: connect timed out and was abandoned".into())
        }
    };
    world.log.api(conn, cside, ApiOp::ConnectRet(r.as_ref().map(|_| ()).map_err(|e| e.clone())));
    let stream = r?;
    let (crd, mut cwr) = stream.split();
    let ctx = ApiCtx { log: world.log.clone(), conn, side: cside };
    let tok = token(case_seed, conn);
    let mut done = 0;
    while done < TOKEN_LEN {
        match api_write(&ctx, &mut cwr, &tok[done..]).await {
            Ok(n) if n > 0 => done += n,
            _ => {
                api_drop_writer(&ctx, cwr);
                api_drop_reader(&ctx, crd);
                return Err("token write failed".into());
            }
        }
    }
    // wait for the accepting side to identify it
    let t0 = world.now();
    loop {
        if let Some(h) = acc.lock().remove(&conn) {
            world.log.note(format!("conn {conn} open"));
            return Ok(if subject_connects { ((crd, cwr), h) } else { (h, (crd, cwr)) });
        }
        if world.now() - t0 > 10 * SEC {
            api_drop_writer(&ctx, cwr);
            api_drop_reader(&ctx, crd);
            return Err("connected but never accepted".into());
        }
        world.sleep_us(5 * MS).await;
    }
}

async fn write_all(ctx: &ApiCtx, w: &mut UtpStreamWriteHalf, key: u64, off: &mut u64, n: usize, limit: Duration) -> Result<(), String> {
    let buf = gen_vec(key, *off, n);
    let mut done = 0;
    let fut = async {
        while done < n {
            match api_write(ctx, w, &buf[done..]).await {
                Ok(0) => return Err("write returned 0".to_string()),
                Ok(k) => done += k,
                Err(e) => return Err(e.to_string()),
            }
        }
        Ok(())
    };
    let r = match tokio::time::timeout(limit, fut).await {
        Ok(r) => r,
        Err(_) => Err("harness: write abandoned".into()),
    };
    *off += done as u64;
    r
}

/// Read up to `n` bytes (or to EOF / error); returns bytes read and how it ended.
async fn read_n(world: &World, ctx: &ApiCtx, r: &mut UtpStreamReadHalf, key: u64, off: &mut u64, n: usize, limit: Duration) -> Result<bool, String> {
    let mut buf = vec![0u8; 4096];
    let mut got = 0usize;
    let fut = async {
        while got < n {
            let want = buf.len().min(n - got);
            match api_read(ctx, r, &mut buf[..want]).await {
                Ok(0) => return Ok(true),
                Ok(k) => {
                    if gen_check(key, *off + got as u64, &buf[..k]).is_some() {
                        world.log.note(format!("MISMATCH conn={} side={} offset={}", ctx.conn, ctx.side, *off + got as u64));
                    }
                    got += k;
                }
                Err(e) => return Err(e.to_string()),
            }
        }
        Ok(false)
    };
    let r = match tokio::time::timeout(limit, fut).await {
        Ok(r) => r,
        Err(_) => Err("harness: read abandoned".into()),
    };
    *off += got as u64;
    r
}

/// Connection ids of `conn` as seen on the wire: (initiator address, id carried by the SYN).
pub fn ids_of(events: &[crate::events::Event], case_seed: u64, conn: u32) -> Option<(SocketAddr, u16)> {
    let tok = token(case_seed, conn);
    for e in events {
        if let Ev::Send { src, pkt: Some(p), scripted: false, .. } = &e.ev {
            if p.ty == wire::ST_DATA && p.payload.len() >= TOKEN_LEN && p.payload[..TOKEN_LEN] == tok {
                // the initiator sends with id c+1
                return Some((*src, p.conn_id.wrapping_sub(1)));
            }
        }
    }
    None
}

struct Live {
    conn: u32,
    s: Halves,
    p: Halves,
    how: EndHow,
    s2p: usize,
    p2s: usize,
}

async fn drive(world: Arc<World>, case_seed: u64, l: Live, cut_soon: bool) {
    let Live { conn, s: (mut srd, mut swr), p: (mut prd, mut pwr), how, s2p, p2s } = l;
    let sc = ApiCtx { log: world.log.clone(), conn, side: 0 };
    let pc = ApiCtx { log: world.log.clone(), conn, side: 1 };
    let (ks, kp) = (stream_key(case_seed, conn, 0), stream_key(case_seed, conn, 1));
    // the token was the first 16 bytes of the connector's stream; generator streams start after it
    let (mut so, mut po, mut sro, mut pro) = (0u64, 0u64, 0u64, 0u64);
    let lim = Duration::from_secs(20);
    // exchange: subject -> peer, then peer -> subject
    let _ = write_all(&sc, &mut swr, ks, &mut so, s2p, lim).await;
    let _ = read_n(&world, &pc, &mut prd, ks, &mut pro, s2p, lim).await;
    let _ = write_all(&pc, &mut pwr, kp, &mut po, p2s, lim).await;
    let _ = read_n(&world, &sc, &mut srd, kp, &mut sro, p2s, lim).await;
    let _ = cut_soon;
    match how {
        EndHow::Graceful => {
            let _ = tokio::time::timeout(Duration::from_secs(60), api_shutdown(&sc, &mut swr)).await;
            let _ = read_n(&world, &pc, &mut prd, ks, &mut pro, usize::MAX, Duration::from_secs(60)).await;
            api_drop_writer(&sc, swr);
            api_drop_reader(&sc, srd);
            api_drop_writer(&pc, pwr);
            api_drop_reader(&pc, prd);
        }
        EndHow::DropMid => {
            let _ = write_all(&sc, &mut swr, ks, &mut so, 5000, Duration::from_millis(50)).await;
            api_drop_writer(&sc, swr);
            api_drop_reader(&sc, srd);
            let _ = read_n(&world, &pc, &mut prd, ks, &mut pro, usize::MAX, Duration::from_secs(60)).await;
            api_drop_writer(&pc, pwr);
            api_drop_reader(&pc, prd);
        }
        EndHow::ShutdownPeerIdle => {
            let _ = tokio::time::timeout(Duration::from_secs(60), api_shutdown(&sc, &mut swr)).await;
            api_drop_writer(&sc, swr);
            api_drop_reader(&sc, srd);
            world.sleep_us(25 * SEC).await;
            api_drop_writer(&pc, pwr);
            api_drop_reader(&pc, prd);
        }
        EndHow::PeerDropsMid => {
            let _ = write_all(&pc, &mut pwr, kp, &mut po, 3000, Duration::from_millis(50)).await;
            api_drop_writer(&pc, pwr);
            api_drop_reader(&pc, prd);
            // the subject keeps writing until the connection tells it to stop
            for _ in 0..40 {
                if write_all(&sc, &mut swr, ks, &mut so, 2000, Duration::from_secs(5)).await.is_err() {
                    break;
                }
                world.sleep_us(100 * MS).await;
            }
            let _ = read_n(&world, &sc, &mut srd, kp, &mut sro, usize::MAX, Duration::from_secs(30)).await;
            api_drop_writer(&sc, swr);
            api_drop_reader(&sc, srd);
        }
        EndHow::Reset => {
            let ids = world.log.with(|evs| ids_of(evs, case_seed, conn));
            if let Some((init, c)) = ids {
                // the subject receives on c if it initiated, on c+1 otherwise
                let id = if init == subject_addr() { c } else { c.wrapping_add(1) };
                let p = Pkt::new(wire::ST_RESET, id, 0, 0, 0);
                world.log.note(format!("injecting RESET for conn {conn} (subject recv id {id})"));
                let _ = world.net.send(None, peer_addr(), subject_addr(), p.encode(), true);
            }
            // the subject's application notices on its next operation and lets go
            let _ = read_n(&world, &sc, &mut srd, kp, &mut sro, usize::MAX, Duration::from_secs(30)).await;
            api_drop_writer(&sc, swr);
            api_drop_reader(&sc, srd);
            world.sleep_us(SEC).await;
            api_drop_writer(&pc, pwr);
            api_drop_reader(&pc, prd);
        }
        EndHow::DropWhilePeerStalled => {
            // fill the pipe towards a peer that does not read, then let go
            let _ = write_all(&sc, &mut swr, ks, &mut so, 200_000, Duration::from_millis(300)).await;
            api_drop_writer(&sc, swr);
            api_drop_reader(&sc, srd);
            world.sleep_us(20 * SEC).await;
            let _ = read_n(&world, &pc, &mut prd, ks, &mut pro, usize::MAX, Duration::from_secs(60)).await;
            api_drop_writer(&pc, pwr);
            api_drop_reader(&pc, prd);
        }
    }
    world.log.note(format!("conn {conn} driver done"));
}

/// `n` accept calls that are polled once (the request reaches the dispatcher's channel) and then
/// dropped, all before the dispatcher task runs again.
async fn abandon_accepts(world: &Arc<World>, sock: &Arc<SimSocket>, n: usize, counter: &mut u32) {
    for _ in 0..n {
        let id = 5_500_000 + *counter;
        *counter += 1;
        world.log.api(id, 0, ApiOp::AcceptCall);
        tokio::select! {
            biased;
            r = sock.accept() => {
                world.log.api(id, 0, ApiOp::AcceptRet(r.as_ref().map(|s| s.remote_addr()).map_err(|e| e.to_string())));
                world.log.note("an accept that was meant to be abandoned completed");
                continue;
            }
            _ = std::future::ready(()) => {}
        }
        world.log.api(id, 0, ApiOp::Cancelled("accept"));
    }
}

pub async fn life_scenario(world: Arc<World>, cfg: LifeCfg, case_seed: u64) -> LifeOutcome {
    world.log.keep_tables.store(true, Ordering::Relaxed);
    let mut out = LifeOutcome::default();
    let subj = world.socket(subject_addr(), &cfg.subject);
    let peer = world.socket(peer_addr(), &cfg.peer);
    let acc_s: Accepted = Arc::new(Mutex::new(BTreeMap::new()));
    let acc_p: Accepted = Arc::new(Mutex::new(BTreeMap::new()));
    let mut bg = Vec::new();
    let mut abandoned = 0u32;
    abandon_accepts(&world, &subj.sock, cfg.abandoned_accepts.0, &mut abandoned).await;
    for _ in 0..2 {
        bg.push(tokio::spawn(accept_loop(world.clone(), subj.sock.clone(), 0, case_seed, acc_s.clone())));
        bg.push(tokio::spawn(accept_loop(world.clone(), peer.sock.clone(), 1, case_seed, acc_p.clone())));
    }
    let mut next_conn = 0u32;
    for (ri, round) in cfg.rounds.iter().enumerate() {
        world.log.note(format!("round {ri} starts"));
        abandon_accepts(&world, &subj.sock, cfg.abandoned_accepts.1, &mut abandoned).await;
        if cfg.bursts.contains(&ri) && cfg.limit < 4 {
            let n = (cfg.limit + 2).min(4);
            world.log.note(format!("round {ri}: burst of {n} concurrent connects (limit {})", cfg.limit));
            let mut hs = Vec::new();
            for k in 0..n {
                let (w2, s2, p2, a_s, a_p) = (world.clone(), subj.sock.clone(), peer.sock.clone(), acc_s.clone(), acc_p.clone());
                let conn = 7_000_000 + (ri as u32) * 10 + k as u32;
                hs.push(tokio::spawn(async move { (conn, open(&w2, &s2, &p2, true, case_seed, conn, &a_s, &a_p).await) }));
            }
            let mut up = 0;
            for h in hs {
                if let Ok((conn, Ok((s, p)))) = h.await {
                    up += 1;
                    let (sc, pc) = (ApiCtx { log: world.log.clone(), conn, side: 0 }, ApiCtx { log: world.log.clone(), conn, side: 1 });
                    api_drop_writer(&sc, s.1);
                    api_drop_reader(&sc, s.0);
                    api_drop_writer(&pc, p.1);
                    api_drop_reader(&pc, p.0);
                }
            }
            world.log.note(format!("round {ri}: burst over, {up} of {n} came up"));
            world.sleep_us(cfg.bound).await;
        }
        let mut lives = Vec::new();
        for (subject_connects, s2p, p2s, how) in &round.conns {
            let conn = next_conn;
            next_conn += 1;
            match open(&world, &subj.sock, &peer.sock, *subject_connects, case_seed, conn, &acc_s, &acc_p).await {
                Ok((s, p)) => {
                    out.established.push(conn);
                    lives.push(Live { conn, s, p, how: *how, s2p: *s2p, p2s: *p2s });
                }
                Err(e) => out.failed_to_open.push((conn, e)),
            }
        }
        let mut tasks = Vec::new();
        for l in lives {
            tasks.push(tokio::spawn(drive(world.clone(), case_seed, l, round.fault != RoundFault::None)));
        }
        if round.fault != RoundFault::None {
            // mid-round: somewhere inside the exchanges
            let at = Prng::new(mix2(case_seed, ri as u64 ^ 0xC07)).range(1, 400) * MS;
            world.sleep_us(at).await;
            let (sa, pa) = (subject_addr(), peer_addr());
            let f = round.fault;
            world.log.note(format!("round {ri}: network fault {:?} begins", f));
            world.net.with_plan(|p| {
                p.filter = Some(Box::new(move |ctx, _| {
                    let s2p = ctx.src == sa && ctx.dst == pa;
                    let p2s = ctx.src == pa && ctx.dst == sa;
                    let hit = match f {
                        RoundFault::Cut => s2p || p2s,
                        RoundFault::CutToSubject => p2s,
                        RoundFault::CutFromSubject => s2p,
                        RoundFault::None => false,
                    };
                    if hit {
                        Some(crate::events::Fate::Drop("cut"))
                    } else {
                        None
                    }
                }));
            });
        }
        for t in tasks {
            let _ = tokio::time::timeout(Duration::from_secs(400), t).await;
        }
        world.log.note(format!("round {ri}: every application half released"));
        world.sleep_us(cfg.bound).await;
        if round.fault != RoundFault::None {
            world.net.with_plan(|p| p.filter = None);
            world.log.note(format!("round {ri}: network healed"));
            // leftovers on the peer side (its own retransmissions into the void) get their time too
            world.sleep_us(cfg.bound).await;
        }
        world.log.note(format!("round {ri} done"));
        out.round_done.push((ri, world.now()));
    }
    // final boundary check: all `limit` slots are usable again
    world.log.note("final round starts");
    let mut held = Vec::new();
    for i in 0..cfg.limit {
        let conn = next_conn;
        next_conn += 1;
        match open(&world, &subj.sock, &peer.sock, i % 2 == 0, case_seed, conn, &acc_s, &acc_p).await {
            Ok(h) => {
                out.established.push(conn);
                held.push((conn, h));
            }
            Err(e) => out.failed_to_open.push((conn, e)),
        }
    }
    world.log.note("final round opened");
    if let Some(n_open) = cfg.cancel_with_open {
        // close all but n_open gracefully, then cancel
        while held.len() > n_open {
            let (conn, ((srd, mut swr), (mut prd, pwr))) = held.pop().unwrap();
            let sc = ApiCtx { log: world.log.clone(), conn, side: 0 };
            let pc = ApiCtx { log: world.log.clone(), conn, side: 1 };
            let _ = tokio::time::timeout(Duration::from_secs(30), api_shutdown(&sc, &mut swr)).await;
            let mut o = 0;
            let _ = read_n(&world, &pc, &mut prd, 0, &mut o, usize::MAX, Duration::from_secs(30)).await;
            api_drop_writer(&sc, swr);
            api_drop_reader(&sc, srd);
            api_drop_writer(&pc, pwr);
            api_drop_reader(&pc, prd);
        }
        // put something in flight on the held ones
        for (conn, ((_, swr), _)) in held.iter_mut() {
            let sc = ApiCtx { log: world.log.clone(), conn: *conn, side: 0 };
            let mut o = 0;
            let _ = write_all(&sc, swr, stream_key(case_seed, *conn, 0), &mut o, 3000, Duration::from_millis(5)).await;
        }
        world.step().await;
        world.log.note("cancelling the subject's token");
        out.cancelled_at = Some(world.now());
        subj.token.cancel();
        world.step().await;
        world.step().await;
        world.log.note("cancel: two steps later");
        for (conn, ((mut srd, mut swr), (prd, pwr))) in held.drain(..) {
            let sc = ApiCtx { log: world.log.clone(), conn, side: 0 };
            let mut b = [0u8; 64];
            // drain whatever was already delivered, then the error must surface
            let mut r = Ok(0);
            for _ in 0..2000 {
                r = match tokio::time::timeout(Duration::from_secs(5), api_read(&sc, &mut srd, &mut b)).await {
                    Ok(r) => r.map_err(|e| e.to_string()),
                    Err(_) => Err("harness: read after cancel did not return within 5 s".into()),
                };
                if !matches!(r, Ok(n) if n > 0) {
                    break;
                }
            }
            out.after_cancel.push((format!("conn {conn} read"), r.map(|n| format!("{n}"))));
            let w = match tokio::time::timeout(Duration::from_secs(5), api_write(&sc, &mut swr, &[1u8; 100])).await {
                Ok(r) => r.map_err(|e| e.to_string()),
                Err(_) => Err("harness: write after cancel did not return within 5 s".into()),
            };
            out.after_cancel.push((format!("conn {conn} write"), w.map(|n| format!("{n}"))));
            api_drop_writer(&sc, swr);
            api_drop_reader(&sc, srd);
            let pc = ApiCtx { log: world.log.clone(), conn, side: 1 };
            api_drop_writer(&pc, pwr);
            api_drop_reader(&pc, prd);
        }
        let a = match tokio::time::timeout(Duration::from_secs(5), subj.sock.accept()).await {
            Ok(r) => r.map(|_| "a stream".to_string()).map_err(|e| e.to_string()),
            Err(_) => Err("harness: accept after cancel did not return within 5 s".into()),
        };
        out.after_cancel.push(("accept".into(), a));
        let c = match tokio::time::timeout(Duration::from_secs(5), subj.sock.connect(peer_addr())).await {
            Ok(r) => r.map(|_| "a stream".to_string()).map_err(|e| e.to_string()),
            Err(_) => Err("harness: connect after cancel did not return within 5 s".into()),
        };
        out.after_cancel.push(("connect".into(), c));
        world.sleep_us(cfg.bound).await;
    } else {
        for (conn, ((srd, mut swr), (mut prd, pwr))) in held.drain(..) {
            let sc = ApiCtx { log: world.log.clone(), conn, side: 0 };
            let pc = ApiCtx { log: world.log.clone(), conn, side: 1 };
            let _ = tokio::time::timeout(Duration::from_secs(30), api_shutdown(&sc, &mut swr)).await;
            let mut o = 0;
            let _ = read_n(&world, &pc, &mut prd, 0, &mut o, usize::MAX, Duration::from_secs(30)).await;
            api_drop_writer(&sc, swr);
            api_drop_reader(&sc, srd);
            api_drop_writer(&pc, pwr);
            api_drop_reader(&pc, prd);
        }
        world.log.note("final round: every application half released");
        world.sleep_us(cfg.bound).await;
    }
    world.log.note("final wait over");
    for b in bg {
        b.abort();
    }
    out.ended_at = world.now();
    drop(subj);
    drop(peer);
    out
}

pub fn generate(case_seed: u64) -> (LifeCfg, FaultPlan, String) {
    let mut r = Prng::new(mix2(case_seed, 0x11FE));
    let limit = r.range(1, 4) as usize;
    let inact = *r.pick(&[3u64, 5, 10]);
    let mut subject = SockCfg::default();
    subject.max_live_vsocks = Some(limit);
    subject.remote_inactivity_timeout = Some(Duration::from_secs(inact));
    subject.dont_wait_for_lastack = r.chance(0.3);
    if r.chance(0.3) {
        subject.max_retransmissions = Some(*r.pick(&[2usize, 3, 7]));
    }
    if r.chance(0.5) {
        subject.link_mtu = Some(576);
    }
    let mut peer = SockCfg::default();
    peer.remote_inactivity_timeout = Some(Duration::from_secs(*r.pick(&[3u64, 5, 10])));
    peer.dont_wait_for_lastack = r.chance(0.3);
    if r.chance(0.3) {
        peer.rx_buf = Some(*r.pick(&[3000usize, 20_000]));
    }
    let n_rounds = r.range(1, 3) as usize;
    let mut rounds = Vec::new();
    for _ in 0..n_rounds {
        let fault = match r.below(10) {
            0 | 1 => RoundFault::Cut,
            2 => RoundFault::CutToSubject,
            3 => RoundFault::CutFromSubject,
            _ => RoundFault::None,
        };
        let conns = (0..limit)
            .map(|_| {
                let how = *r.pick(&[EndHow::Graceful, EndHow::DropMid, EndHow::ShutdownPeerIdle, EndHow::PeerDropsMid, EndHow::Reset, EndHow::DropWhilePeerStalled]);
                (r.chance(0.5), r.log_range(1, 12_000) as usize, r.log_range(1, 12_000) as usize, how)
            })
            .collect();
        rounds.push(RoundCfg { conns, fault });
    }
    let lat_lo = r.range(1, 20) * MS;
    let lat_hi = lat_lo + r.range(0, 20) * MS;
    let mut plan = FaultPlan::perfect(mix2(case_seed, 0xFA18)).with_latency(lat_lo, lat_hi);
    let mut desc = format!("latency {}..{}ms", lat_lo / MS, lat_hi / MS);
    if r.chance(0.4) {
        plan.loss = *r.pick(&[0.01, 0.05, 0.15]);
        plan.protect_handshake = true;
        desc += &format!(" loss {}", plan.loss);
    }
    if r.chance(0.3) {
        plan.dup = 0.03;
        plan.reorder = 0.1;
        plan.reorder_extra = 40 * MS;
        desc += " dup 0.03 reorder 0.1";
    }
    let cfg = LifeCfg {
        subject,
        peer,
        limit,
        rounds,
        // inactivity limit + retransmission back-off of the last packets (5 doublings of at most
        // a few seconds) + generous slack; virtual time is free
        bound: (inact + 150) * SEC,
        cancel_with_open: if r.chance(0.5) { Some(r.range(0, limit as u64) as usize) } else { None },
        bursts: {
            let mut a = Prng::new(case_seed ^ 0xB025_7);
            if a.chance(0.3) {
                vec![a.below(3) as usize]
            } else {
                Vec::new()
            }
        },
        abandoned_accepts: {
            let mut a = Prng::new(case_seed ^ 0xABA2_D0);
            if a.chance(0.35) {
                (a.range(0, 3) as usize, a.range(0, 2) as usize)
            } else {
                (0, 0)
            }
        },
        keep_snapshots: false,
    };
    (cfg, plan, desc)
}

pub fn run_life(case_seed: u64, cfg: &LifeCfg, plan: FaultPlan) -> CaseRun<LifeOutcome> {
    let cfg2 = cfg.clone();
    run_case(case_seed, Duration::from_secs(20_000), cfg.keep_snapshots, plan, move |w| life_scenario(w, cfg2, case_seed))
}
