//! `accept` family (C13): one listening socket, real connectors (token + echo) on several client
//! sockets, raw SYN sources, and accept calls that arrive late, concurrently, get cancelled, or
//! wait for a free slot. Four generated shapes:
//!  * Order    - SYNs queue up before / between accept calls; duplicates of SYNs on the wire;
//!  * Backlog  - 25..50 SYNs with nobody accepting, then a sequential acceptor drains the queue;
//!  * Abandon  - accept futures and connect futures dropped mid-call, then ordinary traffic;
//!  * Limit    - max_live_vsocks connections held, one more SYN and a waiting accept, then a slot
//!               is released.
use std::{
    collections::BTreeMap,
    net::SocketAddr,
    sync::{atomic::Ordering, Arc},
    time::Duration,
};

use parking_lot::Mutex;

use crate::{
    app::{api_drop_reader, api_drop_writer, api_read, api_write, ApiCtx},
    events::{ApiOp, Fate, Us, MS, SEC},
    fam::multi::{parse_token, token, TOKEN_LEN},
    prng::{mix2, Prng},
    sim::{run_case, v4, CaseRun, FaultPlan, SimSocket, SockCfg, World},
    wire::{self, Pkt},
};

#[derive(Clone, Copy, Debug, PartialEq)]
pub enum Shape {
    Order,
    Backlog,
    Abandon,
    Limit,
}

#[derive(Clone, Debug)]
pub struct AcceptCfg {
    pub shape: Shape,
    pub listener: SockCfg,
    pub n_clients: usize,
    /// real connects: (time, client index); numbered in this order
    pub connects: Vec<(Us, usize)>,
    /// raw SYNs: (time, source port, connection id, sequence number, copies)
    pub raw_syns: Vec<(Us, u16, u16, u16, u8)>,
    /// when accepting starts, how many accept loops, pause between a loop's accepts
    pub accept_start: Us,
    pub acceptors: usize,
    pub accept_pause: (Us, Us),
    /// Abandon: accept futures created and dropped at this time
    pub cancelled_accepts: Option<(Us, usize)>,
    /// accept calls polled once (the request reaches the dispatcher's channel) and dropped before
    /// the dispatcher runs: (time, how many). The dispatcher then meets acceptors nobody waits on.
    pub instant_abandons: Option<(Us, usize)>,
    /// Abandon: (time, client, how many) connects whose SYNs the network eats; dropped 100 ms later
    pub hanging_connects: Option<(Us, usize, usize)>,
    /// Limit: connections held open; which one is released when
    pub limit: Option<(usize, Us)>,
    pub end: Us,
    /// every client socket starts numbering its connections at this id, so different clients (and
    /// some raw SYNs) use the same connection ids from different addresses
    pub client_id_base: Option<u16>,
    /// Abandon: a connect of client 0 issued just before the hanging ones, still waiting for its
    /// accept when those are dropped; it has to succeed
    pub early_connect: Option<Us>,
}

impl AcceptCfg {
    pub fn describe(&self) -> String {
        format!(
            "{:?} listener[{}] clients={} connects={:?} raw_syns={} {:?} accept_start={}us acceptors={} pause={:?} cancelled_accepts={:?} instant_abandons={:?} hanging_connects={:?} limit={:?} end={}us id_base={:?} early_connect={:?}",
            self.shape,
            self.listener.describe(),
            self.n_clients,
            self.connects,
            self.raw_syns.len(),
            self.raw_syns.iter().take(6).collect::<Vec<_>>(),
            self.accept_start,
            self.acceptors,
            self.accept_pause,
            self.cancelled_accepts,
            self.instant_abandons,
            self.hanging_connects,
            self.limit,
            self.end,
            self.client_id_base,
            self.early_connect
        )
    }
}

pub fn listener_addr() -> SocketAddr {
    v4(12_000)
}
pub fn client_addr(i: usize) -> SocketAddr {
    v4(12_100 + i as u16 * 7)
}
pub fn raw_addr(port: u16) -> SocketAddr {
    v4(port)
}

#[derive(Default, Clone, Debug)]
pub struct ConnectResult {
    pub called_at: Us,
    pub returned_at: Option<Us>,
    pub error: Option<String>,
    /// echo received: (token echoed correctly, accept index reported by the acceptor)
    pub echo: Option<(bool, u32)>,
    /// the harness expects this connect to succeed (issued when nothing stands in its way)
    pub must_succeed: bool,
}

#[derive(Default)]
pub struct AcceptOutcome {
    pub connects: BTreeMap<u32, ConnectResult>,
    /// accept index -> (time AcceptRet, remote, token read (conn) if any)
    pub accepts: BTreeMap<u32, (Us, SocketAddr, Option<u32>)>,
    /// Limit shape: (time the held connection was released by the application, time the waiting accept returned)
    pub limit_release: Option<(Us, Option<Us>)>,
    pub ended_at: Us,
}

type Shared = Arc<Mutex<AcceptOutcome>>;
type HoldAcc = Arc<Mutex<Vec<(u32, librqbit_utp::UtpStreamReadHalf, librqbit_utp::UtpStreamWriteHalf)>>>;

async fn handle_accepted(world: Arc<World>, stream: librqbit_utp::UtpStream, idx: u32, case_seed: u64, shared: Shared, hold: HoldAcc, keep_open: bool) {
    let (mut rd, mut wr) = stream.split();
    let ctx = ApiCtx { log: world.log.clone(), conn: 3_000_000 + idx, side: 1 };
    let mut tok = [0u8; TOKEN_LEN];
    let mut got = 0;
    while got < TOKEN_LEN {
        match tokio::time::timeout(Duration::from_secs(3), api_read(&ctx, &mut rd, &mut tok[got..])).await {
            Ok(Ok(n)) if n > 0 => got += n,
            _ => {
                api_drop_writer(&ctx, wr);
                api_drop_reader(&ctx, rd);
                return;
            }
        }
    }
    let conn = parse_token(case_seed, &tok);
    if let Some(a) = shared.lock().accepts.get_mut(&idx) {
        a.2 = conn;
    }
    world.log.note(format!("accept #{idx} read the token of connect {:?}", conn));
    let mut reply = tok.to_vec();
    reply.extend_from_slice(&idx.to_le_bytes());
    let mut done = 0;
    while done < reply.len() {
        match api_write(&ctx, &mut wr, &reply[done..]).await {
            Ok(n) if n > 0 => done += n,
            _ => break,
        }
    }
    if keep_open {
        hold.lock().push((idx, rd, wr));
        return;
    }
    // wait for the connector to finish
    let mut b = [0u8; 16];
    let _ = tokio::time::timeout(Duration::from_secs(5), api_read(&ctx, &mut rd, &mut b)).await;
    api_drop_writer(&ctx, wr);
    api_drop_reader(&ctx, rd);
}

async fn accept_loop(world: Arc<World>, sock: Arc<SimSocket>, case_seed: u64, shared: Shared, counter: Arc<std::sync::atomic::AtomicU32>, pause: (Us, Us), loop_id: u64, hold: HoldAcc, keep_open: bool) {
    let mut r = Prng::new(mix2(case_seed, 0xACC ^ loop_id));
    loop {
        let call = counter.fetch_add(1, Ordering::Relaxed);
        world.log.api(4_000_000 + call, 1, ApiOp::AcceptCall);
        let res = sock.accept().await;
        world.log.api(4_000_000 + call, 1, ApiOp::AcceptRet(res.as_ref().map(|s| s.remote_addr()).map_err(|e| e.to_string())));
        let stream = match res {
            Ok(s) => s,
            Err(_) => return,
        };
        let idx = {
            let mut g = shared.lock();
            let idx = g.accepts.len() as u32;
            g.accepts.insert(idx, (world.now(), stream.remote_addr(), None));
            idx
        };
        tokio::spawn(handle_accepted(world.clone(), stream, idx, case_seed, shared.clone(), hold.clone(), keep_open));
        if pause.1 > 0 {
            let p = r.range(pause.0 / MS, pause.1 / MS) * MS;
            if p > 0 {
                world.sleep_us(p).await;
            }
        }
    }
}

async fn connector(world: Arc<World>, sock: Arc<SimSocket>, case_seed: u64, conn: u32, shared: Shared, must_succeed: bool, hold_open: Option<Arc<Mutex<Vec<(u32, librqbit_utp::UtpStreamReadHalf, librqbit_utp::UtpStreamWriteHalf)>>>>) {
    {
        let mut g = shared.lock();
        let e = g.connects.entry(conn).or_default();
        e.called_at = world.now();
        e.must_succeed = must_succeed;
    }
    world.log.api(conn, 0, ApiOp::ConnectCall);
    let r = match tokio::time::timeout(Duration::from_secs(8), sock.connect(listener_addr())).await {
        Ok(r) => r.map_err(|e| e.to_string()),
        Err(_) => {
            world.log.api(conn, 0, ApiOp::Cancelled("connect"));
            Err("harness: connect timed out and was abandoned".to_string())
        }
    };
    world.log.api(conn, 0, ApiOp::ConnectRet(r.as_ref().map(|_| ()).map_err(|e| e.clone())));
    {
        let mut g = shared.lock();
        let e = g.connects.entry(conn).or_default();
        e.returned_at = Some(world.now());
        e.error = r.as_ref().err().cloned();
    }
    let stream = match r {
        Ok(s) => s,
        Err(_) => return,
    };
    let (mut rd, mut wr) = stream.split();
    let ctx = ApiCtx { log: world.log.clone(), conn, side: 0 };
    let tok = token(case_seed, conn);
    let mut done = 0;
    while done < TOKEN_LEN {
        match api_write(&ctx, &mut wr, &tok[done..]).await {
            Ok(n) if n > 0 => done += n,
            _ => break,
        }
    }
    let mut reply = [0u8; TOKEN_LEN + 4];
    let mut got = 0;
    while got < reply.len() {
        match tokio::time::timeout(Duration::from_secs(20), api_read(&ctx, &mut rd, &mut reply[got..])).await {
            Ok(Ok(n)) if n > 0 => got += n,
            _ => break,
        }
    }
    if got == reply.len() {
        let ok = reply[..TOKEN_LEN] == tok;
        let idx = u32::from_le_bytes([reply[16], reply[17], reply[18], reply[19]]);
        shared.lock().connects.entry(conn).or_default().echo = Some((ok, idx));
    }
    if let Some(h) = hold_open {
        h.lock().push((conn, rd, wr));
        return;
    }
    api_drop_writer(&ctx, wr);
    api_drop_reader(&ctx, rd);
}

pub async fn accept_scenario(world: Arc<World>, cfg: AcceptCfg, case_seed: u64) -> AcceptOutcome {
    world.log.keep_tables.store(true, Ordering::Relaxed);
    let shared: Shared = Arc::new(Mutex::new(AcceptOutcome::default()));
    let listener = world.socket(listener_addr(), &cfg.listener);
    let mut client_cfg = SockCfg::default();
    if let Some(b) = cfg.client_id_base {
        client_cfg.forced_random = vec![b];
    }
    let clients: Vec<_> = (0..cfg.n_clients).map(|i| world.socket(client_addr(i), &client_cfg)).collect();
    for (_, port, _, _, _) in &cfg.raw_syns {
        world.net.register(raw_addr(*port));
    }
    let counter = Arc::new(std::sync::atomic::AtomicU32::new(0));
    let hold_acc: HoldAcc = Arc::new(Mutex::new(Vec::new()));
    let hold_conn = Arc::new(Mutex::new(Vec::new()));
    let mut tasks = Vec::new();
    let keep_open = cfg.limit.is_some();

    // Abandon: accept futures that are dropped mid-call
    if let Some((at, n)) = cfg.cancelled_accepts {
        let w = world.clone();
        let s = listener.sock.clone();
        let sh = shared.clone();
        let hold = hold_acc.clone();
        tasks.push(tokio::spawn(async move {
            w.sleep_us(at).await;
            let mut hs = Vec::new();
            for i in 0..n {
                let s2 = s.clone();
                let w2 = w.clone();
                let (sh2, hold2) = (sh.clone(), hold.clone());
                hs.push(tokio::spawn(async move {
                    w2.log.api(5_000_000 + i as u32, 1, ApiOp::AcceptCall);
                    let r = s2.accept().await;
                    // a request was already waiting: this call completes like any other accept
                    w2.log.api(5_000_000 + i as u32, 1, ApiOp::AcceptRet(r.as_ref().map(|s| s.remote_addr()).map_err(|e| e.to_string())));
                    w2.log.note("an accept that was meant to be abandoned completed");
                    if let Ok(stream) = r {
                        let idx = {
                            let mut g = sh2.lock();
                            let idx = g.accepts.len() as u32;
                            g.accepts.insert(idx, (w2.now(), stream.remote_addr(), None));
                            idx
                        };
                        handle_accepted(w2.clone(), stream, idx, case_seed, sh2, hold2, keep_open).await;
                    }
                }));
            }
            w.sleep_us(5 * MS).await;
            for (i, h) in hs.into_iter().enumerate() {
                // only calls that are still waiting are abandoned
                let waiting = w.log.with(|evs| !evs.iter().any(|e| matches!(&e.ev, crate::events::Ev::Api { conn, op: ApiOp::AcceptRet(_), .. } if *conn == 5_000_000 + i as u32)));
                if waiting {
                    h.abort();
                    w.log.api(5_000_000 + i as u32, 1, ApiOp::Cancelled("accept"));
                }
            }
            w.log.note(format!("{n} accept calls abandoned"));
        }));
    }
    // accept calls dropped right after their first poll
    if let Some((at, n)) = cfg.instant_abandons {
        let w = world.clone();
        let s = listener.sock.clone();
        tasks.push(tokio::spawn(async move {
            w.sleep_us(at).await;
            for i in 0..n {
                w.log.api(5_500_000 + i as u32, 1, ApiOp::AcceptCall);
                // biased: the accept future is polled first (its request goes into the dispatcher's
                // channel), then the ready branch wins and the future is dropped - all in one go,
                // before the dispatcher task gets to run
                tokio::select! {
                    biased;
                    r = s.accept() => {
                        w.log.api(5_500_000 + i as u32, 1, ApiOp::AcceptRet(r.as_ref().map(|s| s.remote_addr()).map_err(|e| e.to_string())));
                        w.log.note("an accept that was meant to be abandoned completed");
                        continue;
                    }
                    _ = std::future::ready(()) => {}
                }
                w.log.api(5_500_000 + i as u32, 1, ApiOp::Cancelled("accept"));
            }
            w.log.note(format!("{n} accept calls dropped after their first poll"));
        }));
    }
    // Abandon: connects whose SYN never arrives, dropped after 100 ms
    if let Some((at, client, n)) = cfg.hanging_connects {
        let w = world.clone();
        let s = clients[client].sock.clone();
        let ca = client_addr(client);
        tasks.push(tokio::spawn(async move {
            w.sleep_us(at).await;
            w.net.with_plan(|p| {
                p.filter = Some(Box::new(move |ctx, _| {
                    if ctx.src == ca && ctx.pkt.map(|p| p.ty == wire::ST_SYN).unwrap_or(false) {
                        Some(Fate::Drop("syn-eaten"))
                    } else {
                        None
                    }
                }));
            });
            let mut hs = Vec::new();
            for i in 0..n {
                let s2 = s.clone();
                let w2 = w.clone();
                hs.push(tokio::spawn(async move {
                    w2.log.api(6_000_000 + i as u32, 0, ApiOp::ConnectCall);
                    let r = s2.connect(listener_addr()).await;
                    w2.log.api(6_000_000 + i as u32, 0, ApiOp::ConnectRet(r.as_ref().map(|_| ()).map_err(|e| e.to_string())));
                }));
            }
            w.sleep_us(100 * MS).await;
            for (i, h) in hs.into_iter().enumerate() {
                if !h.is_finished() {
                    h.abort();
                    w.log.api(6_000_000 + i as u32, 0, ApiOp::Cancelled("connect"));
                }
            }
            w.net.with_plan(|p| p.filter = None);
            w.log.note(format!("{n} connect calls abandoned"));
        }));
    }
    // accept loops
    {
        let w = world.clone();
        let s = listener.sock.clone();
        let sh = shared.clone();
        let c = counter.clone();
        let (start, n, pause) = (cfg.accept_start, cfg.acceptors, cfg.accept_pause);
        let hold = hold_acc.clone();
        tasks.push(tokio::spawn(async move {
            w.sleep_us(start).await;
            w.log.note("accepting starts");
            let mut hs = Vec::new();
            for i in 0..n {
                hs.push(tokio::spawn(accept_loop(w.clone(), s.clone(), case_seed, sh.clone(), c.clone(), pause, i as u64, hold.clone(), keep_open)));
            }
            for h in hs {
                let _ = h.await;
            }
        }));
    }
    // raw SYNs
    for (at, port, id, seq, copies) in cfg.raw_syns.clone() {
        let w = world.clone();
        tasks.push(tokio::spawn(async move {
            w.sleep_us(at).await;
            let p = Pkt::new(wire::ST_SYN, id, seq, 0, 0);
            for k in 0..copies {
                let _ = w.net.send(None, raw_addr(port), listener_addr(), p.encode(), true);
                if k + 1 < copies {
                    w.sleep_us(7 * MS).await;
                }
            }
        }));
    }
    // real connects
    let abandon_over = cfg.hanging_connects.map(|(at, _, _)| at + 150 * MS).unwrap_or(0).max(cfg.cancelled_accepts.map(|(at, _)| at + 10 * MS).unwrap_or(0));
    for (k, (at, client)) in cfg.connects.iter().enumerate() {
        let w = world.clone();
        let s = clients[*client].sock.clone();
        let sh = shared.clone();
        let at = *at;
        // expected to succeed: Order always; Abandon when issued after the abandonment is over;
        // Backlog / Limit decide in the monitor (queue position, slot)
        let must = match cfg.shape {
            Shape::Order => true,
            Shape::Abandon => at >= abandon_over || (cfg.early_connect == Some(at) && *client == 0),
            _ => false,
        };
        let hold = if keep_open { Some(hold_conn.clone()) } else { None };
        tasks.push(tokio::spawn(async move {
            w.sleep_us(at).await;
            connector(w, s, case_seed, k as u32, sh, must, hold).await;
        }));
    }
    // Limit: release one held connection
    if let Some((_, release_at)) = cfg.limit {
        world.sleep_us(release_at).await;
        let victim = hold_conn.lock().pop();
        if let Some((conn, rd, wr)) = victim {
            let ctx = ApiCtx { log: world.log.clone(), conn, side: 0 };
            world.log.note(format!("releasing held connection {conn}"));
            api_drop_writer(&ctx, wr);
            api_drop_reader(&ctx, rd);
            // the listener's application lets go of its end of that connection as well
            let idx = shared.lock().accepts.iter().find(|(_, a)| a.2 == Some(conn)).map(|(i, _)| *i);
            if let Some(idx) = idx {
                let mut g = hold_acc.lock();
                if let Some(pos) = g.iter().position(|(i, _, _)| *i == idx) {
                    let (_, r2, w2) = g.remove(pos);
                    let c2 = ApiCtx { log: world.log.clone(), conn: 3_000_000 + idx, side: 1 };
                    api_drop_writer(&c2, w2);
                    api_drop_reader(&c2, r2);
                }
            }
            shared.lock().limit_release = Some((world.now(), None));
        }
    }
    let now = world.now();
    if cfg.end > now {
        world.sleep_us(cfg.end - now).await;
    }
    world.log.note("scenario end");
    for t in tasks {
        t.abort();
    }
    // let go of everything held
    for (conn, rd, wr) in hold_conn.lock().drain(..) {
        let ctx = ApiCtx { log: world.log.clone(), conn, side: 0 };
        api_drop_writer(&ctx, wr);
        api_drop_reader(&ctx, rd);
    }
    hold_acc.lock().clear();
    world.sleep_us(2 * SEC).await;
    let mut out = std::mem::take(&mut *shared.lock());
    out.ended_at = world.now();
    drop(clients);
    drop(listener);
    out
}

pub fn generate(case_seed: u64) -> (AcceptCfg, FaultPlan, String) {
    let mut r = Prng::new(mix2(case_seed, 0xACCE));
    let shape = *r.pick(&[Shape::Order, Shape::Order, Shape::Backlog, Shape::Abandon, Shape::Limit]);
    let mut listener = SockCfg::default();
    listener.remote_inactivity_timeout = Some(Duration::from_secs(30));
    let n_clients = r.range(1, 4) as usize;
    let lat_lo = r.range(1, 15) * MS;
    let lat_hi = lat_lo + r.range(0, 15) * MS;
    let mut plan = FaultPlan::perfect(mix2(case_seed, 0xFA19)).with_latency(lat_lo, lat_hi);
    let mut desc = format!("latency {}..{}ms", lat_lo / MS, lat_hi / MS);
    let mut connects: Vec<(Us, usize)> = Vec::new();
    let mut raw_syns = Vec::new();
    let mut cfg = AcceptCfg {
        shape,
        listener,
        n_clients,
        connects: Vec::new(),
        raw_syns: Vec::new(),
        accept_start: 0,
        acceptors: 1,
        accept_pause: (0, 0),
        cancelled_accepts: None,
        instant_abandons: None,
        hanging_connects: None,
        limit: None,
        end: 6 * SEC,
        client_id_base: None,
        early_connect: None,
    };
    let mut aux = Prng::new(mix2(case_seed, 0x5A3E_1D));
    let id_base: Option<u16> = if aux.chance(0.35) { Some(aux.next_u64() as u16) } else { None };
    cfg.client_id_base = id_base;
    let mut raw_port = 13_000u16;
    let mut aux2 = Prng::new(mix2(case_seed, 0x5A3E_2D));
    let mut next_raw = |r: &mut Prng, at: Us, copies: u8| {
        raw_port += 1;
        let (id, seq) = (r.next_u64() as u16, r.next_u64() as u16);
        // same connection id as the clients' first connects, from another address
        let id = match id_base {
            Some(b) if aux2.chance(0.6) => b.wrapping_add(2 * aux2.below(3) as u16),
            _ => id,
        };
        (at, raw_port, id, seq, copies)
    };
    match shape {
        Shape::Order => {
            // SYNs pile up before accepting starts and between paced accepts
            cfg.accept_start = *r.pick(&[0u64, 50, 200, 400]) * MS;
            cfg.acceptors = *r.pick(&[1usize, 1, 1, 2, 3]);
            cfg.accept_pause = *r.pick(&[(0u64, 0u64), (0, 20 * MS), (10 * MS, 60 * MS)]);
            for c in 0..n_clients {
                for _ in 0..r.range(1, 4) {
                    connects.push((r.range(0, 400) * MS, c));
                }
            }
            for _ in 0..r.range(0, 8) {
                let copies = if r.chance(0.4) { 2 } else { 1 };
                let at = r.range(0, 400) * MS;
                raw_syns.push(next_raw(&mut r, at, copies));
            }
            if r.chance(0.5) {
                plan.dup = 0.15;
                plan.reorder_extra = 20 * MS;
                plan.spare_scripted = false;
                desc += " dup 0.15";
            }
            if cfg.accept_start > 0 && r.chance(0.5) {
                // just before accepting starts, with requests waiting in the queue
                cfg.instant_abandons = Some((cfg.accept_start - MS, r.range(1, 3) as usize));
            }
        }
        Shape::Backlog => {
            // nobody accepts until the flood is over
            let n = r.range(25, 50);
            let span = r.range(50, 600) * MS;
            for _ in 0..n {
                let copies = if r.chance(0.15) { 2 } else { 1 };
                let at = r.range(0, span / MS) * MS;
                raw_syns.push(next_raw(&mut r, at, copies));
            }
            for c in 0..n_clients {
                for _ in 0..r.range(0, 3) {
                    connects.push((r.range(0, span / MS) * MS, c));
                }
            }
            cfg.accept_start = span + 200 * MS;
            cfg.acceptors = 1;
            cfg.end = cfg.accept_start + 12 * SEC;
        }
        Shape::Abandon => {
            cfg.acceptors = *r.pick(&[1usize, 2]);
            cfg.accept_start = *r.pick(&[0u64, 30, 300]) * MS;
            if r.chance(0.7) {
                cfg.cancelled_accepts = Some((r.range(0, 100) * MS, r.range(1, 45) as usize));
            }
            if r.chance(0.7) {
                cfg.hanging_connects = Some((r.range(0, 100) * MS, 0, r.range(1, 4) as usize));
            }
            if r.chance(0.5) {
                cfg.instant_abandons = Some((r.range(0, 600) * MS, r.range(1, 40) as usize));
            }
            if let Some((hat, _, _)) = cfg.hanging_connects {
                // (not next to accept calls that are aborted around the same time: a request handed
                // to a call that is being cancelled goes down with it, which is the application's doing)
                if cfg.cancelled_accepts.is_none() && aux.chance(0.6) {
                    cfg.accept_start = 300 * MS;
                }
                if hat >= 2 * MS && cfg.accept_start >= 300 * MS && cfg.cancelled_accepts.is_none() && aux.chance(0.8) {
                    let at = hat - aux.range(1, (hat / MS).min(10)) * MS;
                    cfg.early_connect = Some(at);
                    connects.push((at, 0));
                }
            }
            // ordinary connects afterwards, including up to 4 from the client whose connects hung
            for _ in 0..r.range(1, 4) {
                connects.push((400 * MS + r.range(0, 300) * MS, 0));
            }
            for c in 1..n_clients {
                for _ in 0..r.range(0, 3) {
                    connects.push((r.range(0, 700) * MS, c));
                }
            }
        }
        Shape::Limit => {
            let m = r.range(1, 3) as usize;
            cfg.listener.max_live_vsocks = Some(m);
            cfg.acceptors = *r.pick(&[1usize, 2]);
            // m connections first (one per 60 ms), then one more that has to wait for a slot
            for k in 0..m {
                connects.push((k as u64 * 60 * MS, k % n_clients));
            }
            connects.push((m as u64 * 60 * MS + 200 * MS, (m + 1) % n_clients));
            let release_at = m as u64 * 60 * MS + 200 * MS + r.range(100, 1500) * MS;
            cfg.limit = Some((m, release_at));
            cfg.end = release_at + 4 * SEC;
        }
    }
    connects.sort();
    cfg.connects = connects;
    cfg.raw_syns = raw_syns;
    (cfg, plan, desc)
}

pub fn run_accept(case_seed: u64, cfg: &AcceptCfg, plan: FaultPlan) -> CaseRun<AcceptOutcome> {
    let cfg2 = cfg.clone();
    run_case(case_seed, Duration::from_secs(600), false, plan, move |w| accept_scenario(w, cfg2, case_seed))
}
