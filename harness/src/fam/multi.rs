//! `multi` family: several real sockets, many concurrent connections per pair in both
//! directions, identified end to end by a token the connector writes first. Serves C08, C10,
//! C12 and C13 with different parameters (limits, forced equal ISNs, cancellations, an attacker,
//! scripted SYN sources).
use std::{
    collections::BTreeMap,
    net::SocketAddr,
    sync::{
        atomic::{AtomicU32, Ordering},
        Arc,
    },
    time::Duration,
};

use parking_lot::Mutex;

use crate::{
    app::{api_drop_reader, api_drop_writer, api_read, api_shutdown, api_write, gen_check, gen_fill, stream_key, ApiCtx},
    events::{ApiOp, Us, MS, SEC},
    prng::{mix2, Prng},
    sim::{run_case, v4, CaseRun, FaultPlan, SockCfg, SockHandle, World},
    wire::{self, Pkt},
};

pub const TOKEN_LEN: usize = 16;

pub fn token(case_seed: u64, conn: u32) -> [u8; TOKEN_LEN] {
    let mut t = [0u8; TOKEN_LEN];
    t[..4].copy_from_slice(b"UTPV");
    t[4..8].copy_from_slice(&conn.to_le_bytes());
    t[8..16].copy_from_slice(&mix2(case_seed, conn as u64 ^ 0x70CE).to_le_bytes());
    t
}

pub fn parse_token(case_seed: u64, t: &[u8]) -> Option<u32> {
    if t.len() != TOKEN_LEN || &t[..4] != b"UTPV" {
        return None;
    }
    let conn = u32::from_le_bytes([t[4], t[5], t[6], t[7]]);
    if t[8..16] == mix2(case_seed, conn as u64 ^ 0x70CE).to_le_bytes() {
        Some(conn)
    } else {
        None
    }
}

/// What both ends of connection `conn` do, derived from (case seed, conn) so that the accepting
/// side knows it once it has read the token.
#[derive(Clone, Debug)]
pub struct ConnPlan {
    pub total: [usize; 2],
    pub chunk: usize,
    pub read_buf: usize,
    /// how the connector ends: true = shutdown after reading everything, false = drop both halves
    pub graceful: bool,
    pub hold: Us,
}

#[derive(Clone, Copy, Debug)]
pub struct PlanParams {
    pub max_total: usize,
    /// connection 0 (an attacker's target) is kept busy and alive for this long
    pub conn0_hold: Us,
    pub conn0_min_total: usize,
}

pub fn conn_plan(case_seed: u64, conn: u32, pp: PlanParams) -> ConnPlan {
    let mut r = Prng::new(mix2(case_seed, conn as u64 ^ 0xC099));
    let max_total = pp.max_total;
    let mut p = ConnPlan {
        total: [r.log_range(1, max_total as u64) as usize, r.log_range(1, max_total as u64) as usize],
        chunk: *r.pick(&[7usize, 300, 5000, 70000]),
        read_buf: *r.pick(&[13usize, 1000, 65536]),
        graceful: r.chance(0.7),
        hold: r.range(0, 300) * MS,
    };
    if conn == 0 && pp.conn0_hold > 0 {
        p.hold = pp.conn0_hold;
        p.total[0] = p.total[0].max(pp.conn0_min_total);
        p.total[1] = p.total[1].max(pp.conn0_min_total);
        p.chunk = p.chunk.max(300);
    }
    p
}

#[derive(Default)]
pub struct ConnResult {
    /// per side: bytes written, bytes read, first error, content mismatch, finished time
    pub written: [usize; 2],
    pub read: [usize; 2],
    pub error: [Option<String>; 2],
    pub mismatch: [bool; 2],
    pub done_at: [Option<Us>; 2],
    pub connect_error: Option<String>,
    pub connected_at: Option<Us>,
    pub accepted_on: Option<SocketAddr>,
    pub connector: Option<SocketAddr>,
    pub target: Option<SocketAddr>,
}

pub type Results = Arc<Mutex<BTreeMap<u32, ConnResult>>>;

/// Accept loop: every accepted stream is identified by its token and then handled.
pub async fn accept_loop(world: Arc<World>, sock: Arc<crate::sim::SimSocket>, addr: SocketAddr, case_seed: u64, pp: PlanParams, results: Results, accept_counter: Arc<AtomicU32>, concurrent_handlers: bool) {
    loop {
        let k = accept_counter.fetch_add(1, Ordering::Relaxed);
        let tmp = 1_000_000 + k;
        world.log.api(tmp, 1, ApiOp::AcceptCall);
        let r = sock.accept().await;
        world.log.api(tmp, 1, ApiOp::AcceptRet(r.as_ref().map(|s| s.remote_addr()).map_err(|e| e.to_string())));
        let stream = match r {
            Ok(s) => s,
            Err(_) => return,
        };
        let w2 = world.clone();
        let res = results.clone();
        let remote = stream.remote_addr();
        let handler = async move {
            let (mut rd, wr) = stream.split();
            // read the token
            let ctx = ApiCtx { log: w2.log.clone(), conn: tmp, side: 1 };
            let mut tok = [0u8; TOKEN_LEN];
            let mut got = 0;
            while got < TOKEN_LEN {
                match tokio::time::timeout(Duration::from_secs(60), api_read(&ctx, &mut rd, &mut tok[got..])).await {
                    Ok(Ok(0)) | Ok(Err(_)) | Err(_) => {
                        w2.log.note(format!("accepted stream #{k} on {addr} ended before its token was complete ({got} bytes)"));
                        api_drop_writer(&ctx, wr);
                        api_drop_reader(&ctx, rd);
                        return;
                    }
                    Ok(Ok(n)) => got += n,
                }
            }
            let conn = match parse_token(case_seed, &tok) {
                Some(c) => c,
                None => {
                    w2.log.note(format!("accepted stream #{k} on {addr} from {remote} delivered a corrupt token {:?}", tok));
                    api_drop_writer(&ctx, wr);
                    api_drop_reader(&ctx, rd);
                    return;
                }
            };
            w2.log.note(format!("accepted stream #{k} on {addr} is conn {conn}"));
            {
                let mut g = res.lock();
                let e = g.entry(conn).or_default();
                if e.accepted_on.is_some() {
                    w2.log.note(format!("DUPLICATE-ACCEPT conn {conn} accepted twice (again on {addr})"));
                }
                e.accepted_on = Some(addr);
            }
            run_side_halves(w2, rd, wr, case_seed, conn, 1, conn_plan(case_seed, conn, pp), res).await;
        };
        if concurrent_handlers {
            tokio::spawn(handler);
        } else {
            handler.await;
        }
    }
}

/// Run one side of an established, identified connection: write `total[side]` bytes of the side's
/// generator stream, read `total[1-side]` bytes of the other one, then close.
pub async fn run_side_halves(
    world: Arc<World>,
    mut r: librqbit_utp::UtpStreamReadHalf,
    mut w: librqbit_utp::UtpStreamWriteHalf,
    case_seed: u64,
    conn: u32,
    side: u8,
    plan: ConnPlan,
    results: Results,
) {
    let ctx_w = ApiCtx { log: world.log.clone(), conn, side };
    let ctx_r = ApiCtx { log: world.log.clone(), conn, side };
    let wkey = stream_key(case_seed, conn, side);
    let rkey = stream_key(case_seed, conn, 1 - side);
    let want_w = plan.total[side as usize];
    let want_r = plan.total[1 - side as usize];
    let res_w = results.clone();
    let writer = async {
        let mut off = 0usize;
        let mut buf = Vec::new();
        while off < want_w {
            let n = plan.chunk.min(want_w - off);
            buf.resize(n, 0);
            gen_fill(wkey, off as u64, &mut buf);
            let mut done = 0;
            while done < n {
                match api_write(&ctx_w, &mut w, &buf[done..]).await {
                    Ok(0) => return Err("write returned 0".to_string()),
                    Ok(k) => {
                        done += k;
                        res_w.lock().entry(conn).or_default().written[side as usize] += k;
                    }
                    Err(e) => return Err(e.to_string()),
                }
            }
            off += n;
        }
        Ok(())
    };
    let res_r = results.clone();
    let wl = world.clone();
    let reader = async {
        let mut got = 0usize;
        let mut buf = vec![0u8; plan.read_buf];
        while got < want_r {
            match api_read(&ctx_r, &mut r, &mut buf).await {
                Ok(0) => return Err(format!("EOF after {got} of {want_r} bytes")),
                Ok(n) => {
                    if gen_check(rkey, got as u64, &buf[..n]).is_some() {
                        res_r.lock().entry(conn).or_default().mismatch[side as usize] = true;
                        wl.log.note(format!("MISMATCH conn={conn} side={side} offset={got}"));
                    }
                    got += n;
                    res_r.lock().entry(conn).or_default().read[side as usize] = got;
                }
                Err(e) => return Err(e.to_string()),
            }
        }
        Ok(())
    };
    let (wr, rr) = tokio::join!(writer, reader);
    let err = wr.err().or(rr.err());
    if err.is_none() {
        if plan.hold > 0 {
            world.sleep_us(plan.hold).await;
        }
        if plan.graceful {
            let _ = tokio::time::timeout(Duration::from_secs(120), api_shutdown(&ctx_w, &mut w)).await;
        }
    }
    {
        let mut g = results.lock();
        let e = g.entry(conn).or_default();
        e.error[side as usize] = err;
        e.done_at[side as usize] = Some(world.now());
    }
    api_drop_writer(&ctx_w, w);
    api_drop_reader(&ctx_r, r);
}

/// Connector: connect, write the token, run side 0.
pub async fn connector(world: Arc<World>, sock: Arc<crate::sim::SimSocket>, from: SocketAddr, to: SocketAddr, case_seed: u64, conn: u32, pp: PlanParams, connect_timeout: Us, results: Results) {
    {
        let mut g = results.lock();
        let e = g.entry(conn).or_default();
        e.connector = Some(from);
        e.target = Some(to);
    }
    world.log.api(conn, 0, ApiOp::ConnectCall);
    let r = match tokio::time::timeout(Duration::from_micros(connect_timeout), sock.connect(to)).await {
        Ok(r) => r.map_err(|e| e.to_string()),
        Err(_) => {
            world.log.api(conn, 0, ApiOp::Cancelled("connect"));
            Err("harness: connect timed out and was abandoned".to_string())
        }
    };
    world.log.api(conn, 0, ApiOp::ConnectRet(r.as_ref().map(|_| ()).map_err(|e| e.clone())));
    let stream = match r {
        Ok(s) => s,
        Err(e) => {
            let mut g = results.lock();
            let e2 = g.entry(conn).or_default();
            e2.connect_error = Some(e);
            e2.done_at[0] = Some(world.now());
            return;
        }
    };
    results.lock().entry(conn).or_default().connected_at = Some(world.now());
    let (rd, mut wr) = stream.split();
    let ctx = ApiCtx { log: world.log.clone(), conn, side: 0 };
    let tok = token(case_seed, conn);
    let mut done = 0;
    while done < TOKEN_LEN {
        match api_write(&ctx, &mut wr, &tok[done..]).await {
            Ok(0) | Err(_) => {
                results.lock().entry(conn).or_default().error[0] = Some("token write failed".into());
                api_drop_writer(&ctx, wr);
                api_drop_reader(&ctx, rd);
                return;
            }
            Ok(n) => done += n,
        }
    }
    run_side_halves(world, rd, wr, case_seed, conn, 0, conn_plan(case_seed, conn, pp), results).await;
}

#[derive(Clone, Debug)]
pub struct MultiCfg {
    pub n_sockets: usize,
    pub socks: Vec<SockCfg>,
    /// (time offset, from socket, to socket)
    pub connects: Vec<(Us, usize, usize)>,
    pub max_total: usize,
    pub conn0_hold: Us,
    pub conn0_min_total: usize,
    pub connect_timeout: Us,
    /// accept loops per socket; 0 = nobody accepts on that socket
    pub acceptors: Vec<usize>,
    pub concurrent_handlers: bool,
    /// extra virtual time after the last connection finished
    pub tail: Us,
    pub limit: Us,
    /// cancel this socket's token at this time
    pub cancel: Option<(usize, Us)>,
    /// an attacker sending hostile datagrams to socket index `.0` (see hostile.rs)
    pub attack: Option<AttackCfg>,
    /// connections started after the attack is over (service check)
    pub late_connects: Vec<usize>,
    pub keep_snapshots: bool,
}

#[derive(Clone, Debug)]
pub struct AttackCfg {
    /// aim at connection 0 (its exact identifiers, both directions); otherwise blind noise only
    pub aim_at_conn0: bool,
    pub max_foreign_syns: usize,
    pub start: Us,
    pub count: usize,
    pub gap: Us,
}

impl MultiCfg {
    pub fn plan_params(&self) -> PlanParams {
        PlanParams { max_total: self.max_total, conn0_hold: self.conn0_hold, conn0_min_total: self.conn0_min_total }
    }
    pub fn describe(&self) -> String {
        format!(
            "{} sockets [{}] connects={:?} max_total={} acceptors={:?} concurrent_handlers={} cancel={:?} attack={:?} tail={}us",
            self.n_sockets,
            self.socks.iter().map(|s| s.describe()).collect::<Vec<_>>().join(" | "),
            self.connects,
            self.max_total,
            self.acceptors,
            self.concurrent_handlers,
            self.cancel,
            self.attack,
            self.tail
        )
    }
}

pub fn sock_addr(i: usize) -> SocketAddr {
    v4(10_000 + i as u16 * 11)
}

pub struct MultiOutcome {
    pub results: BTreeMap<u32, ConnResult>,
    pub ended_at: Us,
}

pub async fn multi_scenario(world: Arc<World>, cfg: MultiCfg, case_seed: u64) -> MultiOutcome {
    world.log.keep_tables.store(true, Ordering::Relaxed);
    let results: Results = Arc::new(Mutex::new(BTreeMap::new()));
    let mut handles: Vec<SockHandle> = Vec::new();
    for i in 0..cfg.n_sockets {
        handles.push(world.socket(sock_addr(i), &cfg.socks[i]));
    }
    let accept_counter = Arc::new(AtomicU32::new(0));
    let mut bg = Vec::new();
    for (i, h) in handles.iter().enumerate() {
        for _ in 0..cfg.acceptors[i] {
            bg.push(tokio::spawn(accept_loop(
                world.clone(),
                h.sock.clone(),
                h.addr,
                case_seed,
                cfg.plan_params(),
                results.clone(),
                accept_counter.clone(),
                cfg.concurrent_handlers,
            )));
        }
    }
    if let Some((si, at)) = cfg.cancel {
        let tok = handles[si].token.clone();
        let w2 = world.clone();
        bg.push(tokio::spawn(async move {
            w2.sleep_us(at).await;
            w2.log.note(format!("cancelling the token of socket {si}"));
            tok.cancel();
        }));
    }
    if let Some(att) = cfg.attack.clone() {
        let w2 = world.clone();
        let socks: Vec<SocketAddr> = handles.iter().map(|h| h.addr).collect();
        let pair = if att.aim_at_conn0 { cfg.connects.first().map(|(_, f, t)| (handles[*f].addr, handles[*t].addr)) } else { None };
        bg.push(tokio::spawn(crate::fam::hostile::attacker(w2, socks, pair, att, case_seed)));
    }
    let mut conns = Vec::new();
    for (k, (at, from, to)) in cfg.connects.iter().enumerate() {
        let w2 = world.clone();
        let sock = handles[*from].sock.clone();
        let (fa, ta) = (handles[*from].addr, handles[*to].addr);
        let res = results.clone();
        let at = *at;
        let pp = cfg.plan_params();
        let connect_timeout = cfg.connect_timeout;
        conns.push(tokio::spawn(async move {
            if at > 0 {
                w2.sleep_us(at).await;
            }
            connector(w2, sock, fa, ta, case_seed, k as u32, pp, connect_timeout, res).await;
        }));
    }
    let all = async {
        for c in conns {
            let _ = c.await;
        }
    };
    let _ = tokio::time::timeout(Duration::from_micros(cfg.limit), all).await;
    world.log.note("connectors done");
    // let accepting sides finish
    let start = world.now();
    loop {
        world.sleep_us(100 * MS).await;
        let pending = results.lock().values().filter(|r| r.accepted_on.is_some() && r.done_at[1].is_none()).count();
        if pending == 0 || world.now() - start > 60 * SEC {
            break;
        }
    }
    world.log.note("handlers done");
    world.sleep_us(cfg.tail).await;
    for b in bg {
        b.abort();
    }
    let res = std::mem::take(&mut *results.lock());
    let out = MultiOutcome { results: res, ended_at: world.now() };
    drop(handles);
    out
}

pub fn run_multi(case_seed: u64, cfg: &MultiCfg, plan: FaultPlan) -> CaseRun<MultiOutcome> {
    let cfg2 = cfg.clone();
    run_case(case_seed, Duration::from_micros(cfg.limit + 600 * SEC), cfg.keep_snapshots, plan, move |w| multi_scenario(w, cfg2, case_seed))
}

/// Raw SYN source (C13): sends a SYN with the given id/seq from `src` to `dst`.
pub fn send_raw_syn(world: &World, src: SocketAddr, dst: SocketAddr, conn_id: u16, seq: u16) {
    let p = Pkt::new(wire::ST_SYN, conn_id, seq, 0, 0);
    let _ = world.net.send(None, src, dst, p.encode(), true);
}

#[derive(Clone, Copy, Debug, PartialEq)]
pub enum Flavour {
    /// C12: many connections, forced equal ISNs and adjacent connection id bases, small limits
    Isolation,
    /// C10: like Isolation without id tricks, plus an attacker aiming at connection 0
    Hostile,
}

pub struct GeneratedMulti {
    pub cfg: MultiCfg,
    pub plan: FaultPlan,
    pub plan_desc: String,
    pub perfect_network: bool,
}

pub fn generate(case_seed: u64, flavour: Flavour, max_total: usize) -> GeneratedMulti {
    let mut r = Prng::new(mix2(case_seed, 0x3017));
    let n = r.range(2, 5) as usize;
    let equal_isns = flavour == Flavour::Isolation && r.chance(0.6);
    let base: u16 = r.next_u64() as u16;
    let isn: u16 = *r.pick(&[1u16, 0xfff0, 0x8000, 12345]);
    // (no small limits in the hostile flavour: the target connection may legitimately linger in its slot)
    let small_limits = r.chance(if flavour == Flavour::Isolation { 0.5 } else { 0.0 });
    let mut socks = Vec::new();
    for i in 0..n {
        let mut c = SockCfg::default();
        if equal_isns {
            // first value: connection id base; then ISNs (connect: SYN seq; accept: own ISN)
            let b = match r.below(4) {
                0 => base,
                1 => base.wrapping_add(1),
                2 => base.wrapping_sub(1),
                _ => base.wrapping_add(2 * i as u16),
            };
            c.forced_random = std::iter::once(b).chain(std::iter::repeat(isn).take(200)).collect();
        }
        if small_limits && r.chance(0.7) {
            c.max_live_vsocks = Some(r.range(1, 6) as usize);
        }
        if r.chance(0.3) {
            c.disable_nagle = true;
        }
        if r.chance(0.2) {
            c.link_mtu = Some(*r.pick(&[600usize, 1000, 1500, 4000]));
        }
        c.remote_inactivity_timeout = Some(Duration::from_secs(30));
        socks.push(c);
    }
    let n_conn = match flavour {
        Flavour::Isolation => r.range(3, 24) as usize,
        Flavour::Hostile => r.range(2, 8) as usize,
    };
    let burst = r.chance(0.5);
    let mut connects = Vec::new();
    let mut per_pair: BTreeMap<(usize, usize), usize> = BTreeMap::new();
    let focus_pair = r.chance(0.5);
    for k in 0..n_conn {
        let (mut f, mut t);
        loop {
            if focus_pair && r.chance(0.7) {
                // several connections between the same two sockets, both directions
                if r.chance(0.5) {
                    f = 0;
                    t = 1;
                } else {
                    f = 1;
                    t = 0;
                }
            } else {
                f = r.below(n as u64) as usize;
                t = r.below(n as u64) as usize;
            }
            if f != t {
                break;
            }
        }
        let e = per_pair.entry((f, t)).or_default();
        *e += 1;
        // at most 4 connects may be outstanding per (socket, address): space later ones out
        let wave = (*e - 1) / 4;
        let at = if burst { 0 } else { r.range(0, 1500) * MS } + wave as u64 * 3 * SEC + if k == 0 { 0 } else { MS };
        connects.push((at, f, t));
    }
    // connection 0 starts first (the attacker's target in the hostile flavour)
    connects[0].0 = 0;
    let acceptors: Vec<usize> = (0..n).map(|_| r.range(1, 3) as usize).collect();
    let lat_lo = r.range(1, 20) * MS;
    let lat_hi = lat_lo + r.range(0, 30) * MS;
    let mut plan = FaultPlan::perfect(mix2(case_seed, 0xFA17)).with_latency(lat_lo, lat_hi);
    let mut perfect = true;
    let mut desc = format!("latency {}..{}ms", lat_lo / MS, lat_hi / MS);
    if r.chance(0.4) {
        plan.loss = *r.pick(&[0.005, 0.02, 0.05]);
        plan.protect_handshake = true;
        plan.budget_per_identity = Some(2);
        perfect = false;
        desc += &format!(" loss {}", plan.loss);
    }
    if r.chance(0.3) {
        plan.dup = 0.03;
        plan.reorder = 0.1;
        plan.reorder_extra = 40 * MS;
        desc += " dup 0.03 reorder 0.1";
    }
    let mut conn0_hold = 0;
    let mut late = Vec::new();
    let attack = if flavour == Flavour::Hostile {
        let a = AttackCfg {
            aim_at_conn0: r.chance(0.85),
            max_foreign_syns: 3,
            start: r.range(0, 200) * MS,
            count: r.range(20, 400) as usize,
            gap: *r.pick(&[0u64, 0, 2 * MS, 20 * MS]),
        };
        // upper bound of the attack's duration: zero-gap datagrams advance 1 ms every fifth on average
        let dur = a.start + a.count as u64 * (a.gap + MS);
        conn0_hold = dur + SEC;
        // after the attack: the accept/connect service must still work between every pair used
        let t_late = dur + 3 * SEC;
        let mut pairs: Vec<(usize, usize)> = connects.iter().map(|(_, f, t)| (*f, *t)).collect();
        pairs.sort();
        pairs.dedup();
        for (i, (f, t)) in pairs.into_iter().enumerate().take(4) {
            late.push(connects.len());
            connects.push((t_late + i as u64 * 50 * MS, f, t));
        }
        Some(a)
    } else {
        None
    };
    if flavour == Flavour::Hostile && r.chance(0.6) {
        // no path-MTU probing in most hostile cases: keeps the known probe re-cut defect out
        for c in socks.iter_mut() {
            c.link_mtu = Some(576);
        }
    }
    let cfg = MultiCfg {
        n_sockets: n,
        socks,
        connects,
        max_total,
        conn0_hold,
        conn0_min_total: 4000,
        // shorter than the 3 s between waves, so that at most 4 connects per address are outstanding
        connect_timeout: 2500 * MS,
        acceptors,
        concurrent_handlers: true,
        tail: 2 * SEC,
        limit: 400 * SEC,
        cancel: None,
        attack,
        late_connects: late,
        keep_snapshots: false,
    };
    GeneratedMulti { cfg, plan, plan_desc: desc, perfect_network: perfect }
}
