//! `direct_*` families: the pure components driven directly with generated operation sequences,
//! each with a reference model or invariant oracle evaluated after every call.
use std::time::{Duration, Instant};

use librqbit_utp::verif::{seq_nr_offset, CongestionController, Cubic, RttEstimator, SeqNr, WRAP_TOLERANCE};

use crate::{
    prng::Prng,
    runner::CaseCtx,
    verdict::{fnv1a, CaseReport, Tier, FNV_INIT},
};

// ---------------------------------------------------------------------------------------------
// C16: retransmission-timeout estimator against a line-by-line RFC 6298 reference
// ---------------------------------------------------------------------------------------------

const MIN_RTO_NS: u128 = 200_000_000;
const MAX_RTO_NS: u128 = 60_000_000_000;
const G_NS: u128 = 10_000_000;

struct RefRtte {
    srtt: Option<u128>,
    rttvar: u128,
    rto: u128,
}

impl RefRtte {
    fn sample(&mut self, r: u128) {
        match self.srtt {
            None => {
                // 2.2: SRTT <- R, RTTVAR <- R/2
                self.srtt = Some(r);
                self.rttvar = r / 2;
            }
            Some(s) => {
                // 2.3: RTTVAR <- (1 - beta) * RTTVAR + beta * |SRTT - R'| ; SRTT <- (1 - alpha) * SRTT + alpha * R'
                let diff = if s > r { s - r } else { r - s };
                self.rttvar = (3 * self.rttvar + diff) / 4;
                self.srtt = Some((7 * s + r) / 8);
            }
        }
        // RTO <- SRTT + max(G, K*RTTVAR), clamped
        self.rto = (self.srtt.unwrap() + (4 * self.rttvar).max(G_NS)).clamp(MIN_RTO_NS, MAX_RTO_NS);
    }
    fn timeout(&mut self) {
        self.rto = (self.rto * 2).clamp(MIN_RTO_NS, MAX_RTO_NS);
    }
}

fn gen_sample(rng: &mut Prng) -> Duration {
    match rng.below(10) {
        0 => Duration::from_nanos(0),
        1 => Duration::from_nanos(rng.below(1000)),
        2..=5 => Duration::from_micros(rng.log_range(1, 2_000_000)),
        6 => Duration::from_millis(rng.log_range(1, 120_000)),
        7 => Duration::from_secs(rng.log_range(1, 36_000)),
        8 => Duration::from_nanos(rng.next_u64() >> rng.below(40)),
        _ => Duration::from_millis(*rng.pick(&[199u64, 200, 201, 59_999, 60_000, 60_001, 10, 9, 11])),
    }
}

pub fn direct_rtte(ctx: &CaseCtx) -> CaseReport {
    const P: &str = "C16";
    let mut rep = CaseReport::new(ctx.family, ctx.index, ctx.case_seed);
    let mut rng = Prng::new(ctx.case_seed);
    let n_ops = if ctx.tier == Tier::Quick { 2000 } else { 20000 };
    let mut e = RttEstimator::default();
    let mut r = RefRtte {
        srtt: None,
        rttvar: 0,
        rto: e.retransmission_timeout().as_nanos(),
    };
    let (mut min_s, mut max_s): (Option<u128>, Option<u128>) = (None, None);
    let mut h = FNV_INIT;
    // adversarial alternation mode for some cases
    let alternate = rng.chance(0.2);
    let (alt_a, alt_b) = (gen_sample(&mut rng), gen_sample(&mut rng));
    let tol: u128 = 1_000; // integer truncation differences (ns)
    let mut ops_desc: Vec<String> = Vec::new();
    for i in 0..n_ops {
        let timeout = rng.chance(if alternate { 0.1 } else { 0.3 });
        if timeout {
            let before = e.retransmission_timeout().as_nanos();
            e.on_rto_timeout();
            r.timeout();
            fnv1a(&mut h, &[1]);
            let after = e.retransmission_timeout().as_nanos();
            rep.counters.inc("c16_timeouts_checked");
            let want = (before * 2).clamp(MIN_RTO_NS, MAX_RTO_NS);
            if after != want {
                rep.violate(P, "timeout-not-doubling", "rtte".to_string(), format!("op {i}: RTO {before} ns -> {after} ns on timeout, expected {want} (ops: {:?})", tail(&ops_desc)), None);
            }
            if ops_desc.len() < 64 {
                ops_desc.push("timeout".into());
            }
        } else {
            let s = if alternate {
                if i % 2 == 0 {
                    alt_a
                } else {
                    alt_b
                }
            } else {
                gen_sample(&mut rng)
            };
            e.sample(s);
            r.sample(s.as_nanos());
            fnv1a(&mut h, &s.as_nanos().to_le_bytes());
            let sn = s.as_nanos();
            min_s = Some(min_s.map_or(sn, |m| m.min(sn)));
            max_s = Some(max_s.map_or(sn, |m| m.max(sn)));
            rep.counters.inc("c16_samples_checked");
            if ops_desc.len() < 64 {
                ops_desc.push(format!("sample({s:?})"));
            }
            let got = e.retransmission_timeout().as_nanos();
            if got.abs_diff(r.rto) > tol {
                rep.violate(
                    P,
                    "rto-differs-from-rfc6298",
                    "rtte".to_string(),
                    format!("op {i}: after sample {s:?} RTO is {got} ns, the RFC 6298 reference gives {} ns (srtt {:?} rttvar {}) (ops: {:?})", r.rto, r.srtt, r.rttvar, tail(&ops_desc)),
                    None,
                );
                // resynchronise the reference so that one divergence is reported once
                r.rto = got;
            }
        }
        let rto = e.retransmission_timeout().as_nanos();
        if !(MIN_RTO_NS..=MAX_RTO_NS).contains(&rto) {
            rep.violate(P, "rto-out-of-bounds", "rtte".to_string(), format!("op {i}: RTO {rto} ns outside [200 ms, 60 s] (ops: {:?})", tail(&ops_desc)), None);
        }
        if let (Some(lo), Some(hi)) = (min_s, max_s) {
            let srtt = e.roundtrip_time().as_nanos();
            if srtt + tol < lo || srtt > hi + tol {
                rep.violate(P, "srtt-outside-samples", "rtte".to_string(), format!("op {i}: smoothed RTT {srtt} ns outside the samples seen [{lo}, {hi}] (ops: {:?})", tail(&ops_desc)), None);
            }
        }
    }
    rep.desc = format!("{} ops, alternate={alternate}, first ops: {:?}", n_ops, &ops_desc[..ops_desc.len().min(8)]);
    rep.trace_hash = h;
    rep.nontrivial = true;
    rep
}

fn tail(v: &[String]) -> &[String] {
    &v[v.len().saturating_sub(6)..]
}

// ---------------------------------------------------------------------------------------------
// C15: CUBIC window sanity through the CongestionController trait
// ---------------------------------------------------------------------------------------------

pub fn direct_cubic(ctx: &CaseCtx) -> CaseReport {
    const P: &str = "C15";
    let mut rep = CaseReport::new(ctx.family, ctx.index, ctx.case_seed);
    let mut rng = Prng::new(ctx.case_seed);
    let n_ops = if ctx.tier == Tier::Quick { 1500 } else { 15000 };
    let base = Instant::now();
    let mut now = base;
    let mut mss: usize = *rng.pick(&[1usize, 100, 528, 1212, 1452, 9000]);
    let mut cc = Cubic::new(now, mss);
    let mut rwnd_bytes: usize = *rng.pick(&[0usize, 1, 1000, 65536, 1 << 20, 1 << 30]);
    cc.set_remote_window(rwnd_bytes);
    let mut rwnd_applied = true; // peer window applied since the last set_mss
    let mut rtte = RttEstimator::default();
    let mut h = FNV_INIT;
    let mut hist: Vec<String> = Vec::new();
    macro_rules! note {
        ($($a:tt)*) => {{ let s = format!($($a)*); fnv1a(&mut h, s.as_bytes()); if hist.len() >= 12 { hist.remove(0); } hist.push(s); }};
    }
    let check_bounds = |rep: &mut CaseReport, cc: &Cubic, mss: usize, rwnd_bytes: usize, rwnd_applied: bool, hist: &[String], i: usize| {
        let w = cc.window();
        rep.counters.inc("c15_window_bounds_checked");
        // floor: two segments, or the peer window if smaller (integer truncation: one byte per unit)
        let floor = (2 * mss).min(rwnd_bytes);
        if rwnd_applied {
            if (w as u128) + (mss as u128) + 1 < floor as u128 {
                rep.violate(P, "window-below-floor", "cubic".to_string(), format!("op {i}: window {w} < min(2*{mss}, peer window {rwnd_bytes}) (history {:?})", hist), None);
            }
            if w > rwnd_bytes + 1 {
                rep.violate(P, "window-above-peer-window", "cubic".to_string(), format!("op {i}: window {w} > peer window {rwnd_bytes} (history {:?})", hist), None);
            }
        }
        // finiteness: usize conversion of NaN/inf saturates; a window of usize::MAX is not finite
        if w == usize::MAX {
            rep.violate(P, "window-not-finite", "cubic".to_string(), format!("op {i}: window saturated (history {:?})", hist), None);
        }
    };
    for i in 0..n_ops {
        // time step
        let dt = match rng.below(6) {
            0 => Duration::ZERO,
            1 => Duration::from_micros(rng.log_range(1, 1000)),
            2 | 3 => Duration::from_millis(rng.log_range(1, 2000)),
            4 => Duration::from_secs(rng.log_range(1, 7200)),
            _ => Duration::from_millis(50),
        };
        now += dt;
        let w_before = cc.window();
        let ss_before = cc.sshthresh();
        match rng.below(16) {
            0..=8 => {
                let len = match rng.below(6) {
                    0 => 0,
                    1 => 1,
                    2 | 3 => mss,
                    4 => rng.log_range(1, 10 * mss as u64 + 1) as usize,
                    _ => rng.log_range(1, 1 << 30) as usize,
                };
                // occasionally refresh the RTT estimate with extremes
                if rng.chance(0.1) {
                    rtte.sample(gen_sample(&mut rng));
                }
                note!("ack({len})");
                cc.on_ack(now, len, &rtte);
                let w = cc.window();
                rep.counters.inc("c15_acks_checked");
                // slow start: window below the threshold before the ACK => growth at most len
                if w_before < ss_before && rwnd_applied {
                    rep.counters.inc("c15_slow_start_acks_checked");
                    if w > w_before + len + 2 {
                        rep.violate(P, "slow-start-overgrowth", "cubic".to_string(), format!("op {i}: in slow start (window {w_before} < ssthresh {ss_before}) one ACK of {len} bytes raised the window to {w} (history {:?})", hist), None);
                    }
                }
            }
            9 | 10 => {
                note!("rto");
                cc.on_retransmission_timeout(now);
                rep.counters.inc("c15_loss_events_checked");
                let w = cc.window();
                if rwnd_applied && w > w_before {
                    rep.violate(P, "loss-increases-window", "cubic".to_string(), format!("op {i}: timeout raised the window {w_before} -> {w} (history {:?})", hist), None);
                }
                check_ssthresh(&mut rep, &cc, w_before, mss, rwnd_bytes, rwnd_applied, "timeout", &hist, i);
            }
            11 | 12 => {
                note!("enter_recovery");
                cc.on_enter_recovery(now);
                rep.counters.inc("c15_loss_events_checked");
                let w = cc.window();
                if rwnd_applied && w > w_before {
                    rep.violate(P, "loss-increases-window", "cubic".to_string(), format!("op {i}: recovery entry raised the window {w_before} -> {w} (history {:?})", hist), None);
                }
                check_ssthresh(&mut rep, &cc, w_before, mss, rwnd_bytes, rwnd_applied, "recovery", &hist, i);
                // leave recovery like the dispatcher does
                if rng.chance(0.7) {
                    let cw = cc.sshthresh().min(rng.log_range(1, 1 << 22) as usize + mss);
                    let st = cc.sshthresh();
                    note!("recovered({cw},{st})");
                    cc.on_recovered(cw, st);
                }
            }
            13 => {
                let new_mss = *rng.pick(&[1usize, 2, 100, 528, 991, 1212, 1452, 4000, 9000]);
                if new_mss != mss {
                    let before = cc.window();
                    note!("set_mss({new_mss})");
                    cc.set_mss(new_mss);
                    // The dispatcher applies the peer window *before* it changes the MSS for the same
                    // packet, and sends in that same poll: the upper bound must hold right away.
                    let stale = cc.window();
                    rep.counters.inc("c15_upper_bound_checked_right_after_mss_change");
                    if stale > rwnd_bytes + 1 {
                        rep.violate(
                            P,
                            "window-above-peer-window",
                            "cubic after-mss-change".to_string(),
                            format!("op {i}: right after MSS {mss} -> {new_mss} the window is {stale} bytes, the peer window {rwnd_bytes} (history {:?})", hist),
                            None,
                        );
                    }
                    // the next packet re-applies the peer window
                    cc.set_remote_window(rwnd_bytes);
                    let after = cc.window();
                    rep.counters.inc("c15_mss_changes_checked");
                    let floor_applies = before <= 2 * mss + 1 || after <= 2 * new_mss + 1;
                    let clamp_applies = before + mss >= rwnd_bytes || after + new_mss >= rwnd_bytes;
                    if !floor_applies && !clamp_applies && after.abs_diff(before) > mss.max(new_mss) + 1 {
                        rep.violate(P, "mss-change-resets-window", "cubic".to_string(), format!("op {i}: MSS {mss} -> {new_mss} changed the window {before} -> {after} bytes (history {:?})", hist), None);
                    }
                    mss = new_mss;
                    rwnd_applied = true;
                }
            }
            _ => {
                rwnd_bytes = match rng.below(6) {
                    0 => 0,
                    1 => rng.below(3 * mss as u64 + 1) as usize,
                    2 => 1 << 30,
                    _ => rng.log_range(1, 1 << 24) as usize,
                };
                note!("rwnd({rwnd_bytes})");
                cc.set_remote_window(rwnd_bytes);
                rwnd_applied = true;
            }
        }
        check_bounds(&mut rep, &cc, mss, rwnd_bytes, rwnd_applied, &hist, i);
        if !rep.violations.is_empty() && rep.violations.len() > 4 {
            break;
        }
    }
    rep.desc = format!("{} ops, last: {:?}", n_ops, hist);
    rep.trace_hash = h;
    rep.nontrivial = true;
    rep
}

#[allow(clippy::too_many_arguments)]
fn check_ssthresh(rep: &mut CaseReport, cc: &Cubic, w_before: usize, mss: usize, rwnd_bytes: usize, rwnd_applied: bool, what: &str, hist: &[String], i: usize) {
    const P: &str = "C15";
    if !rwnd_applied {
        return;
    }
    let ss = cc.sshthresh();
    let want = ((w_before as f64) * 0.7).max(2.0 * mss as f64);
    // the trait only shows the clamped previous window: when the peer window (or the two-segment
    // floor) was clamping it, the threshold may legitimately be larger (resp. is the floor)
    let clamped = w_before + mss >= rwnd_bytes;
    let tol = mss as f64 + 2.0;
    let ssf = ss as f64;
    if ssf + tol < want {
        rep.violate(P, "ssthresh-too-small", "cubic".to_string(), format!("op {i}: after {what} ssthresh is {ss}, expected max(0.7 x {w_before}, 2 x {mss}) = {want:.0} (history {:?})", hist), None);
    } else if !clamped && ssf > want + tol && w_before > 2 * mss + 1 {
        rep.violate(P, "ssthresh-too-large", "cubic".to_string(), format!("op {i}: after {what} ssthresh is {ss}, expected max(0.7 x {w_before}, 2 x {mss}) = {want:.0} (history {:?})", hist), None);
    }
}

// ---------------------------------------------------------------------------------------------
// C09 (arithmetic): seq_nr_offset / SeqNr ordering against true modular distance
// ---------------------------------------------------------------------------------------------

fn true_distance(new: u16, old: u16) -> i32 {
    let d = new.wrapping_sub(old);
    if d < 0x8000 {
        d as i32
    } else {
        d as i32 - 0x10000
    }
}

/// One case = one slice of the pair space. In the thorough tier the slices together enumerate
/// all 2^32 pairs; in the quick tier they cover every pair within +-`near` of each other plus
/// random pairs.
pub fn direct_seqnr(ctx: &CaseCtx) -> CaseReport {
    const P: &str = "C09";
    let mut rep = CaseReport::new(ctx.family, ctx.index, ctx.case_seed);
    // distances the configured windows allow: max(rx, tx buffer) / smallest segment size.
    // default configuration: 1 MiB / 528 B = 1986 packets; the library compares with tolerance W.
    let required: i32 = required_distance();
    let check = |rep: &mut CaseReport, a: u16, b: u16| {
        let td = true_distance(a, b);
        if td.abs() > required {
            return false;
        }
        let got = seq_nr_offset(a, b, WRAP_TOLERANCE);
        if got != td as isize {
            rep.violate(
                P,
                "seq-distance-wrong",
                format!("distance {}", if td.abs() > WRAP_TOLERANCE as i32 { "beyond-wrap-tolerance" } else { "within-wrap-tolerance" }),
                format!("seq_nr_offset({a}, {b}) = {got}, true modular distance is {td} (required range +-{required}, WRAP_TOLERANCE {WRAP_TOLERANCE})"),
                None,
            );
        }
        let ord = SeqNr(a).cmp(&SeqNr(b));
        let want = td.cmp(&0);
        if ord != want {
            rep.violate(
                P,
                "seq-order-wrong",
                format!("order {}", if td.abs() > WRAP_TOLERANCE as i32 { "beyond-wrap-tolerance" } else { "within-wrap-tolerance" }),
                format!("SeqNr({a}).cmp(SeqNr({b})) = {ord:?}, true modular distance is {td}"),
                None,
            );
        }
        true
    };
    let mut n = 0u64;
    match ctx.tier {
        Tier::Thorough => {
            // slice = 64 values of `a`, all 65536 values of b
            let a0 = (ctx.index % 1024) as u32 * 64;
            for a in a0..a0 + 64 {
                for b in 0..=u16::MAX {
                    if check(&mut rep, a as u16, b) {
                        n += 1;
                    }
                }
            }
            rep.desc = format!("all pairs with a in {}..{}", a0, a0 + 64);
        }
        Tier::Quick => {
            // slice of 256 values of a, all b within +-required
            let a0 = (ctx.index % 256) as u32 * 256;
            for a in a0..a0 + 256 {
                for d in -required..=required {
                    let b = (a as i32 - d).rem_euclid(65536) as u16;
                    if check(&mut rep, a as u16, b) {
                        n += 1;
                    }
                }
            }
            let mut rng = Prng::new(ctx.case_seed);
            for _ in 0..20000 {
                let a = rng.next_u64() as u16;
                let b = rng.next_u64() as u16;
                if check(&mut rep, a, b) {
                    n += 1;
                }
            }
            rep.desc = format!("pairs with a in {}..{} and |a-b| <= {required}, plus 20000 random pairs", a0, a0 + 256);
        }
    }
    rep.counters.add("c09_pairs_checked", n);
    rep.trace_hash = crate::prng::mix2(ctx.index, 0x5E9);
    rep.nontrivial = n > 0;
    rep
}

/// Largest sequence-number distance checked (what 1 MiB buffers allow down to a 176-byte link MTU).
pub fn required_distance() -> i32 {
    // default buffers (1 MiB) / smallest segment: 1986 packets with the 528-byte IPv4 minimum,
    // 8192 packets with a link MTU of 176 bytes. Checked up to 8192.
    8192
}

// ---------------------------------------------------------------------------------------------
// C11: wire format - differential against the independent codec, round trips, totality
// ---------------------------------------------------------------------------------------------

use librqbit_utp::raw::{selective_ack::SelectiveAck, ext_close_reason::LibTorrentCloseReason, Extensions, Type, UtpHeader};
use librqbit_utp::verif::UtpMessage;

fn type_num(t: Type) -> u8 {
    t as u8
}

fn type_from(n: u8) -> Type {
    match n {
        0 => Type::ST_DATA,
        1 => Type::ST_FIN,
        2 => Type::ST_STATE,
        3 => Type::ST_RESET,
        _ => Type::ST_SYN,
    }
}

/// What the library's header must look like for a byte string, according to the independent
/// parser and the documented normalisations (SACK stored as 64 bits: first min(len, 8) bytes,
/// zero padded, the last SACK extension wins; close reason = extension 3 with length 4).
struct Expect {
    ty: u8,
    conn_id: u16,
    ts: u32,
    ts_diff: u32,
    wnd: u32,
    seq: u16,
    ack: u16,
    sack: Option<([u8; 8], usize)>,
    close_reason: Option<u16>,
    hlen: usize,
}

fn expect_of(buf: &[u8]) -> Option<Expect> {
    let (p, hlen) = crate::wire::parse_header(buf).ok()?;
    let sack = p.exts.iter().rev().find(|e| e.0 == crate::wire::EXT_SACK).map(|e| {
        let mut b = [0u8; 8];
        let n = e.1.len().min(8);
        b[..n].copy_from_slice(&e.1[..n]);
        (b, e.1.len() * 8)
    });
    let close_reason = p
        .exts
        .iter()
        .rev()
        .find(|e| e.0 == crate::wire::EXT_CLOSE_REASON && e.1.len() == 4)
        .map(|e| u32::from_be_bytes([e.1[0], e.1[1], e.1[2], e.1[3]]) as u16);
    Some(Expect {
        ty: p.ty,
        conn_id: p.conn_id,
        ts: p.ts,
        ts_diff: p.ts_diff,
        wnd: p.wnd,
        seq: p.seq,
        ack: p.ack,
        sack,
        close_reason,
        hlen,
    })
}

fn hex(b: &[u8]) -> String {
    let mut s = String::new();
    for x in b.iter().take(80) {
        s.push_str(&format!("{:02x}", x));
    }
    if b.len() > 80 {
        s.push_str("..");
    }
    s
}

fn diff_one(rep: &mut CaseReport, buf: &[u8]) {
    const P: &str = "C11";
    rep.counters.inc("c11_strings_parsed");
    let got = std::panic::catch_unwind(|| UtpHeader::deserialize(buf));
    let got = match got {
        Ok(g) => g,
        Err(_) => {
            rep.violate(P, "parser-panicked", "header".to_string(), format!("UtpHeader::deserialize panicked on {}", hex(buf)), None);
            return;
        }
    };
    let want = expect_of(buf);
    match (&got, &want) {
        (None, None) => {
            rep.counters.inc("c11_rejected_by_both");
        }
        (Some(_), None) => {
            let why = crate::wire::parse_header(buf).err();
            rep.violate(P, "accepts-invalid", format!("header {:?}", why.unwrap()), format!("the library accepts {} which the BEP-29 parser rejects ({:?})", hex(buf), why), None);
        }
        (None, Some(_)) => {
            rep.violate(P, "rejects-valid", "header".to_string(), format!("the library rejects {} which the BEP-29 parser accepts", hex(buf)), None);
        }
        (Some((h, len)), Some(w)) => {
            rep.counters.inc("c11_accepted_by_both");
            let sack_got = h.extensions.selective_ack.map(|s| {
                let mut b = [0u8; 8];
                b.copy_from_slice(s.as_bytes());
                (b, s.len())
            });
            let same = type_num(h.htype) == w.ty
                && h.connection_id.0 == w.conn_id
                && h.timestamp_microseconds == w.ts
                && h.timestamp_difference_microseconds == w.ts_diff
                && h.wnd_size == w.wnd
                && h.seq_nr.0 == w.seq
                && h.ack_nr.0 == w.ack
                && sack_got == w.sack
                && h.extensions.close_reason.map(|c| c.0) == w.close_reason;
            if !same {
                rep.violate(P, "fields-differ", "header".to_string(), format!("fields parsed from {} differ from the BEP-29 parser: library {:?}", hex(buf), h), None);
            }
            if *len != w.hlen {
                rep.violate(P, "payload-boundary-differs", "header".to_string(), format!("header length of {}: library {}, BEP-29 parser {}", hex(buf), len, w.hlen), None);
            }
            // parse -> serialize -> parse: equal except for the documented SACK normalisation
            let mut out = vec![0u8; 20 + 2 + 8 + 2 + 4];
            match h.serialize(&mut out) {
                Ok(n) => {
                    rep.counters.inc("c11_reserialized");
                    match UtpHeader::deserialize(&out[..n]) {
                        Some((h2, n2)) => {
                            let mut hn = *h;
                            // the serializer always writes the 64-bit mask
                            if let Some(s) = hn.extensions.selective_ack {
                                hn.extensions.selective_ack = Some(SelectiveAck::deserialize(s.as_bytes()));
                            }
                            if h2 != hn || n2 != n {
                                rep.violate(P, "reserialize-roundtrip", "header".to_string(), format!("{} parsed, serialised and parsed again gives {:?} (len {n2}) instead of {:?} (len {n})", hex(buf), h2, hn), None);
                            }
                            // and the independent parser must agree with what was written
                            if let Some(w2) = expect_of(&out[..n]) {
                                if w2.hlen != n || w2.ty != type_num(h.htype) || w2.seq != h.seq_nr.0 {
                                    rep.violate(P, "serializer-output-misparsed", "header".to_string(), format!("the BEP-29 parser reads the serialised form of {:?} differently", h), None);
                                }
                            } else {
                                rep.violate(P, "serializer-output-invalid", "header".to_string(), format!("the BEP-29 parser rejects the serialised form of {:?}: {}", h, hex(&out[..n])), None);
                            }
                        }
                        None => rep.violate(P, "reserialize-roundtrip", "header".to_string(), format!("the serialised form of {:?} is rejected by the library's own parser", h), None),
                    }
                }
                Err(e) => rep.violate(P, "serialize-failed", "header".to_string(), format!("serialising {:?} failed: {e}", h), None),
            }
        }
    }
    // message level: payload present exactly for data packets
    let gm = std::panic::catch_unwind(|| UtpMessage::deserialize(buf));
    match gm {
        Err(_) => rep.violate(P, "parser-panicked", "message".to_string(), format!("UtpMessage::deserialize panicked on {}", hex(buf)), None),
        Ok(gm) => {
            let wm = crate::wire::parse(buf);
            match (gm, wm) {
                (None, None) => {}
                (Some(m), Some(w)) => {
                    rep.counters.inc("c11_messages_accepted_by_both");
                    if m.payload() != w.payload.as_slice() {
                        rep.violate(P, "payload-boundary-differs", "message".to_string(), format!("payload of {}: library {} bytes, BEP-29 parser {} bytes", hex(buf), m.payload().len(), w.payload.len()), None);
                    }
                }
                (Some(m), None) => rep.violate(P, "accepts-invalid", "message payload-rule".to_string(), format!("the library accepts message {} (type {:?}, payload {} bytes) which violates the payload rules", hex(buf), m.header.htype, m.payload().len()), None),
                (None, Some(w)) => rep.violate(P, "rejects-valid", "message".to_string(), format!("the library rejects message {} ({}) which the BEP-29 parser accepts", hex(buf), w.short()), None),
            }
        }
    }
}

fn base_header(rng: &mut Prng, typever: u8) -> Vec<u8> {
    let mut b = vec![0u8; 20];
    b[0] = typever;
    for x in b[2..20].iter_mut() {
        *x = rng.next_u64() as u8;
    }
    b
}

const EXT_IDS: [u8; 4] = [1, 2, 3, 255];
const EXT_LENS: [u8; 8] = [0, 1, 3, 4, 5, 8, 9, 255];

fn build_with_chain(rng: &mut Prng, typever: u8, chain: &[(u8, u8)], payload: usize) -> Vec<u8> {
    let mut b = base_header(rng, typever);
    b[1] = chain.first().map(|c| c.0).unwrap_or(0);
    for (i, (_, len)) in chain.iter().enumerate() {
        b.push(chain.get(i + 1).map(|c| c.0).unwrap_or(0));
        b.push(*len);
        for _ in 0..*len {
            b.push(rng.next_u64() as u8);
        }
    }
    for _ in 0..payload {
        b.push(rng.next_u64() as u8);
    }
    b
}

/// One case = one (type nibble, version nibble) pair: all extension chains up to depth 2 over
/// the id / length grids (depth 3 and 4 sampled), three payload sizes, every truncation point.
pub fn direct_wire_grid(ctx: &CaseCtx) -> CaseReport {
    let mut rep = CaseReport::new(ctx.family, ctx.index, ctx.case_seed);
    let mut rng = Prng::new(ctx.case_seed);
    let typever = (ctx.index % 256) as u8;
    let mut chains: Vec<Vec<(u8, u8)>> = vec![vec![]];
    for &i1 in &EXT_IDS {
        for &l1 in &EXT_LENS {
            chains.push(vec![(i1, l1)]);
            for &i2 in &EXT_IDS {
                for &l2 in &EXT_LENS {
                    chains.push(vec![(i1, l1), (i2, l2)]);
                }
            }
        }
    }
    let deep = if ctx.tier == Tier::Quick { 200 } else { 4000 };
    for _ in 0..deep {
        let d = rng.range(3, 4) as usize;
        chains.push((0..d).map(|_| (*rng.pick(&EXT_IDS), *rng.pick(&EXT_LENS))).collect());
    }
    for chain in &chains {
        for payload in [0usize, 1, 5] {
            let full = build_with_chain(&mut rng, typever, chain, payload);
            // every truncation point around the structure, all of them for short strings
            let n = full.len();
            if n <= 64 {
                for cut in 0..=n {
                    diff_one(&mut rep, &full[..cut]);
                }
            } else {
                diff_one(&mut rep, &full);
                for _ in 0..12 {
                    let cut = rng.below(n as u64 + 1) as usize;
                    diff_one(&mut rep, &full[..cut]);
                }
                for cut in [19usize, 20, 21, 22, 23] {
                    diff_one(&mut rep, &full[..cut.min(n)]);
                }
            }
        }
        if rep.violations.len() > 8 {
            break;
        }
    }
    rep.desc = format!("type nibble {} version nibble {}: {} extension chains x 3 payload sizes x truncation points", typever >> 4, typever & 15, chains.len());
    rep.trace_hash = crate::prng::mix2(typever as u64, 0xC11);
    rep.nontrivial = true;
    rep
}

/// Random byte strings, random mutations of valid packets, and header round trips.
pub fn direct_wire_random(ctx: &CaseCtx) -> CaseReport {
    let n = if ctx.tier == Tier::Quick { 3000 } else { 30000 };
    direct_wire_random_n(ctx, n)
}

/// `n` strings / mutations / header values (small `n` for the Miri pass).
pub fn direct_wire_random_n(ctx: &CaseCtx, n: usize) -> CaseReport {
    const P: &str = "C11";
    let mut rep = CaseReport::new(ctx.family, ctx.index, ctx.case_seed);
    let mut rng = Prng::new(ctx.case_seed);
    let mut h = FNV_INIT;
    for _ in 0..n {
        match rng.below(4) {
            0 => {
                let len = rng.below(70) as usize;
                let mut b = rng.bytes(len);
                if !b.is_empty() && rng.chance(0.7) {
                    b[0] = ((rng.below(6) as u8) << 4) | 1;
                }
                fnv1a(&mut h, &b);
                diff_one(&mut rep, &b);
            }
            1 => {
                // a valid packet with random single-byte mutations
                let ty = rng.below(5) as u8;
                let chain: Vec<(u8, u8)> = (0..rng.below(3)).map(|_| (*rng.pick(&[1u8, 3, 2]), *rng.pick(&[1u8, 4, 8, 32]))).collect();
                let plen = if ty == 0 { rng.range(1, 40) as usize } else { 0 };
                let mut b = build_with_chain(&mut rng, (ty << 4) | 1, &chain, plen);
                for _ in 0..rng.below(3) {
                    let i = rng.below(b.len() as u64) as usize;
                    b[i] = rng.next_u64() as u8;
                }
                fnv1a(&mut h, &b);
                diff_one(&mut rep, &b);
            }
            _ => {
                // header value -> serialize -> parse round trip (image of the serializer:
                // SACK absent or 8 bytes, close reason absent or present)
                let mut hd = UtpHeader::default();
                hd.htype = type_from(rng.below(5) as u8);
                hd.connection_id = SeqNr(rng.next_u64() as u16);
                hd.timestamp_microseconds = rng.next_u64() as u32;
                hd.timestamp_difference_microseconds = rng.next_u64() as u32;
                hd.wnd_size = *rng.pick(&[0u32, 1, u32::MAX, 0x8000_0000]) ^ if rng.chance(0.5) { rng.next_u64() as u32 } else { 0 };
                hd.seq_nr = SeqNr(rng.next_u64() as u16);
                hd.ack_nr = SeqNr(rng.next_u64() as u16);
                hd.extensions = Extensions {
                    selective_ack: if rng.chance(0.5) { Some(SelectiveAck::deserialize(&rng.bytes(8))) } else { None },
                    close_reason: if rng.chance(0.3) { Some(LibTorrentCloseReason(rng.next_u64() as u16)) } else { None },
                };
                let mut out = vec![0u8; 64];
                rep.counters.inc("c11_header_roundtrips");
                match hd.serialize(&mut out) {
                    Ok(len) => {
                        fnv1a(&mut h, &out[..len]);
                        match UtpHeader::deserialize(&out[..len]) {
                            Some((h2, l2)) => {
                                if h2 != hd || l2 != len {
                                    rep.violate(P, "roundtrip", "header".to_string(), format!("{:?} serialises to {} which parses back to {:?} (len {l2} vs {len})", hd, hex(&out[..len]), h2), None);
                                }
                            }
                            None => rep.violate(P, "roundtrip", "header".to_string(), format!("{:?} serialises to {} which the library's parser rejects", hd, hex(&out[..len])), None),
                        }
                        // the independent parser reads the same fields
                        match crate::wire::parse_header(&out[..len]) {
                            Ok((p, hl)) => {
                                if hl != len || p.ver != 1 || p.ty != type_num(hd.htype) || p.conn_id != hd.connection_id.0 || p.seq != hd.seq_nr.0 || p.ack != hd.ack_nr.0 || p.wnd != hd.wnd_size || p.ts != hd.timestamp_microseconds || p.ts_diff != hd.timestamp_difference_microseconds {
                                    rep.violate(P, "serializer-output-misparsed", "header".to_string(), format!("the BEP-29 parser reads {} (serialised {:?}) as {}", hex(&out[..len]), hd, p.short()), None);
                                }
                                let sack_ok = match (hd.extensions.selective_ack, p.sack()) {
                                    (None, None) => true,
                                    (Some(s), Some(b)) => s.as_bytes() == b,
                                    _ => false,
                                };
                                if !sack_ok {
                                    rep.violate(P, "serializer-output-misparsed", "sack".to_string(), format!("selective ACK of {:?} is not what the BEP-29 parser reads from {}", hd, hex(&out[..len])), None);
                                }
                            }
                            Err(e) => rep.violate(P, "serializer-output-invalid", "header".to_string(), format!("the BEP-29 parser rejects {} (serialised {:?}): {e:?}", hex(&out[..len]), hd), None),
                        }
                        // also through the differential path
                        diff_one(&mut rep, &out[..len]);
                    }
                    Err(e) => rep.violate(P, "serialize-failed", "header".to_string(), format!("serialising {:?} failed: {e}", hd), None),
                }
            }
        }
        if rep.violations.len() > 8 {
            break;
        }
    }
    rep.desc = format!("{n} random strings / mutated packets / header round trips");
    rep.trace_hash = h;
    rep.nontrivial = true;
    rep
}
