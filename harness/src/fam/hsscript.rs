//! `handshake` family: one real socket against the scripted peer, both roles; generated bounded
//! sequences of peer packets, application actions and clock advances, starting from each
//! handshake / teardown state (reached by a scripted prefix).
use std::{sync::Arc, time::Duration};

use librqbit_utp::{UtpStreamReadHalf, UtpStreamWriteHalf};

use crate::{
    app::{api_drop_reader, api_drop_writer, api_read, api_shutdown, api_write, gen_vec, stream_key, ApiCtx},
    events::{Us, MS, SEC},
    peer::Peer,
    prng::Prng,
    sim::{run_case, v4, v6, CaseRun, FaultPlan, SockCfg, World},
    wire::{self, Pkt},
};

#[derive(Clone, Debug, PartialEq)]
pub enum Act {
    // peer packets
    /// next in-order data packet of the peer's stream
    PeerData,
    /// a data packet `k` sequence numbers ahead of the next expected one
    PeerDataAhead(u16),
    /// a duplicate of the last in-order data packet
    PeerDataDup,
    /// acknowledge everything the real endpoint has sent so far (data and FIN)
    PeerAckAll,
    /// acknowledge only data, not a FIN
    PeerAckDataOnly,
    /// acknowledge every data packet received except the newest one (as if that one - typically a
    /// size probe - had been lost), and no FIN
    PeerAckButNewestData,
    /// FIN with the next expected sequence number
    PeerFin,
    /// FIN `k` sequence numbers ahead
    PeerFinAhead(u16),
    PeerReset,
    /// a second SYN
    PeerSyn,
    /// ST_STATE whose seq_nr is one ahead and which acknowledges the endpoint's FIN
    /// (what some clients send instead of FIN)
    PeerStateAsFin,
    /// a datagram with this connection's identifiers and absurd fields / malformed bytes (C10);
    /// the value seeds its construction
    PeerHostile(u64),
    // application actions on the real endpoint
    Write(usize),
    Shutdown,
    DropReader,
    DropWriter,
    ReadSome,
    // time
    Advance(Us),
}

#[derive(Clone, Debug)]
pub struct HsCfg {
    pub ipv6: bool,
    pub sock: SockCfg,
    pub real_initiates: bool,
    pub peer_isn: u16,
    pub peer_conn_id: u16,
    /// the initiating peer sends its SYN and then nothing (SYN-ACK retransmission rule)
    pub silent_initiator: bool,
    pub script: Vec<Act>,
    pub tail: Us,
    /// the real socket's transport refuses a datagram now and then (send returns Pending):
    /// (probability per send, shortest, longest blockage). The script waits out a blockage before
    /// its next step, so that only the endpoint's own emissions are delayed, not its processing.
    pub pending: Option<(f64, Us, Us)>,
}

impl HsCfg {
    pub fn describe(&self) -> String {
        format!(
            "{} sock[{}] role={} peer_isn={} silent_initiator={} pending={:?} script={:?} tail={}us",
            if self.ipv6 { "v6" } else { "v4" },
            self.sock.describe(),
            if self.real_initiates { "real-connects" } else { "real-accepts" },
            self.peer_isn,
            self.silent_initiator,
            self.pending,
            self.script,
            self.tail
        )
    }
}

#[derive(Default)]
pub struct HsOutcome {
    pub connected: bool,
    pub ended_at: Us,
}

pub const REAL_PORT: u16 = 7007;
pub const PEER_PORT: u16 = 8008;

pub async fn hs_scenario(world: Arc<World>, cfg: HsCfg, case_seed: u64) -> HsOutcome {
    let mut out = HsOutcome::default();
    let (ra, pa) = if cfg.ipv6 { (v6(REAL_PORT), v6(PEER_PORT)) } else { (v4(REAL_PORT), v4(PEER_PORT)) };
    let sock = world.socket(ra, &cfg.sock);
    let key = stream_key(case_seed, 0, 0);
    let pkey = stream_key(case_seed, 0, 1);
    let ctx = || ApiCtx { log: world.log.clone(), conn: 0, side: 0 };
    if cfg.silent_initiator {
        // the peer sends a SYN and never speaks again; the accepted stream must fail
        world.net.register(pa);
        let s2 = sock.sock.clone();
        let log = world.log.clone();
        let h = tokio::spawn(async move {
            log.api(0, 0, crate::events::ApiOp::AcceptCall);
            let r = s2.accept().await;
            log.api(0, 0, crate::events::ApiOp::AcceptRet(r.as_ref().map(|s| s.remote_addr()).map_err(|e| e.to_string())));
            r.ok()
        });
        world.step().await;
        let syn = Pkt::new(wire::ST_SYN, cfg.peer_conn_id, cfg.peer_isn, 0, 0);
        let _ = world.net.send(None, pa, ra, syn.encode(), true);
        world.step().await;
        if let Ok(Some(stream)) = h.await {
            out.connected = true;
            let (mut r, w) = stream.split();
            let c = ctx();
            // a pending read must end with an error when the handshake gives up
            let mut buf = [0u8; 16];
            let _ = tokio::time::timeout(Duration::from_secs(30), api_read(&c, &mut r, &mut buf)).await;
            world.sleep_us(cfg.tail).await;
            api_drop_reader(&c, r);
            api_drop_writer(&c, w);
        }
        out.ended_at = world.now();
        drop(sock);
        return out;
    }
    let hs = if cfg.real_initiates {
        Peer::accept_from(world.clone(), pa, &sock, cfg.peer_isn, 1 << 20, 0).await
    } else {
        Peer::connect_to(world.clone(), pa, &sock, cfg.peer_conn_id, cfg.peer_isn, 0).await
    };
    let (mut peer, stream) = match hs {
        Some(x) => x,
        None => return out,
    };
    out.connected = true;
    let (r, w) = stream.split();
    let mut reader: Option<UtpStreamReadHalf> = Some(r);
    let mut writer: Option<UtpStreamWriteHalf> = Some(w);
    let mut shutdown_task: Option<tokio::task::JoinHandle<()>> = None;
    if !cfg.real_initiates {
        // the accepting side needs to hear from the initiator first
        let p = peer.state_pkt(1 << 20, false);
        peer.send(p);
        world.step().await;
    }
    let mut written: u64 = 0;
    let mut peer_sent: u32 = 0; // data packets of the peer's stream sent in order
    let mut peer_off: u64 = 0;
    for act in &cfg.script {
        peer.drain(|_, _, _| true);
        if cfg.pending.is_some() {
            loop {
                // let the endpoint run first: at the instant a blockage ends it retries, and may
                // be refused again
                world.step().await;
                let u = world.net.blocked_until(ra);
                let now = world.now();
                // strictly in the past: the retry at the instant the blockage ended has happened
                // (and, had it been refused, the blockage would have been extended)
                if u < now {
                    break;
                }
                world.sleep_us(u - now).await;
                peer.drain(|_, _, _| true);
            }
        }
        match act {
            Act::PeerData => {
                let len = 1 + (peer_sent as usize * 37) % 400;
                let p = peer.data_pkt(pkey, peer_sent, peer_off, len, 1 << 20);
                peer.send(p);
                peer_sent += 1;
                peer_off += len as u64;
                peer.next_seq = peer.first_seq.wrapping_add(peer_sent as u16);
            }
            Act::PeerDataAhead(k) => {
                let p = Pkt::new(wire::ST_DATA, peer.id_send, peer.first_seq.wrapping_add(peer_sent as u16).wrapping_add(*k), peer.ack_nr(), 1 << 20).with_payload(vec![0xAB; 10]);
                peer.send(p);
            }
            Act::PeerDataDup => {
                if peer_sent > 0 {
                    let p = Pkt::new(wire::ST_DATA, peer.id_send, peer.first_seq.wrapping_add(peer_sent as u16 - 1), peer.ack_nr(), 1 << 20).with_payload(vec![0xCD; 5]);
                    peer.send(p);
                }
            }
            Act::PeerAckAll => {
                let p = peer.state_pkt(1 << 20, true);
                peer.send(p);
            }
            Act::PeerAckDataOnly => {
                let mut p = peer.state_pkt(1 << 20, true);
                if let Some(f) = peer.remote_fin_idx {
                    if peer.contiguous() >= f {
                        p.ack = peer.rseq(f - 1);
                    }
                }
                peer.send(p);
            }
            Act::PeerAckButNewestData => {
                let mut p = peer.state_pkt(1 << 20, false);
                // highest data index received
                let newest = peer.received.keys().next_back().copied();
                if let Some(nw) = newest {
                    let upto = peer.contiguous().min(nw - 1);
                    p.ack = if upto >= 0 { peer.rseq(upto) } else { peer.rseq(0).wrapping_sub(1) };
                }
                peer.send(p);
            }
            Act::PeerFin => {
                let p = Pkt::new(wire::ST_FIN, peer.id_send, peer.first_seq.wrapping_add(peer_sent as u16), peer.ack_nr(), 1 << 20);
                peer.send(p);
            }
            Act::PeerFinAhead(k) => {
                let p = Pkt::new(wire::ST_FIN, peer.id_send, peer.first_seq.wrapping_add(peer_sent as u16).wrapping_add(*k), peer.ack_nr(), 1 << 20);
                peer.send(p);
            }
            Act::PeerReset => {
                let p = Pkt::new(wire::ST_RESET, peer.id_send, peer.next_seq, peer.ack_nr(), 0);
                peer.send(p);
            }
            Act::PeerSyn => {
                let id = if cfg.real_initiates { peer.id_send } else { peer.id_send.wrapping_sub(1) };
                let p = Pkt::new(wire::ST_SYN, id, cfg.peer_isn, 0, 0);
                peer.send(p);
            }
            Act::PeerStateAsFin => {
                let mut p = peer.state_pkt(1 << 20, false);
                p.seq = peer.first_seq.wrapping_add(peer_sent as u16);
                peer.send(p);
            }
            Act::PeerHostile(seed) => {
                use crate::fam::hostile::{weird_exts, weird_payload, weird_u16};
                let mut r = Prng::new(*seed);
                let mut q = Pkt::new(
                    *r.pick(&[wire::ST_DATA, wire::ST_DATA, wire::ST_STATE, wire::ST_STATE, wire::ST_FIN, wire::ST_RESET, wire::ST_SYN]),
                    peer.id_send,
                    weird_u16(&mut r, peer.first_seq.wrapping_add(peer_sent as u16)),
                    weird_u16(&mut r, peer.ack_nr()),
                    0,
                );
                if r.chance(0.1) {
                    // RESET and SYN far less often than the rest: they end the walk early
                    q.ty = *r.pick(&[wire::ST_DATA, wire::ST_STATE]);
                }
                let rnd = r.next_u64() as u32;
                q.wnd = *r.pick(&[1u32 << 20, 1 << 20, 0, 1, 0xffff_ffff, 0x7fff_ffff, rnd]);
                q.exts = weird_exts(&mut r);
                q.payload = if q.ty == wire::ST_DATA || r.chance(0.3) { weird_payload(&mut r) } else { Vec::new() };
                let mut bytes = q.encode();
                match r.below(10) {
                    0 => {
                        let cut = r.below(bytes.len() as u64 + 1) as usize;
                        bytes.truncate(cut);
                    }
                    1 => bytes[0] = r.next_u64() as u8,
                    2 => {
                        bytes.truncate(20);
                        bytes[1] = *r.pick(&[1u8, 2, 0xff]);
                        for _ in 0..r.range(1, 40) {
                            bytes.push(r.next_u64() as u8);
                        }
                    }
                    _ => {}
                }
                peer.send_raw(bytes);
            }
            Act::Write(n) => {
                if let Some(w) = writer.as_mut() {
                    let buf = gen_vec(key, written, *n);
                    let c = ctx();
                    // a write may block (window, buffer): bound it to the step
                    if let Ok(Ok(k)) = tokio::time::timeout(Duration::from_millis(1), api_write(&c, w, &buf)).await {
                        written += k as u64;
                    }
                }
            }
            Act::Shutdown => {
                if shutdown_task.is_none() {
                    if let Some(mut w) = writer.take() {
                        let c = ctx();
                        shutdown_task = Some(tokio::spawn(async move {
                            let _ = api_shutdown(&c, &mut w).await;
                            api_drop_writer(&c, w);
                        }));
                    }
                }
            }
            Act::DropReader => {
                if let Some(r) = reader.take() {
                    api_drop_reader(&ctx(), r);
                }
            }
            Act::DropWriter => {
                if let Some(w) = writer.take() {
                    api_drop_writer(&ctx(), w);
                }
            }
            Act::ReadSome => {
                if let Some(r) = reader.as_mut() {
                    let mut buf = vec![0u8; 4096];
                    let c = ctx();
                    let _ = tokio::time::timeout(Duration::from_millis(1), api_read(&c, r, &mut buf)).await;
                }
            }
            Act::Advance(us) => {
                world.sleep_us(*us).await;
            }
        }
        world.step().await;
    }
    peer.drain(|_, _, _| true);
    world.sleep_us(cfg.tail).await;
    peer.drain(|_, _, _| true);
    if let Some(r) = reader.take() {
        api_drop_reader(&ctx(), r);
    }
    if let Some(w) = writer.take() {
        api_drop_writer(&ctx(), w);
    }
    world.sleep_us(2 * SEC).await;
    if let Some(h) = shutdown_task {
        h.abort();
    }
    out.ended_at = world.now();
    drop(sock);
    out
}

pub fn run_hs(case_seed: u64, cfg: &HsCfg, keep_snapshots: bool) -> CaseRun<HsOutcome> {
    let cfg2 = cfg.clone();
    let mut plan = FaultPlan::perfect(case_seed);
    if let Some((p, lo, hi)) = cfg.pending {
        plan.pending_prob = p;
        plan.pending_for = (lo, hi);
    }
    run_case(case_seed, Duration::from_secs(600), keep_snapshots, plan, move |w| hs_scenario(w, cfg2, case_seed))
}

/// C10 variant: the same walks, longer, with hostile peer datagrams mixed in.
pub fn generate_hostile(case_seed: u64) -> HsCfg {
    let mut cfg = generate(case_seed);
    cfg.silent_initiator = false;
    let mut rng = Prng::new(case_seed ^ 0x4057);
    if rng.chance(0.3) {
        cfg.sock.rx_buf = Some(*rng.pick(&[2000usize, 10_000, 70_000]));
    }
    let extra = rng.range(5, 40);
    for _ in 0..extra {
        let a = match rng.below(10) {
            0..=5 => Act::PeerHostile(rng.next_u64()),
            6 => Act::PeerAckAll,
            7 => Act::PeerData,
            8 => Act::Write(rng.log_range(1, 5000) as usize),
            _ => Act::Advance(*rng.pick(&[1u64, 45, 250, 700]) * MS),
        };
        let pos = rng.below(cfg.script.len() as u64 + 1) as usize;
        cfg.script.insert(pos, a);
    }
    cfg
}

pub fn generate(case_seed: u64) -> HsCfg {
    let mut rng = Prng::new(case_seed);
    let ipv6 = rng.chance(0.2);
    let mut sock = SockCfg::default();
    sock.dont_wait_for_lastack = rng.chance(0.3);
    if rng.chance(0.3) {
        sock.max_retransmissions = Some(*rng.pick(&[1usize, 2, 3, 7]));
    }
    let real_initiates = rng.chance(0.5);
    let silent_initiator = !real_initiates && rng.chance(0.12);
    // prefix: reach a state
    let mut script: Vec<Act> = Vec::new();
    match rng.below(12) {
        0 => {} // established, nothing exchanged
        9 | 10 | 11 => {
            // as 8, with sizes aligned to the segment grid so that the buffer is cut completely and
            // the size probe is the last segment, behind ordinary ones, when the application closes
            // (whole segments before, exactly one probe's worth at the end; Nagle off)
            sock.disable_nagle = true;
            sock.link_mtu = None;
            let ipv4 = !ipv6;
            let minp = sock.min_payload(ipv4);
            let maxp = sock.max_payload(ipv4);
            let probe = (minp + (maxp - minp) / 2 + 1).min(maxp);
            for _ in 0..rng.range(0, 4) {
                script.push(Act::Write(minp * rng.range(1, 2) as usize));
                script.push(Act::PeerAckAll);
            }
            script.push(Act::Write(minp * rng.range(0, 4) as usize + probe));
            script.push(if rng.chance(0.5) { Act::Shutdown } else { Act::DropWriter });
            if rng.chance(0.4) {
                script.push(Act::DropReader);
            }
            script.push(Act::PeerAckButNewestData);
            for _ in 0..rng.range(2, 5) {
                script.push(Act::Advance(*rng.pick(&[250u64, 450, 900, 2000]) * MS));
                if rng.chance(0.5) {
                    script.push(Act::PeerAckButNewestData);
                }
            }
            script.push(Act::PeerAckAll);
            script.push(Act::Advance(500 * MS));
            script.push(Act::PeerAckAll);
        }
        8 => {
            // the application closes with a size probe and at least one segment before it
            // unacknowledged; the peer then acknowledges everything but the probe (lost on a path
            // that does not carry it) and the probe's timer has to expire before the FIN can go
            for _ in 0..rng.range(0, 3) {
                script.push(Act::Write(rng.range(300, 1200) as usize));
                script.push(Act::PeerAckAll);
            }
            script.push(Act::Write(rng.range(1100, 3200) as usize));
            script.push(if rng.chance(0.5) { Act::Shutdown } else { Act::DropWriter });
            if rng.chance(0.4) {
                script.push(Act::DropReader);
            }
            script.push(Act::PeerAckButNewestData);
            for _ in 0..rng.range(1, 4) {
                script.push(Act::Advance(*rng.pick(&[250u64, 450, 900, 2000]) * MS));
                if rng.chance(0.5) {
                    script.push(Act::PeerAckButNewestData);
                }
            }
            if rng.chance(0.6) {
                script.push(Act::PeerAckAll);
            }
        }
        7 => {
            // the application closes while a retransmission timeout is being recovered from:
            // several segments outstanding, the timer fires (once or more), then the close
            // (everything must have been transmitted once for the close to proceed, so the
            // congestion window is opened first by a few acknowledged writes)
            // and Nagle is mostly off: a held-back tail counts as data still to be sent)
            sock.disable_nagle = rng.chance(0.8);
            for _ in 0..rng.range(2, 6) {
                script.push(Act::Write(rng.range(1500, 4000) as usize));
                script.push(Act::PeerAckAll);
            }
            script.push(Act::Write(rng.range(1100, 3500) as usize));
            script.push(Act::Advance(*rng.pick(&[250u64, 350, 700, 1100, 3200]) * MS));
            script.push(if rng.chance(0.5) { Act::Shutdown } else { Act::DropWriter });
            if rng.chance(0.3) {
                script.push(Act::DropReader);
            }
            script.push(Act::Advance(*rng.pick(&[1u64, 45, 700, 3000]) * MS));
        }
        1 => {
            // established with traffic both ways
            script.push(Act::Write(rng.range(1, 3000) as usize));
            script.push(Act::PeerAckAll);
            script.push(Act::PeerData);
        }
        2 => {
            // fin-wait-1: the application closes
            script.push(Act::Write(rng.range(1, 1500) as usize));
            script.push(if rng.chance(0.5) { Act::Shutdown } else { Act::DropWriter });
            if rng.chance(0.5) {
                script.push(Act::DropReader);
            }
        }
        3 => {
            // fin-wait-2: the peer acknowledges our FIN
            script.push(Act::Write(rng.range(1, 500) as usize));
            script.push(Act::PeerAckAll);
            script.push(Act::Shutdown);
            script.push(Act::PeerAckAll);
        }
        4 => {
            // last-ack: the peer closes first
            script.push(Act::PeerData);
            script.push(Act::PeerFin);
        }
        5 => {
            // simultaneous close
            script.push(Act::Shutdown);
            script.push(Act::PeerFin);
        }
        _ => {
            // data in flight, unacknowledged
            script.push(Act::Write(rng.range(500, 6000) as usize));
        }
    }
    let n = rng.range(2, 10);
    for _ in 0..n {
        let a = match rng.below(22) {
            0 | 1 => Act::PeerData,
            2 => Act::PeerDataAhead(rng.range(1, 5) as u16),
            3 => Act::PeerDataDup,
            4 | 5 | 6 => Act::PeerAckAll,
            7 => Act::PeerAckDataOnly,
            8 | 9 => Act::PeerFin,
            10 => Act::PeerFinAhead(rng.range(1, 4) as u16),
            11 => Act::PeerReset,
            12 => Act::PeerSyn,
            13 => Act::PeerStateAsFin,
            14 | 15 => Act::Write(rng.log_range(1, 5000) as usize),
            16 => Act::Shutdown,
            17 => Act::DropReader,
            18 => Act::DropWriter,
            19 => Act::ReadSome,
            _ => Act::Advance(*rng.pick(&[1u64, 45, 250, 700, 1200, 3000]) * MS),
        };
        script.push(a);
    }
    HsCfg {
        ipv6,
        sock,
        real_initiates,
        peer_isn: if rng.chance(0.3) { 65535u16.wrapping_sub(rng.below(20) as u16) } else { rng.below(65536) as u16 },
        peer_conn_id: rng.below(65536) as u16,
        silent_initiator,
        script,
        tail: *rng.pick(&[300u64, 1500, 4000]) * MS,
        pending: {
            let mut a = Prng::new(case_seed ^ 0xB10C_4ED);
            if !silent_initiator && a.chance(0.2) {
                Some((*a.pick(&[0.05, 0.2, 0.5]), MS, *a.pick(&[1u64, 5, 30, 120]) * MS))
            } else {
                None
            }
        },
    }
}
