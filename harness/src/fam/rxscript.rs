//! `rx_script` family: one real socket receives, the scripted peer sends data packets in a
//! generated arrival pattern (in order, shuffled within a window, duplicated, far beyond the
//! reassembly window, after FIN), with generated inter-arrival times and reader behaviour.
use std::{sync::Arc, time::Duration};

use crate::{
    app::{api_drop_writer, api_shutdown, api_write, gen_vec, run_reader, stream_key, ApiCtx, ReaderPlan, ReaderStop},
    events::{Ev, Us, MS, SEC},
    peer::Peer,
    prng::Prng,
    sim::{run_case, v4, v6, CaseRun, FaultPlan, SockCfg, World},
    wire::{self, Pkt},
};

#[derive(Clone, Debug, PartialEq)]
pub enum Action {
    /// send data packet `idx` of the peer's stream
    Data(u32),
    Fin,
    Wait(Us),
    /// the real endpoint's application shuts its writer down (its FIN goes out; the peer keeps
    /// sending: the half-closed states FinWait1/FinWait2)
    LocalShutdown,
    /// after the peer's FIN: another FIN carrying this (later) sequence index
    FinAt(u32),
}

/// What the scripted peer does after its FIN was sent in sequence.
#[derive(Clone, Debug)]
pub struct AfterFin {
    /// false: the peer never acknowledges the real endpoint's FIN, which therefore stays in its
    /// last-ACK state while the packets below arrive
    pub ack_our_fin: bool,
    /// Data(idx) with idx > number of packets: data numbered after the FIN; Data(idx) below: an old
    /// duplicate; Fin: another copy of the FIN
    pub acts: Vec<Action>,
}

#[derive(Clone, Debug)]
pub struct RxCfg {
    pub ipv6: bool,
    pub sock: SockCfg,
    pub real_initiates: bool,
    pub peer_isn: u16,
    pub peer_conn_id: u16,
    pub reader: ReaderPlan,
    /// payload length of every data packet of the peer's stream
    pub lens: Vec<usize>,
    pub script: Vec<Action>,
    /// the peer sends a packet only while the bytes beyond the real endpoint's cumulative ACK fit
    /// the window it last advertised
    pub respect_window: bool,
    /// after the script, missing packets are re-sent until everything is acknowledged, then FIN
    pub complete: bool,
    pub fin: bool,
    /// bytes the real endpoint's application writes at the start (acknowledged by the peer)
    pub a_writes: usize,
    pub limit: Us,
    pub keep_snapshots: bool,
    pub after_fin: Option<AfterFin>,
    /// the real socket's transport refuses a datagram now and then (send returns Pending: a full
    /// UDP send buffer): (probability per send, shortest, longest blockage)
    pub pending: Option<(f64, Us, Us)>,
}

impl RxCfg {
    pub fn describe(&self) -> String {
        let mut acts = String::new();
        for a in self.script.iter().take(40) {
            match a {
                Action::Data(i) => acts.push_str(&format!("D{} ", i)),
                Action::Fin => acts.push_str("FIN "),
                Action::Wait(us) => acts.push_str(&format!("w{}ms ", us / MS)),
                Action::LocalShutdown => acts.push_str("LOCAL-SHUTDOWN "),
                Action::FinAt(i) => acts.push_str(&format!("FIN@{} ", i)),
            }
        }
        let mut after = String::new();
        if let Some(af) = &self.after_fin {
            after.push_str(&format!(" after_fin(ack_our_fin={})=[", af.ack_our_fin));
            for a in &af.acts {
                match a {
                    Action::Data(i) => after.push_str(&format!("D{} ", i)),
                    Action::Fin => after.push_str("FIN "),
                    Action::Wait(us) => after.push_str(&format!("w{}ms ", us / MS)),
                    Action::FinAt(i) => after.push_str(&format!("FIN@{} ", i)),
                    Action::LocalShutdown => {}
                }
            }
            after.push(']');
        }
        format!(
            "{} sock[{}] role={} peer_isn={} reader[{}] pkts={} lens(first)={:?} respect_window={} complete={} fin={} a_writes={} pending={:?} script({} actions)=[{}{}]{after}",
            if self.ipv6 { "v6" } else { "v4" },
            self.sock.describe(),
            if self.real_initiates { "real-connects" } else { "real-accepts" },
            self.peer_isn,
            self.reader.describe(),
            self.lens.len(),
            &self.lens[..self.lens.len().min(6)],
            self.respect_window,
            self.complete,
            self.fin,
            self.a_writes,
            self.pending,
            self.script.len(),
            acts,
            if self.script.len() > 40 { "..." } else { "" }
        )
    }
    pub fn offsets(&self) -> Vec<u64> {
        let mut v = Vec::with_capacity(self.lens.len());
        let mut o = 0u64;
        for l in &self.lens {
            v.push(o);
            o += *l as u64;
        }
        v
    }
}

#[derive(Default)]
pub struct RxOutcome {
    pub connected: bool,
    pub read: usize,
    pub read_end: Option<crate::app::ReadEnd>,
    pub mismatch: bool,
    pub ended_at: Us,
}

pub const REAL_PORT: u16 = 5005;
pub const PEER_PORT: u16 = 6006;

pub async fn rx_scenario(world: Arc<World>, cfg: RxCfg, case_seed: u64) -> RxOutcome {
    let mut out = RxOutcome::default();
    let (ra, pa) = if cfg.ipv6 { (v6(REAL_PORT), v6(PEER_PORT)) } else { (v4(REAL_PORT), v4(PEER_PORT)) };
    let sock = world.socket(ra, &cfg.sock);
    let mut rng = Prng::new(case_seed ^ 0x2C5C);
    let hs = if cfg.real_initiates {
        Peer::accept_from(world.clone(), pa, &sock, cfg.peer_isn, 1 << 20, 0).await
    } else {
        Peer::connect_to(world.clone(), pa, &sock, cfg.peer_conn_id, cfg.peer_isn, 0).await
    };
    let (mut peer, stream) = match hs {
        Some(x) => x,
        None => return out,
    };
    out.connected = true;
    let (r, w) = stream.split();
    let mut w = Some(w);
    let mut shut: Option<(tokio::task::JoinHandle<()>, tokio::sync::oneshot::Sender<()>)> = None;
    let key = stream_key(case_seed, 0, 0);
    let pkey = stream_key(case_seed, 0, 1);
    let ctx = |side: u8| ApiCtx { log: world.log.clone(), conn: 0, side };
    let hr = tokio::spawn(run_reader(ctx(0), r, pkey, cfg.reader.clone(), rng.fork(2), None));
    if !cfg.real_initiates {
        // the accepting side needs to hear from the initiator first
        let p = peer.state_pkt(1 << 20, false);
        peer.send(p);
        world.step().await;
    }
    if cfg.a_writes > 0 {
        let buf = gen_vec(key, 0, cfg.a_writes);
        let c = ctx(0);
        let _ = api_write(&c, w.as_mut().unwrap(), &buf).await;
    }
    let offsets = cfg.offsets();
    let n = cfg.lens.len() as u32;
    // what the real endpoint has told us
    let mut a_ack: i64 = -1; // highest index of our stream it acknowledged cumulatively
    let mut a_wnd: u32 = 1 << 20;
    let mut fin_sent = false;
    // set while the peer pretends not to have seen the real endpoint's FIN
    let mute = std::cell::Cell::new(false);
    let update = |peer: &mut Peer, a_ack: &mut i64, a_wnd: &mut u32| {
        let pkts = peer.drain(|_, _, _| true);
        if mute.get() {
            peer.remote_fin_idx = None;
        }
        for k in &pkts {
            let ai = wire::seq_diff(k.ack, peer.first_seq) as i64;
            if ai > *a_ack {
                *a_ack = ai;
            }
            *a_wnd = k.wnd;
        }
        // acknowledge whatever the real endpoint sent us (its own small writes / FIN)
        if pkts.iter().any(|k| k.ty == wire::ST_DATA || (k.ty == wire::ST_FIN && !mute.get())) {
            let p = peer.state_pkt(1 << 20, true);
            peer.send(p);
        }
    };
    let send_data = |peer: &mut Peer, idx: u32| {
        if idx < n {
            let p = Pkt::new(wire::ST_DATA, peer.id_send, peer.first_seq.wrapping_add(idx as u16), peer.ack_nr(), 1 << 20)
                .with_payload(gen_vec(pkey, offsets[idx as usize], cfg.lens[idx as usize]));
            peer.send(p);
        } else {
            // beyond the stream: a packet far ahead with arbitrary content of one byte
            let p = Pkt::new(wire::ST_DATA, peer.id_send, peer.first_seq.wrapping_add(idx as u16), peer.ack_nr(), 1 << 20).with_payload(vec![0xEE]);
            peer.send(p);
        }
    };
    let start = world.now();
    'script: for act in &cfg.script {
        if world.now() - start > cfg.limit {
            break;
        }
        match act {
            Action::Wait(us) => {
                world.sleep_us(*us).await;
                update(&mut peer, &mut a_ack, &mut a_wnd);
            }
            Action::FinAt(_) => {}
            Action::LocalShutdown => {
                if let Some(mut wr) = w.take() {
                    let c = ctx(0);
                    let (tx, rx) = tokio::sync::oneshot::channel::<()>();
                    let h = tokio::spawn(async move {
                        tokio::select! {
                            _ = api_shutdown(&c, &mut wr) => {}
                            _ = rx => {}
                        }
                        api_drop_writer(&c, wr);
                    });
                    shut = Some((h, tx));
                    world.step().await;
                    update(&mut peer, &mut a_ack, &mut a_wnd);
                }
            }
            Action::Fin => {
                if !fin_sent {
                    let p = Pkt::new(wire::ST_FIN, peer.id_send, peer.first_seq.wrapping_add(n as u16), peer.ack_nr(), 1 << 20);
                    peer.send(p);
                    fin_sent = true;
                    world.step().await;
                    update(&mut peer, &mut a_ack, &mut a_wnd);
                }
            }
            Action::Data(idx) => {
                if cfg.respect_window && *idx < n {
                    // wait (bounded) until the packet fits the advertised window
                    let mut waited = 0;
                    loop {
                        let beyond: u64 = if (*idx as i64) > a_ack {
                            offsets[*idx as usize] + cfg.lens[*idx as usize] as u64 - if a_ack >= 0 { offsets[a_ack as usize] + cfg.lens[a_ack as usize] as u64 } else { 0 }
                        } else {
                            0
                        };
                        if beyond <= a_wnd as u64 {
                            break;
                        }
                        world.sleep_us(5 * MS).await;
                        update(&mut peer, &mut a_ack, &mut a_wnd);
                        waited += 1;
                        if waited > 2000 {
                            world.log.note("scripted sender gave up waiting for the window".to_string());
                            break 'script;
                        }
                    }
                }
                send_data(&mut peer, *idx);
                world.step().await;
                update(&mut peer, &mut a_ack, &mut a_wnd);
            }
        }
    }
    // completion phase: re-send what is missing until everything is acknowledged, then FIN
    if cfg.complete {
        let mut rounds = 0;
        while a_ack < n as i64 - 1 && rounds < 400 && world.now() - start < cfg.limit {
            rounds += 1;
            let next = (a_ack + 1) as u32;
            let fits = !cfg.respect_window || cfg.lens[next as usize] as u64 <= a_wnd as u64;
            if fits {
                send_data(&mut peer, next);
                world.step().await;
            } else {
                world.sleep_us(20 * MS).await;
            }
            update(&mut peer, &mut a_ack, &mut a_wnd);
        }
        if cfg.fin && !fin_sent && a_ack >= n as i64 - 1 {
            if let Some(af) = &cfg.after_fin {
                if !af.ack_our_fin && peer.remote_fin_idx.is_none() {
                    mute.set(true);
                }
            }
            let p = Pkt::new(wire::ST_FIN, peer.id_send, peer.first_seq.wrapping_add(n as u16), peer.ack_nr(), 1 << 20);
            peer.send(p);
            fin_sent = true;
            world.step().await;
            update(&mut peer, &mut a_ack, &mut a_wnd);
        }
        // packets after the FIN
        if let (true, Some(af)) = (fin_sent && a_ack >= n as i64 - 1, &cfg.after_fin) {
            for act in &af.acts {
                match act {
                    Action::Wait(us) => {
                        world.sleep_us(*us).await;
                        update(&mut peer, &mut a_ack, &mut a_wnd);
                    }
                    Action::Fin => {
                        let p = Pkt::new(wire::ST_FIN, peer.id_send, peer.first_seq.wrapping_add(n as u16), peer.ack_nr(), 1 << 20);
                        peer.send(p);
                        world.step().await;
                        update(&mut peer, &mut a_ack, &mut a_wnd);
                    }
                    Action::Data(idx) => {
                        if *idx != n {
                            send_data(&mut peer, *idx);
                            world.step().await;
                            update(&mut peer, &mut a_ack, &mut a_wnd);
                        }
                    }
                    Action::FinAt(idx) => {
                        let p = Pkt::new(wire::ST_FIN, peer.id_send, peer.first_seq.wrapping_add(*idx as u16), peer.ack_nr(), 1 << 20);
                        peer.send(p);
                        world.step().await;
                        update(&mut peer, &mut a_ack, &mut a_wnd);
                    }
                    Action::LocalShutdown => {}
                }
            }
        }
    }
    // let delayed ACKs, window updates and the reader finish
    let mut idle = 0;
    let mut log_pos = 0usize;
    loop {
        world.sleep_us(10 * MS).await;
        update(&mut peer, &mut a_ack, &mut a_wnd);
        idle += 1;
        let mut dead = false;
        world.log.with(|evs| {
            for e in &evs[log_pos..] {
                if let Ev::Hook(librqbit_utp::verif::VerifEvent::VsockDropped { .. }) = &e.ev {
                    dead = true;
                }
            }
            log_pos = evs.len();
        });
        if hr.is_finished() && idle > 30 {
            break;
        }
        if dead && idle > 50 {
            break;
        }
        if idle > 600 || world.now() - start > cfg.limit + 10 * SEC {
            break;
        }
    }
    if hr.is_finished() {
        if let Ok(r) = hr.await {
            out.read = r.read;
            out.mismatch = r.mismatch.is_some();
            out.read_end = Some(r.end.clone());
            drop(r);
        }
    } else {
        hr.abort();
    }
    let c = ctx(0);
    if let Some(w) = w.take() {
        api_drop_writer(&c, w);
    }
    if let Some((h, tx)) = shut.take() {
        let _ = tx.send(());
        let _ = h.await;
    }
    world.sleep_us(50 * MS).await;
    out.ended_at = world.now();
    drop(sock);
    out
}

pub fn run_rx(case_seed: u64, cfg: &RxCfg) -> CaseRun<RxOutcome> {
    let cfg2 = cfg.clone();
    let deadline = Duration::from_micros(cfg.limit + 300 * SEC);
    let mut plan = FaultPlan::perfect(case_seed);
    if let Some((p, lo, hi)) = cfg.pending {
        plan.pending_prob = p;
        plan.pending_for = (lo, hi);
    }
    run_case(case_seed, deadline, cfg.keep_snapshots, plan, move |w| rx_scenario(w, cfg2, case_seed))
}

#[derive(Clone, Copy, Debug, PartialEq, Eq)]
pub enum RxFocus {
    /// arrival orders, buffer sizes, reader behaviours (C04)
    Honesty,
    /// inter-arrival timings around the delayed-ACK rules (C07)
    Timing,
}

pub fn generate(case_seed: u64, focus: RxFocus, max_pkts: usize) -> RxCfg {
    let mut rng = Prng::new(case_seed);
    let ipv6 = rng.chance(0.25);
    let ipv4 = !ipv6;
    let mut sock = SockCfg::default();
    let min_mtu = if ipv4 { 576 } else { 1280 };
    sock.link_mtu = match rng.below(4) {
        0 | 1 => None,
        2 => Some(min_mtu),
        _ => Some(rng.usize_range(min_mtu, 1500)),
    };
    sock.remote_inactivity_timeout = Some(Duration::from_secs(900));
    let maxp = sock.max_payload(ipv4);
    let minp = sock.min_payload(ipv4);
    sock.rx_buf = match rng.below(4) {
        0 => None,
        1 => Some(rng.usize_range(2 * maxp + 1, 6 * maxp)),
        2 => Some(rng.log_range((2 * maxp + 1) as u64, 65536.max(2 * maxp as u64 + 2)) as usize),
        _ => Some(rng.log_range((2 * maxp + 1) as u64, 1 << 20) as usize),
    };
    let n = rng.log_range(1, max_pkts as u64) as usize;
    // payload sizes: fixed per index
    let size_mode = rng.below(5);
    let lens: Vec<usize> = (0..n)
        .map(|_| match size_mode {
            0 => minp,
            1 => rng.usize_range(1, maxp),
            2 => *rng.pick(&[1usize, minp / 2, minp, minp + 1, maxp]),
            3 => maxp,
            _ => rng.log_range(1, maxp as u64) as usize,
        })
        .collect();
    // reader behaviour
    let total: usize = lens.iter().sum();
    let reader = match rng.below(6) {
        0 | 1 => ReaderPlan::greedy(),
        2 => ReaderPlan {
            buf: (1, *rng.pick(&[16usize, 700, 5000])),
            pause_prob: 0.3,
            pause: (MS, 60 * MS),
            stall: None,
            start_delay: 0,
            stop: ReaderStop::Never,
        },
        3 => ReaderPlan {
            buf: (65536, 65536),
            pause_prob: 0.0,
            pause: (0, 0),
            stall: Some((rng.below(total as u64 + 1) as usize, rng.range(100, 4000) * MS)),
            start_delay: 0,
            stop: ReaderStop::Never,
        },
        4 => ReaderPlan {
            buf: (1, 4096),
            pause_prob: 0.1,
            pause: (MS, 200 * MS),
            stall: None,
            start_delay: rng.range(0, 800) * MS,
            stop: ReaderStop::Never,
        },
        _ => ReaderPlan {
            buf: (1, 4096),
            pause_prob: 0.0,
            pause: (0, 0),
            stall: None,
            start_delay: 0,
            stop: if rng.chance(0.5) { ReaderStop::DropAfter(rng.below(total as u64 + 1) as usize) } else { ReaderStop::HoldAfter(rng.below(total as u64 + 1) as usize) },
        },
    };
    // arrival order
    let mut order: Vec<u32> = (0..n as u32).collect();
    let mut script: Vec<Action> = Vec::new();
    let respect_window;
    match focus {
        RxFocus::Honesty => {
            respect_window = rng.chance(0.6);
            let w = *rng.pick(&[1usize, 2, 4, 8, 32, 70, 300]);
            // shuffle within blocks of w
            for chunk in order.chunks_mut(w) {
                rng.shuffle(chunk);
            }
            let dup_p = *rng.pick(&[0.0, 0.05, 0.3]);
            let drop_p = *rng.pick(&[0.0, 0.05, 0.2]);
            let far_p = *rng.pick(&[0.0, 0.0, 0.03]);
            let gap = *rng.pick(&[0u64, 0, 1, 10, 45]);
            for idx in order.clone() {
                if rng.chance(drop_p) {
                    continue; // "lost": re-sent in the completion phase
                }
                script.push(Action::Data(idx));
                if rng.chance(dup_p) {
                    script.push(Action::Data(idx));
                }
                if rng.chance(far_p) {
                    // never the FIN's own sequence number (index n): two different packets under
                    // one sequence number would be the script's fault, not the receiver's
                    let mut far = idx + *rng.pick(&[100u32, 1000, 3000, 20000]);
                    if far == n as u32 {
                        far += 1;
                    }
                    script.push(Action::Data(far));
                }
                if gap > 0 && rng.chance(0.5) {
                    script.push(Action::Wait(rng.range(1, gap) * MS));
                }
            }
            // FIN out of sequence, data after FIN
            if rng.chance(0.1) && n > 2 {
                let pos = rng.below(script.len() as u64 + 1) as usize;
                script.insert(pos, Action::Fin);
            }
        }
        RxFocus::Timing => {
            respect_window = true;
            let mode = rng.below(4);
            for (k, idx) in order.iter().enumerate() {
                script.push(Action::Data(*idx));
                let gap = match mode {
                    0 => rng.range(0, 200),
                    1 => *rng.pick(&[0u64, 1, 39, 40, 41, 80]),
                    2 => {
                        if k % 3 == 2 {
                            rng.range(50, 1500)
                        } else {
                            0
                        }
                    }
                    _ => rng.range(0, 30),
                };
                if gap > 0 {
                    script.push(Action::Wait(gap * MS));
                }
                // occasional reordering / duplicate
                if rng.chance(0.05) && k + 1 < order.len() {
                    script.push(Action::Data(order[k + 1]));
                }
                if rng.chance(0.04) {
                    script.push(Action::Data(*idx));
                }
            }
            // an idle stretch to observe silence
            script.push(Action::Wait(rng.range(1500, 8000) * MS));
        }
    }
    // half-closed connection: the real endpoint's writer is shut down somewhere in the script
    let mut aux = Prng::new(case_seed ^ 0xAF7E_51DE);
    if aux.chance(0.25) {
        let pos = aux.below(script.len() as u64 + 1) as usize;
        script.insert(pos, Action::LocalShutdown);
    }
    let fin = rng.chance(0.7);
    let after_fin = if fin && aux.chance(0.4) {
        let k = aux.range(1, 6);
        let mut acts = Vec::new();
        let mut beyond = n as u32 + 1;
        for _ in 0..k {
            match aux.below(5) {
                0 | 1 => {
                    acts.push(Action::Data(beyond));
                    beyond += 1;
                }
                2 => acts.push(Action::Data(aux.below(n as u64) as u32)),
                3 => {
                    if aux.chance(0.5) {
                        acts.push(Action::Fin)
                    } else {
                        // a renumbered FIN (a stack that counts its FIN retransmissions, or a hostile peer)
                        acts.push(Action::FinAt(n as u32 + aux.range(1, 6) as u32))
                    }
                }
                _ => acts.push(Action::Wait(*aux.pick(&[1u64, 10, 39, 45, 120, 400, 1200]) * MS)),
            }
            if aux.chance(0.3) {
                acts.push(Action::Wait(aux.range(1, 300) * MS));
            }
        }
        Some(AfterFin { ack_our_fin: aux.chance(0.4), acts })
    } else {
        None
    };
    RxCfg {
        ipv6,
        sock,
        real_initiates: rng.chance(0.5),
        peer_isn: if rng.chance(0.4) { 65535u16.wrapping_sub(rng.below(n as u64 + 50) as u16) } else { rng.below(65536) as u16 },
        peer_conn_id: rng.below(65536) as u16,
        reader,
        lens,
        script,
        respect_window,
        complete: true,
        fin,
        a_writes: if rng.chance(0.3) { rng.log_range(1, 3000) as usize } else { 0 },
        limit: 400 * SEC,
        keep_snapshots: false,
        after_fin,
        pending: {
            let mut a = Prng::new(case_seed ^ 0x9E4D_146);
            // (timing scripts only: the honesty oracles take "handed over" for "processed", which a
            // blocked transport pulls apart - the endpoint stops processing while it cannot send)
            if focus == RxFocus::Timing && a.chance(0.2) {
                Some((*a.pick(&[0.02, 0.1, 0.3]), MS, *a.pick(&[1u64, 5, 30, 120]) * MS))
            } else {
                None
            }
        },
    }
}
