//! `duplex` family: two real sockets, one connection, both directions, generated fault plan,
//! configuration and application schedule.
use std::{sync::Arc, time::Duration};

use crate::{
    app::{
        connect_pair, run_reader, run_writer, stream_key, ApiCtx, ReaderOutcome, ReaderPlan,
        ReaderStop, WriterEnd, WriterOutcome, WriterPlan,
    },
    events::{Us, MS, SEC},
    prng::Prng,
    sim::{run_case, v4, v6, CaseRun, FaultPlan, SockCfg, World},
};

#[derive(Clone, Debug)]
pub struct DuplexCfg {
    pub ipv6: bool,
    pub a: SockCfg,
    pub b: SockCfg,
    /// w[s]: what side s writes; r[s]: how side s reads (the stream written by side 1-s).
    pub w: [WriterPlan; 2],
    pub r: [ReaderPlan; 2],
    /// Extra virtual time observed after all drivers finished.
    pub tail: Us,
    pub deadline: Duration,
    pub keep_snapshots: bool,
    /// Each side performs its end action only after its reader got everything it expects.
    pub coordinated_close: bool,
    pub chaos: Chaos,
}

/// A fault injected by the scenario itself (as opposed to the network's fault plan).
#[derive(Clone, Debug, PartialEq)]
pub enum Chaos {
    None,
    /// Cut the network at the instant a flush/shutdown of this side returns Ok.
    CutAtOk { side: u8 },
    /// Inject a spoofed ST_RESET towards this side at this time.
    ResetAt { side: u8, at: Us },
    /// Cancel this side's socket cancellation token at this time.
    CancelAt { side: u8, at: Us },
}

impl DuplexCfg {
    pub fn describe(&self) -> String {
        format!(
            "{} A[{}] B[{}] wA[{}] wB[{}] rA[{}] rB[{}] tail={}us",
            if self.ipv6 { "v6" } else { "v4" },
            self.a.describe(),
            self.b.describe(),
            self.w[0].describe(),
            self.w[1].describe(),
            self.r[0].describe(),
            self.r[1].describe(),
            self.tail
        )
    }
}

#[derive(Default)]
pub struct DuplexOutcome {
    pub connect_err: Option<String>,
    pub accept_err: Option<String>,
    pub w: [Option<WriterOutcome>; 2],
    pub r: [Option<ReaderOutcome>; 2],
    pub drivers_done_at: Us,
}

pub const A_PORT: u16 = 1001;
pub const B_PORT: u16 = 2002;

pub async fn duplex_scenario(world: Arc<World>, cfg: DuplexCfg, case_seed: u64) -> DuplexOutcome {
    let (aa, ba) = if cfg.ipv6 {
        (v6(A_PORT), v6(B_PORT))
    } else {
        (v4(A_PORT), v4(B_PORT))
    };
    let a = world.socket(aa, &cfg.a);
    let b = world.socket(ba, &cfg.b);
    let mut out = DuplexOutcome::default();
    let (ca, cb) = connect_pair(&world, 0, &a, &b).await;
    let (sa, sb) = match (ca, cb) {
        (Ok(sa), Ok(sb)) => (sa, sb),
        (x, y) => {
            out.connect_err = x.err();
            out.accept_err = y.err();
            return out;
        }
    };
    let (ra, wa) = sa.split();
    let (rb, wb) = sb.split();
    let mut rng = Prng::new(case_seed ^ 0xD0_9137);
    let k0 = stream_key(case_seed, 0, 0);
    let k1 = stream_key(case_seed, 0, 1);
    let ctx = |side: u8| ApiCtx {
        log: world.log.clone(),
        conn: 0,
        side,
    };
    let (mut g0, mut g1, mut d0, mut d1) = (None, None, None, None);
    if cfg.coordinated_close {
        let (t0, r0) = tokio::sync::oneshot::channel();
        let (t1, r1) = tokio::sync::oneshot::channel();
        g0 = Some(r0);
        g1 = Some(r1);
        d0 = Some((cfg.w[1].total, t0));
        d1 = Some((cfg.w[0].total, t1));
    }
    let cut_for = |side: u8| match cfg.chaos {
        Chaos::CutAtOk { side: s } if s == side => Some(world.net.clone()),
        _ => None,
    };
    match cfg.chaos {
        Chaos::ResetAt { side, at } => {
            let w2 = world.clone();
            let (victim, spoofed) = if side == 0 { (aa, ba) } else { (ba, aa) };
            tokio::spawn(async move {
                w2.sleep_us(at).await;
                // the connection id the victim receives on: the SYN's id for the initiator, +1 for the acceptor
                let c = w2.log.with(|evs| {
                    evs.iter().find_map(|e| match &e.ev {
                        crate::events::Ev::Send { pkt: Some(p), .. } if p.ty == crate::wire::ST_SYN => Some(p.conn_id),
                        _ => None,
                    })
                });
                if let Some(c) = c {
                    let id = if side == 0 { c } else { c.wrapping_add(1) };
                    let pkt = crate::wire::Pkt::new(crate::wire::ST_RESET, id, 0, 0, 0);
                    w2.log.note(format!("injecting spoofed ST_RESET towards side {side}"));
                    let _ = w2.net.send(None, spoofed, victim, pkt.encode(), true);
                }
            });
        }
        Chaos::CancelAt { side, at } => {
            let w2 = world.clone();
            let tok = if side == 0 { a.token.clone() } else { b.token.clone() };
            tokio::spawn(async move {
                w2.sleep_us(at).await;
                w2.log.note(format!("cancelling the socket token of side {side}"));
                tok.cancel();
            });
        }
        _ => {}
    }
    let hw0 = tokio::spawn(run_writer(ctx(0), wa, k0, cfg.w[0].clone(), rng.fork(1), g0, cut_for(0)));
    let hw1 = tokio::spawn(run_writer(ctx(1), wb, k1, cfg.w[1].clone(), rng.fork(2), g1, cut_for(1)));
    let hr0 = tokio::spawn(run_reader(ctx(0), ra, k1, cfg.r[0].clone(), rng.fork(3), d0));
    let hr1 = tokio::spawn(run_reader(ctx(1), rb, k0, cfg.r[1].clone(), rng.fork(4), d1));
    out.w[0] = hw0.await.ok();
    out.w[1] = hw1.await.ok();
    out.r[0] = hr0.await.ok();
    out.r[1] = hr1.await.ok();
    out.drivers_done_at = world.now();
    world.log.note("drivers done");
    if cfg.tail > 0 {
        world.sleep_us(cfg.tail).await;
    }
    // keep sockets alive until here
    drop(a);
    drop(b);
    out
}

pub fn run_duplex(case_seed: u64, cfg: &DuplexCfg, plan: FaultPlan) -> CaseRun<DuplexOutcome> {
    let cfg2 = cfg.clone();
    run_case(case_seed, cfg.deadline, cfg.keep_snapshots, plan, move |w| {
        duplex_scenario(w, cfg2, case_seed)
    })
}

#[derive(Clone, Copy, Debug, PartialEq, Eq)]
pub enum Profile {
    /// Full fault vocabulary, all configuration axes (C01).
    General,
    /// Budgeted loss only: correct code must complete (C02 fair-lossy part).
    FairLossy,
    /// Loss-free, fixed latency (C02 promptness part).
    LossFree,
    /// Size black holes and EMSGSIZE, loss on non-probe packets only (C14).
    Mtu,
}

pub struct Generated {
    pub cfg: DuplexCfg,
    pub plan: FaultPlan,
    pub plan_desc: String,
}

fn gen_sockcfg(rng: &mut Prng, ipv4: bool, profile: Profile) -> SockCfg {
    let mut c = SockCfg::default();
    let min_mtu = if ipv4 { 576 } else { 1280 };
    c.link_mtu = match rng.below(10) {
        0..=3 => None,
        4..=6 => Some(rng.usize_range(min_mtu, 1500)),
        7 => Some(min_mtu),
        8 => Some(rng.usize_range(1500, 9000)),
        _ => Some(rng.usize_range(if ipv4 { 120 } else { 200 }, min_mtu)),
    };
    if profile == Profile::Mtu {
        c.link_mtu = match rng.below(4) {
            0 => None,
            1 => Some(rng.usize_range(min_mtu, 1500)),
            2 => Some(rng.usize_range(1500, 9000)),
            _ => Some(rng.usize_range(if ipv4 { 120 } else { 200 }, 1500)),
        };
    }
    let maxp = c.max_payload(ipv4);
    c.rx_buf = match rng.below(10) {
        0..=2 => None,
        3..=5 => Some(rng.log_range((2 * maxp + 1) as u64, 64 * 1024) as usize),
        _ => Some(rng.log_range((2 * maxp + 1) as u64, 1024 * 1024) as usize),
    };
    match rng.below(10) {
        0..=2 => {}
        3..=5 => {
            c.tx_buf_initial = Some(rng.log_range(64, 1024 * 1024) as usize);
            c.tx_buf_max = Some(rng.log_range(64, 1024 * 1024) as usize);
        }
        6..=7 => {
            c.tx_buf_initial = Some(rng.log_range(1, 4096) as usize);
            c.tx_buf_max = Some(rng.log_range(512, 1024 * 1024) as usize);
        }
        _ => {
            c.tx_buf_initial = Some(rng.log_range(512, 65536) as usize);
        }
    }
    c.disable_nagle = rng.chance(0.3);
    if rng.chance(0.2) {
        c.dont_wait_for_lastack = true;
    }
    if rng.chance(0.2) {
        c.mtu_probe_max_retransmissions = Some(rng.below(3) as usize);
    }
    // ISN / connection id placement: sometimes near the 16-bit wrap
    match rng.below(4) {
        0 => {
            let near = |rng: &mut Prng| 65535u16.wrapping_sub(rng.below(300) as u16);
            c.forced_random = vec![near(rng), near(rng), near(rng)];
        }
        1 => {
            c.forced_random = vec![rng.below(65536) as u16, 65535u16.wrapping_sub(rng.below(2000) as u16)];
        }
        _ => {}
    }
    c
}

fn tx_limit(c: &SockCfg) -> usize {
    c.tx_buf_initial
        .unwrap_or(32 * 1024)
        .max(c.tx_buf_max.unwrap_or(1024 * 1024))
}

fn gen_writer(rng: &mut Prng, max_total: usize, sock: &SockCfg, profile: Profile) -> WriterPlan {
    let lim = tx_limit(sock);
    let mut total = rng.log_range(1, max_total as u64) as usize;
    // a tiny transmit buffer moves one buffer per round trip; keep the case bounded
    if lim < 4096 {
        total = total.min(lim * 150);
    }
    let chunk_hi = match rng.below(4) {
        0 => 64,
        1 => 2048,
        2 => 65536,
        _ => 400_000,
    };
    let (pause_prob, pause) = match rng.below(4) {
        0 => (0.0, (0, 0)),
        1 => (0.3, (MS, 50 * MS)),
        2 => (0.05, (100 * MS, 2 * SEC)),
        _ => (0.5, (0, 5 * MS)),
    };
    let end = if profile == Profile::General {
        match rng.below(10) {
            0..=5 => WriterEnd::Shutdown,
            6..=7 => WriterEnd::FlushThenDrop,
            8 => WriterEnd::Drop,
            _ => WriterEnd::Shutdown,
        }
    } else {
        WriterEnd::Shutdown
    };
    WriterPlan {
        total,
        chunk: (1, chunk_hi),
        pause_prob,
        pause,
        flush_prob: if rng.chance(0.3) { 0.1 } else { 0.0 },
        start_delay: if rng.chance(0.2) { rng.range(0, 300) * MS } else { 0 },
        end,
    }
}

fn gen_reader(rng: &mut Prng, profile: Profile, expected_total: usize) -> ReaderPlan {
    let buf = match rng.below(4) {
        0 => (1, 64),
        1 => (1, 4096),
        2 => (65536, 65536),
        _ => (1, 100_000),
    };
    let (pause_prob, pause) = match rng.below(4) {
        0 | 1 => (0.0, (0, 0)),
        2 => (0.2, (MS, 30 * MS)),
        _ => (0.03, (50 * MS, 1500 * MS)),
    };
    let stall = if rng.chance(0.25) && expected_total > 10 {
        Some((rng.below(expected_total as u64) as usize, rng.range(200, 4000) * MS))
    } else {
        None
    };
    let stop = if profile == Profile::General && rng.chance(0.08) && expected_total > 10 {
        let n = rng.below(expected_total as u64) as usize;
        if rng.chance(0.5) {
            ReaderStop::DropAfter(n)
        } else {
            ReaderStop::HoldAfter(n)
        }
    } else {
        ReaderStop::Never
    };
    // tiny read buffers on big transfers cost wall time, not insight
    let buf = if expected_total > 200_000 && buf.1 <= 64 { (1, 4096) } else { buf };
    ReaderPlan {
        buf,
        pause_prob,
        pause,
        stall,
        start_delay: if rng.chance(0.15) { rng.range(0, 500) * MS } else { 0 },
        stop,
    }
}

pub fn gen_plan(rng: &mut Prng, profile: Profile, ipv4: bool, a: &SockCfg, b: &SockCfg) -> FaultPlan {
    let plan_seed = rng.next_u64();
    let mut p = FaultPlan::perfect(plan_seed);
    let mut aux = Prng::new(plan_seed ^ 0x57A6_617);
    let lat = *rng.pick(&[0u64, 1, 2, 5, 10, 20, 50, 100]) * MS;
    p.latency = (lat, lat);
    match profile {
        Profile::LossFree => {}
        Profile::FairLossy => {
            p.loss = *rng.pick(&[0.01, 0.03, 0.08, 0.15, 0.3]);
            p.budget_per_identity = Some(1);
            p.protect_handshake = true;
            if rng.chance(0.5) {
                p.dup = *rng.pick(&[0.01, 0.1]);
            }
            if rng.chance(0.5) {
                p.reorder = *rng.pick(&[0.02, 0.2]);
                p.reorder_extra = *rng.pick(&[2u64, 10, 40]) * MS;
            }
            if rng.chance(0.3) {
                p.latency = (lat, lat + *rng.pick(&[1u64, 5, 30]) * MS);
            }
        }
        Profile::General => match rng.below(20) {
            0..=2 => {}
            3..=7 => {
                p.loss = *rng.pick(&[0.005, 0.02, 0.05, 0.1, 0.2]);
            }
            8..=9 => {
                p.burst = Some((*rng.pick(&[0.01, 0.03]), *rng.pick(&[0.2, 0.5])));
            }
            10..=11 => {
                p.dup = *rng.pick(&[0.05, 0.3, 1.0]);
                p.reorder = *rng.pick(&[0.05, 0.3]);
                p.reorder_extra = *rng.pick(&[2u64, 10, 60]) * MS;
                p.latency = (lat, lat + *rng.pick(&[0u64, 3, 20]) * MS);
            }
            12..=14 => {
                p.loss = *rng.pick(&[0.01, 0.05, 0.1]);
                p.dup = *rng.pick(&[0.0, 0.05]);
                p.reorder = *rng.pick(&[0.0, 0.1]);
                p.reorder_extra = *rng.pick(&[2u64, 10, 60]) * MS;
                p.latency = (lat, lat + *rng.pick(&[0u64, 3, 20]) * MS);
                if rng.chance(0.3) {
                    p.pending_prob = *rng.pick(&[0.01, 0.1]);
                    p.pending_for = (MS, *rng.pick(&[1u64, 5, 30]) * MS);
                }
            }
            15..=17 => {
                // silent size black hole somewhere between the protocol minimum and the link MTU
                let min_mtu = if ipv4 { 576 } else { 1280 };
                let link = a.link_mtu.unwrap_or(1500).max(b.link_mtu.unwrap_or(1500));
                if link > min_mtu {
                    p.path_mtu = Some(rng.usize_range(min_mtu, link));
                }
                if rng.chance(0.4) {
                    p.loss = *rng.pick(&[0.01, 0.05]);
                }
            }
            _ => {
                p.pending_prob = *rng.pick(&[0.02, 0.2, 0.5]);
                p.pending_for = (MS, *rng.pick(&[1u64, 5, 30]) * MS);
                if rng.chance(0.5) {
                    p.loss = 0.02;
                }
            }
        },
        Profile::Mtu => {
            let min_mtu = if ipv4 { 576 } else { 1280 };
            let la = a.link_mtu.unwrap_or(1500);
            let lb = b.link_mtu.unwrap_or(1500);
            let link = la.max(lb);
            if link > min_mtu {
                match rng.below(3) {
                    0 => {
                        p.path_mtu = Some(rng.usize_range(min_mtu, link));
                    }
                    1 => {
                        // local EMSGSIZE on each side, possibly different
                        if la > min_mtu {
                            p.emsgsize_mtu_by_src
                                .insert(if ipv4 { v4(A_PORT) } else { v6(A_PORT) }, rng.usize_range(min_mtu, la));
                        }
                        if lb > min_mtu {
                            p.emsgsize_mtu_by_src
                                .insert(if ipv4 { v4(B_PORT) } else { v6(B_PORT) }, rng.usize_range(min_mtu, lb));
                        }
                    }
                    _ => {
                        let e = rng.usize_range(min_mtu, link);
                        p.emsgsize_mtu_by_src
                            .insert(if ipv4 { v4(A_PORT) } else { v6(A_PORT) }, e);
                        p.emsgsize_mtu_by_src
                            .insert(if ipv4 { v4(B_PORT) } else { v6(B_PORT) }, e);
                        p.path_mtu = Some(rng.usize_range(min_mtu, e));
                    }
                }
            }
            // ordinary loss next to the size black hole in a third of the cases: a lost ordinary
            // segment must not be blamed on the probe behind it
            if rng.chance(0.35) {
                p.loss = *rng.pick(&[0.01, 0.03]);
                p.protect_handshake = true;
            }
        }
    }
    // stragglers: a few datagrams arrive long after their retransmission was triggered
    if matches!(profile, Profile::General | Profile::Mtu) && aux.chance(0.25) {
        p.straggler = Some((*aux.pick(&[0.005, 0.02, 0.06]), 250 * MS, *aux.pick(&[600u64, 1500, 4000]) * MS));
        p.protect_handshake = true;
    }
    p
}

pub fn generate(case_seed: u64, profile: Profile, max_total: usize) -> Generated {
    let mut rng = Prng::new(case_seed);
    let ipv6 = rng.chance(0.3);
    let ipv4 = !ipv6;
    let mut a = gen_sockcfg(&mut rng, ipv4, profile);
    let mut b = gen_sockcfg(&mut rng, ipv4, profile);
    if rng.chance(0.6) {
        b.link_mtu = a.link_mtu;
    }
    // jumbo links on both sides over a path that carries them, with loss and stragglers: size probes
    // far larger than two segments travel next to ordinary losses, timeouts and late arrivals
    let jumbo = {
        let mut aux = Prng::new(case_seed ^ 0x10B0_3B0);
        let pr = match profile {
            Profile::General => 0.06,
            Profile::Mtu => 0.15,
            _ => 0.0,
        };
        // (experiments: UVH_JUMBO_P=1 makes every case of these profiles a jumbo case)
        let pr = match std::env::var("UVH_JUMBO_P").ok().and_then(|v| v.parse::<f64>().ok()) {
            Some(x) if pr > 0.0 => x,
            _ => pr,
        };
        if aux.chance(pr) {
            let m = *aux.pick(&[3000usize, 4500, 9000]);
            a.link_mtu = Some(m);
            b.link_mtu = Some(m);
            Some((*aux.pick(&[0.02, 0.05, 0.12]), *aux.pick(&[0.0, 0.02, 0.08]), *aux.pick(&[400u64, 900, 2500])))
        } else {
            None
        }
    };
    if profile != Profile::General {
        a.dont_wait_for_lastack = false;
        b.dont_wait_for_lastack = false;
    }
    // The receive buffer must hold at least two of the largest segments *either* side can send
    // (an endpoint raises its own segment size to the largest payload it has received, and
    // advertises a zero window below one segment).
    let maxp = a.max_payload(ipv4).max(b.max_payload(ipv4));
    for c in [&mut a, &mut b] {
        if let Some(rx) = c.rx_buf {
            c.rx_buf = Some(rx.max(2 * maxp + 1));
        }
    }
    // direction sizes: often one-sided
    let (max0, max1) = match rng.below(4) {
        0 => (max_total, 1),
        1 => (16, max_total),
        _ => (max_total, max_total),
    };
    let mut w0 = gen_writer(&mut rng, max0, &a, profile);
    let w1 = gen_writer(&mut rng, max1, &b, profile);
    // the initiator has to speak first (the acceptor cannot send before it hears from it)
    w0.start_delay = 0;
    w0.total = w0.total.max(1);
    let r0 = gen_reader(&mut rng, profile, w1.total);
    let r1 = gen_reader(&mut rng, profile, w0.total);
    let mut plan = gen_plan(&mut rng, profile, ipv4, &a, &b);
    if let Some((loss, strag, upto)) = jumbo {
        // the path carries the jumbo datagrams: no size black hole, no EMSGSIZE
        plan.path_mtu = None;
        plan.path_mtu_by_src.clear();
        plan.emsgsize_mtu_by_src.clear();
        plan.burst = None;
        plan.loss = loss;
        plan.protect_handshake = true;
        plan.straggler = if strag > 0.0 { Some((strag, 250 * MS, upto * MS)) } else { None };
    }
    let plan_desc = plan.describe();
    Generated {
        cfg: DuplexCfg {
            ipv6,
            a,
            b,
            w: [w0, w1],
            r: [r0, r1],
            tail: 3 * SEC,
            deadline: Duration::from_secs(3600),
            keep_snapshots: false,
            coordinated_close: profile != Profile::General,
            chaos: Chaos::None,
        },
        plan,
        plan_desc,
    }
}
