pub mod direct;
pub mod duplex;
pub mod hsscript;
pub mod rxscript;
pub mod txscript;
pub mod hostile;
pub mod multi;
pub mod lifecycle;
