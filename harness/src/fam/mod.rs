pub mod direct;
pub mod duplex;
