pub mod direct;
pub mod duplex;
pub mod rxscript;
pub mod txscript;
