pub mod direct;
pub mod duplex;
pub mod txscript;
