pub mod duplex;
