//! Deterministic whole-stack simulator: virtual clock, simulated datagram network with fault
//! plans, transport + environment implementations for real `UtpSocket`s, and the case runner.
use std::{
    cmp::Reverse,
    collections::{BTreeMap, BTreeSet, BinaryHeap, VecDeque},
    future::Future,
    net::SocketAddr,
    num::NonZeroUsize,
    sync::Arc,
    task::{Context, Poll, Waker},
    time::Duration,
};

use librqbit_dualstack_sockets::PollSendToVectored;
use librqbit_utp::{verif::UtpEnvironment, SocketOpts, Transport, UtpSocket};
use parking_lot::Mutex;
use tokio_util::sync::CancellationToken;

use crate::{
    events::{Clock, Ev, Event, Fate, Log, Us, MS},
    prng::Prng,
    wire::{self, Pkt},
};

pub type SimSocket = UtpSocket<SimTransport, SimEnv>;

// ---------------------------------------------------------------------------------------------
// Environment
// ---------------------------------------------------------------------------------------------

pub struct RandSource {
    /// Values handed out first, in order.
    pub forced: VecDeque<u16>,
    pub rng: Prng,
    /// Every value handed out, for the record.
    pub handed_out: Vec<u16>,
}

#[derive(Clone)]
pub struct SimEnv {
    clock: Arc<Clock>,
    rand: Arc<Mutex<RandSource>>,
}

impl SimEnv {
    pub fn new(clock: Arc<Clock>, seed: u64, forced: Vec<u16>) -> SimEnv {
        SimEnv {
            clock,
            rand: Arc::new(Mutex::new(RandSource {
                forced: forced.into(),
                rng: Prng::new(seed),
                handed_out: Vec::new(),
            })),
        }
    }
    pub fn push_forced(&self, v: u16) {
        self.rand.lock().forced.push_back(v);
    }
    pub fn handed_out(&self) -> Vec<u16> {
        self.rand.lock().handed_out.clone()
    }
}

impl UtpEnvironment for SimEnv {
    fn now(&self) -> std::time::Instant {
        self.clock.now_std()
    }
    fn copy(&self) -> Self {
        self.clone()
    }
    fn random_u16(&self) -> u16 {
        let mut g = self.rand.lock();
        let v = match g.forced.pop_front() {
            Some(v) => v,
            None => g.rng.next_u64() as u16,
        };
        g.handed_out.push(v);
        v
    }
}

// ---------------------------------------------------------------------------------------------
// Fault plan
// ---------------------------------------------------------------------------------------------

/// What the policy sees about one send.
pub struct SendCtx<'a> {
    pub t: Us,
    /// Global index of this send among all sends that reach the policy (0-based).
    pub index: u64,
    pub src: SocketAddr,
    pub dst: SocketAddr,
    pub bytes: &'a [u8],
    pub pkt: Option<&'a Pkt>,
    pub scripted: bool,
}

pub type Filter = Box<dyn FnMut(&SendCtx<'_>, &mut Prng) -> Option<Fate> + Send>;

/// Identity of a datagram for the fair-lossy budget: two datagrams with the same identity are
/// "the same packet sent again". Packets that occupy a sequence number (SYN, DATA, FIN) are
/// identified by it; pure acknowledgements by what they acknowledge and advertise.
#[derive(Clone, Debug, PartialEq, Eq, PartialOrd, Ord, Hash)]
pub struct PktIdentity {
    pub src: SocketAddr,
    pub dst: SocketAddr,
    pub ty: u8,
    pub conn_id: u16,
    pub seq: u16,
    pub ack: u16,
    pub sack: Vec<u8>,
    pub wnd: u32,
}

impl PktIdentity {
    pub fn of(src: SocketAddr, dst: SocketAddr, p: &Pkt) -> PktIdentity {
        let occupies_seq = matches!(p.ty, wire::ST_DATA | wire::ST_FIN | wire::ST_SYN);
        PktIdentity {
            src,
            dst,
            ty: p.ty,
            conn_id: p.conn_id,
            seq: if occupies_seq { p.seq } else { 0 },
            // a pure acknowledgement is "the same packet again" when it acknowledges the same
            // sequence number: if window or SACK bits counted, every retransmission could be
            // answered by a "new" ACK and a fair network could still starve one segment for ever
            ack: if occupies_seq { 0 } else { p.ack },
            sack: Vec::new(),
            wnd: 0,
        }
    }
}

pub struct FaultPlan {
    pub rng: Prng,
    /// One-way latency range (uniform), microseconds. Use multiples of 1 ms (timer wheel).
    pub latency: (Us, Us),
    /// Optional per-direction override of the latency.
    pub latency_by_src: BTreeMap<SocketAddr, (Us, Us)>,
    /// i.i.d. loss probability.
    pub loss: f64,
    /// Burst loss: (probability to enter a burst, probability to leave it per packet).
    pub burst: Option<(f64, f64)>,
    in_burst: bool,
    pub dup: f64,
    /// With this probability a datagram gets an extra delay of up to `reorder_extra`.
    pub reorder: f64,
    pub reorder_extra: Us,
    /// Stragglers: with this probability a datagram from a real socket is held back for a time
    /// drawn from the range (hundreds of milliseconds to seconds: it arrives after the sender's
    /// retransmission timer has fired, next to the retransmission).
    pub straggler: Option<(f64, Us, Us)>,
    /// Fair-lossy budget: no identity is dropped by random loss more than this many times.
    pub budget_per_identity: Option<u32>,
    dropped_identities: BTreeMap<PktIdentity, u32>,
    /// Never apply random loss to SYN packets (SYNs are not retransmitted by design).
    pub protect_syn: bool,
    /// No random loss between two addresses until the initiator's first non-SYN packet has been
    /// delivered (the accepting side gives up after 5 x 200 ms by design).
    pub protect_handshake: bool,
    handshake_seen: BTreeMap<(SocketAddr, SocketAddr, u16), bool>,
    /// Apply random loss / duplication / reordering only to datagrams from real sockets.
    pub spare_scripted: bool,
    /// Silent size black hole: datagrams whose IP packet would exceed this are dropped.
    pub path_mtu: Option<usize>,
    pub path_mtu_by_src: BTreeMap<SocketAddr, usize>,
    /// Local EMSGSIZE limit (IP packet size) per sender.
    pub emsgsize_mtu_by_src: BTreeMap<SocketAddr, usize>,
    /// Back-pressure: probability that a send returns Pending, and for how long.
    pub pending_prob: f64,
    pub pending_for: (Us, Us),
    /// Exact faults by global send index.
    pub drop_indices: BTreeSet<u64>,
    pub dup_indices: BTreeSet<u64>,
    pub delay_indices: BTreeMap<u64, Us>,
    /// Everything sent at or after this index / time is dropped (network cut).
    pub cut_at_index: Option<u64>,
    pub cut_at_time: Option<Us>,
    /// Everything *to* these addresses is dropped from the given time on (peer vanished).
    pub vanished: BTreeMap<SocketAddr, Us>,
    /// The address vanishes when the global send index reaches this value.
    pub vanish_at_index: Option<(u64, SocketAddr)>,
    /// Custom override, consulted first. `Some(fate)` decides; `None` falls through.
    pub filter: Option<Filter>,
}

impl FaultPlan {
    pub fn perfect(seed: u64) -> FaultPlan {
        FaultPlan {
            rng: Prng::new(seed),
            latency: (0, 0),
            latency_by_src: BTreeMap::new(),
            loss: 0.0,
            burst: None,
            in_burst: false,
            dup: 0.0,
            reorder: 0.0,
            reorder_extra: 0,
            straggler: None,
            budget_per_identity: None,
            dropped_identities: BTreeMap::new(),
            protect_syn: true,
            protect_handshake: false,
            handshake_seen: BTreeMap::new(),
            spare_scripted: true,
            path_mtu: None,
            path_mtu_by_src: BTreeMap::new(),
            emsgsize_mtu_by_src: BTreeMap::new(),
            pending_prob: 0.0,
            pending_for: (MS, MS),
            drop_indices: BTreeSet::new(),
            dup_indices: BTreeSet::new(),
            delay_indices: BTreeMap::new(),
            cut_at_index: None,
            cut_at_time: None,
            vanished: BTreeMap::new(),
            vanish_at_index: None,
            filter: None,
        }
    }

    pub fn with_latency(mut self, lo: Us, hi: Us) -> Self {
        self.latency = (lo, hi);
        self
    }

    fn ip_size(dst: &SocketAddr, udp_payload: usize) -> usize {
        udp_payload + 8 + if dst.is_ipv4() { 20 } else { 40 }
    }

    fn latency_for(&mut self, src: &SocketAddr) -> Us {
        let (lo, hi) = *self.latency_by_src.get(src).unwrap_or(&self.latency);
        if hi <= lo {
            lo
        } else {
            // keep millisecond granularity so the timer wheel does not distort it
            let steps = (hi - lo) / MS;
            lo + self.rng.below(steps + 1) * MS
        }
    }

    pub fn describe(&self) -> String {
        format!(
            "latency={:?}us loss={} burst={:?} dup={} reorder={}/{}us straggler={:?} budget={:?} path_mtu={:?}/{:?} emsgsize={:?} pending={}/{:?} drop_idx={:?} dup_idx={:?} delay_idx={:?} cut_idx={:?} cut_t={:?} vanished={:?} filter={}",
            self.latency, self.loss, self.burst, self.dup, self.reorder, self.reorder_extra, self.straggler,
            self.budget_per_identity, self.path_mtu, self.path_mtu_by_src, self.emsgsize_mtu_by_src,
            self.pending_prob, self.pending_for, self.drop_indices, self.dup_indices,
            self.delay_indices, self.cut_at_index, self.cut_at_time, self.vanished, self.filter.is_some()
        )
    }

    fn decide(&mut self, ctx: &SendCtx<'_>) -> Fate {
        if let Some(f) = self.filter.as_mut() {
            if let Some(fate) = f(ctx, &mut self.rng) {
                return fate;
            }
        }
        // Local errors come first: they are what the send call itself returns.
        if !ctx.scripted {
            if let Some(lim) = self.emsgsize_mtu_by_src.get(&ctx.src) {
                if Self::ip_size(&ctx.dst, ctx.bytes.len()) > *lim {
                    return Fate::Emsgsize;
                }
            }
            if self.pending_prob > 0.0 && self.rng.chance(self.pending_prob) {
                return Fate::Pending;
            }
        }
        if let Some(c) = self.cut_at_index {
            if ctx.index >= c {
                return Fate::Drop("cut");
            }
        }
        if let Some((k, addr)) = self.vanish_at_index {
            if ctx.index >= k {
                self.vanished.entry(addr).or_insert(ctx.t);
            }
        }
        if let Some(c) = self.cut_at_time {
            if ctx.t >= c {
                return Fate::Drop("cut");
            }
        }
        if let Some(t) = self.vanished.get(&ctx.dst) {
            if ctx.t >= *t {
                return Fate::Drop("peer-vanished");
            }
        }
        if let Some(t) = self.vanished.get(&ctx.src) {
            if ctx.t >= *t {
                return Fate::Drop("peer-vanished");
            }
        }
        let pmtu = self
            .path_mtu_by_src
            .get(&ctx.src)
            .copied()
            .or(self.path_mtu);
        if let Some(pmtu) = pmtu {
            if Self::ip_size(&ctx.dst, ctx.bytes.len()) > pmtu {
                return Fate::Drop("size-blackhole");
            }
        }
        if self.drop_indices.contains(&ctx.index) {
            return Fate::Drop("indexed");
        }
        let base = self.latency_for(&ctx.src);
        let mut delays = vec![base + self.delay_indices.get(&ctx.index).copied().unwrap_or(0)];
        if self.dup_indices.contains(&ctx.index) {
            delays.push(base);
        }
        let random_faults_apply = !(ctx.scripted && self.spare_scripted);
        if random_faults_apply {
            let is_syn = ctx.pkt.map(|p| p.ty == wire::ST_SYN).unwrap_or(false);
            let mut in_handshake = false;
            if self.protect_handshake {
                // keyed per connection: (initiator, acceptor, id carried by the SYN)
                let cid = ctx.pkt.map(|p| p.conn_id).unwrap_or(0);
                if is_syn {
                    self.handshake_seen.entry((ctx.src, ctx.dst, cid)).or_insert(false);
                    in_handshake = true;
                } else if let Some(done) = self.handshake_seen.get_mut(&(ctx.src, ctx.dst, cid.wrapping_sub(1))) {
                    // initiator -> acceptor, not a SYN: this one still goes through, then it is over
                    if !*done {
                        in_handshake = true;
                        *done = true;
                    }
                } else if let Some(done) = self.handshake_seen.get(&(ctx.dst, ctx.src, cid)) {
                    in_handshake = !*done;
                }
            }
            let mut lose = false;
            if let Some((p_in, p_out)) = self.burst {
                if self.in_burst {
                    if self.rng.chance(p_out) {
                        self.in_burst = false;
                    }
                } else if self.rng.chance(p_in) {
                    self.in_burst = true;
                }
                lose |= self.in_burst;
            }
            if self.loss > 0.0 && self.rng.chance(self.loss) {
                lose = true;
            }
            if lose && !(is_syn && self.protect_syn) && !in_handshake {
                let allowed = match (self.budget_per_identity, ctx.pkt) {
                    (Some(budget), Some(p)) => {
                        let ident = PktIdentity::of(ctx.src, ctx.dst, p);
                        let c = self.dropped_identities.entry(ident).or_insert(0);
                        if *c < budget {
                            *c += 1;
                            true
                        } else {
                            false
                        }
                    }
                    (Some(_), None) => true,
                    (None, _) => true,
                };
                if allowed {
                    return Fate::Drop("random-loss");
                }
            }
            if self.dup > 0.0 && self.rng.chance(self.dup) {
                let extra = if self.reorder_extra > 0 {
                    self.rng.below(self.reorder_extra / MS + 1) * MS
                } else {
                    0
                };
                delays.push(base + extra);
            }
            if self.reorder > 0.0 && self.rng.chance(self.reorder) {
                let extra = (self.rng.below(self.reorder_extra / MS + 1) + 1) * MS;
                delays[0] += extra;
            }
            if let Some((p, lo, hi)) = self.straggler {
                if !is_syn && !in_handshake && self.rng.chance(p) {
                    delays[0] += (lo / MS + self.rng.below((hi - lo) / MS + 1)) * MS;
                }
            }
        }
        Fate::Deliver(delays)
    }
}

// ---------------------------------------------------------------------------------------------
// Network
// ---------------------------------------------------------------------------------------------

struct Endpoint {
    inbox: VecDeque<(u64, SocketAddr, Arc<Vec<u8>>)>,
    recv_waker: Option<Waker>,
    send_wakers: Vec<Waker>,
    blocked_until: Us,
}

#[derive(PartialEq, Eq, PartialOrd, Ord)]
enum Scheduled {
    Deliver {
        id: u64,
        src: SocketAddr,
        dst: SocketAddr,
    },
    Unblock {
        src: SocketAddr,
    },
}

struct NetInner {
    endpoints: BTreeMap<SocketAddr, Endpoint>,
    heap: BinaryHeap<Reverse<(Us, u64, Scheduled)>>,
    in_transit: BTreeMap<u64, Arc<Vec<u8>>>,
    next_id: u64,
    next_index: u64,
    order: u64,
    plan: FaultPlan,
}

pub struct Net {
    inner: Mutex<NetInner>,
    pub log: Arc<Log>,
    pub clock: Arc<Clock>,
    notify: tokio::sync::Notify,
}

impl Net {
    pub fn new(log: Arc<Log>, plan: FaultPlan) -> Arc<Net> {
        let clock = log.clock.clone();
        let net = Arc::new(Net {
            inner: Mutex::new(NetInner {
                endpoints: BTreeMap::new(),
                heap: BinaryHeap::new(),
                in_transit: BTreeMap::new(),
                next_id: 0,
                next_index: 0,
                order: 0,
                plan,
            }),
            log,
            clock,
            notify: tokio::sync::Notify::new(),
        });
        let n2 = net.clone();
        tokio::spawn(async move { n2.delivery_task().await });
        net
    }

    pub fn register(&self, addr: SocketAddr) {
        let mut g = self.inner.lock();
        let prev = g.endpoints.insert(
            addr,
            Endpoint {
                inbox: VecDeque::new(),
                recv_waker: None,
                send_wakers: Vec::new(),
                blocked_until: 0,
            },
        );
        assert!(prev.is_none(), "address {addr} registered twice");
    }

    /// Mutate the fault plan while the case runs (e.g. cut the network now).
    pub fn with_plan<R>(&self, f: impl FnOnce(&mut FaultPlan) -> R) -> R {
        f(&mut self.inner.lock().plan)
    }

    /// Number of sends that reached the policy so far (= next global send index).
    pub fn send_count(&self) -> u64 {
        self.inner.lock().next_index
    }

    fn deliver_locked(g: &mut NetInner, log: &Log, id: u64, src: SocketAddr, dst: SocketAddr) {
        let bytes = match g.in_transit.get(&id) {
            Some(b) => b.clone(),
            None => return,
        };
        if let Some(ep) = g.endpoints.get_mut(&dst) {
            ep.inbox.push_back((id, src, bytes));
            log.push(Ev::Arrive { id, dst });
            if let Some(w) = ep.recv_waker.take() {
                w.wake();
            }
        } else {
            log.push(Ev::Note(format!("datagram #{id} to unknown address {dst} discarded")));
        }
    }

    /// The one entry point for putting a datagram on the wire.
    pub fn send(
        &self,
        cx: Option<&mut Context<'_>>,
        src: SocketAddr,
        dst: SocketAddr,
        bytes: Vec<u8>,
        scripted: bool,
    ) -> Poll<std::io::Result<usize>> {
        let t = self.clock.now_us();
        let mut g = self.inner.lock();
        let len = bytes.len();
        // A sender that is blocked stays blocked until its time is up.
        if !scripted {
            if let Some(ep) = g.endpoints.get_mut(&src) {
                if ep.blocked_until > t {
                    if let Some(cx) = cx {
                        ep.send_wakers.push(cx.waker().clone());
                    }
                    return Poll::Pending;
                }
            }
        }
        let pkt = wire::parse(&bytes);
        let index = g.next_index;
        g.next_index += 1;
        let id = g.next_id;
        g.next_id += 1;
        let fate = {
            let ctx = SendCtx {
                t,
                index,
                src,
                dst,
                bytes: &bytes,
                pkt: pkt.as_ref(),
                scripted,
            };
            g.plan.decide(&ctx)
        };
        let bytes = Arc::new(bytes);
        self.log.push(Ev::Send {
            id,
            src,
            dst,
            bytes: bytes.clone(),
            pkt,
            fate: fate.clone(),
            scripted,
        });
        match fate {
            Fate::Emsgsize => Poll::Ready(Err(std::io::Error::from_raw_os_error(libc::EMSGSIZE))),
            Fate::SendError => Poll::Ready(Err(std::io::Error::other("simulated send error"))),
            Fate::Pending => {
                let d = {
                    let (lo, hi) = g.plan.pending_for;
                    let steps = hi.saturating_sub(lo) / MS;
                    lo + g.plan.rng.below(steps + 1) * MS
                };
                let until = t + d.max(MS);
                self.log.note(format!("transport blocked: {src} until {until}"));
                if let Some(ep) = g.endpoints.get_mut(&src) {
                    ep.blocked_until = until;
                    if let Some(cx) = cx {
                        ep.send_wakers.push(cx.waker().clone());
                    }
                }
                let order = g.order;
                g.order += 1;
                g.heap
                    .push(Reverse((until, order, Scheduled::Unblock { src })));
                drop(g);
                self.notify.notify_one();
                Poll::Pending
            }
            Fate::Drop(_) => Poll::Ready(Ok(len)),
            Fate::Deliver(delays) => {
                g.in_transit.insert(id, bytes);
                let mut need_notify = false;
                for d in delays {
                    if d == 0 {
                        Self::deliver_locked(&mut g, &self.log, id, src, dst);
                    } else {
                        let order = g.order;
                        g.order += 1;
                        g.heap
                            .push(Reverse((t + d, order, Scheduled::Deliver { id, src, dst })));
                        need_notify = true;
                    }
                }
                drop(g);
                if need_notify {
                    self.notify.notify_one();
                }
                Poll::Ready(Ok(len))
            }
        }
    }

    async fn delivery_task(self: Arc<Self>) {
        loop {
            let next = self.inner.lock().heap.peek().map(|Reverse((t, _, _))| *t);
            match next {
                None => self.notify.notified().await,
                Some(t) => {
                    let now = self.clock.now_us();
                    if t > now {
                        tokio::select! {
                            biased;
                            _ = self.notify.notified() => { continue; }
                            _ = tokio::time::sleep_until(self.clock.tokio_at(t)) => {}
                        }
                    }
                    let now = self.clock.now_us();
                    let mut g = self.inner.lock();
                    while let Some(Reverse((t, _, _))) = g.heap.peek() {
                        if *t > now {
                            break;
                        }
                        let Reverse((_, _, what)) = g.heap.pop().unwrap();
                        match what {
                            Scheduled::Deliver { id, src, dst } => {
                                Self::deliver_locked(&mut g, &self.log, id, src, dst);
                            }
                            Scheduled::Unblock { src } => {
                                if let Some(ep) = g.endpoints.get_mut(&src) {
                                    for w in ep.send_wakers.drain(..) {
                                        w.wake();
                                    }
                                }
                            }
                        }
                    }
                }
            }
        }
    }

    pub fn poll_recv(
        &self,
        cx: &mut Context<'_>,
        addr: SocketAddr,
    ) -> Poll<(u64, SocketAddr, Arc<Vec<u8>>)> {
        let mut g = self.inner.lock();
        let ep = g.endpoints.get_mut(&addr).expect("unregistered endpoint");
        match ep.inbox.pop_front() {
            Some((id, src, bytes)) => {
                drop(g);
                self.log.push(Ev::Recv { id, dst: addr });
                Poll::Ready((id, src, bytes))
            }
            None => {
                ep.recv_waker = Some(cx.waker().clone());
                Poll::Pending
            }
        }
    }

    /// Until when the transport of `addr` refuses datagrams (0: not blocked).
    pub fn blocked_until(&self, addr: SocketAddr) -> Us {
        let g = self.inner.lock();
        g.endpoints.get(&addr).map(|e| e.blocked_until).unwrap_or(0)
    }

    /// Non-blocking receive for scripted endpoints.
    pub fn try_recv(&self, addr: SocketAddr) -> Option<(u64, SocketAddr, Arc<Vec<u8>>)> {
        let mut g = self.inner.lock();
        let ep = g.endpoints.get_mut(&addr).expect("unregistered endpoint");
        let r = ep.inbox.pop_front();
        drop(g);
        if let Some((id, _, _)) = &r {
            self.log.push(Ev::Recv { id: *id, dst: addr });
        }
        r
    }

    pub async fn recv(&self, addr: SocketAddr) -> (u64, SocketAddr, Arc<Vec<u8>>) {
        std::future::poll_fn(|cx| self.poll_recv(cx, addr)).await
    }

    /// Datagrams scheduled but not yet delivered.
    pub fn in_flight(&self) -> usize {
        self.inner
            .lock()
            .heap
            .iter()
            .filter(|Reverse((_, _, s))| matches!(s, Scheduled::Deliver { .. }))
            .count()
    }

    pub fn plan_description(&self) -> String {
        self.inner.lock().plan.describe()
    }
}

// ---------------------------------------------------------------------------------------------
// Transport
// ---------------------------------------------------------------------------------------------

#[derive(Clone)]
pub struct SimTransport {
    pub addr: SocketAddr,
    pub net: Arc<Net>,
}

impl Transport for SimTransport {
    fn recv_from<'a>(
        &'a self,
        buf: &'a mut [u8],
    ) -> impl Future<Output = std::io::Result<(usize, SocketAddr)>> + Send + Sync + 'a {
        async move {
            let (_, src, bytes) = self.net.recv(self.addr).await;
            let n = bytes.len().min(buf.len());
            buf[..n].copy_from_slice(&bytes[..n]);
            Ok((n, src))
        }
    }

    fn send_to<'a>(
        &'a self,
        buf: &'a [u8],
        target: SocketAddr,
    ) -> impl Future<Output = std::io::Result<usize>> + Send + Sync + 'a {
        std::future::poll_fn(move |cx| self.net.send(Some(cx), self.addr, target, buf.to_vec(), false))
    }

    fn poll_send_to(
        &self,
        cx: &mut Context<'_>,
        buf: &[u8],
        target: SocketAddr,
    ) -> Poll<std::io::Result<usize>> {
        self.net.send(Some(cx), self.addr, target, buf.to_vec(), false)
    }

    fn bind_addr(&self) -> SocketAddr {
        self.addr
    }
}

impl PollSendToVectored for SimTransport {
    fn poll_send_to_vectored(
        &self,
        cx: &mut Context<'_>,
        bufs: &[std::io::IoSlice<'_>],
        target: SocketAddr,
    ) -> Poll<std::io::Result<usize>> {
        let mut buf = Vec::with_capacity(bufs.iter().map(|b| b.len()).sum());
        for b in bufs {
            buf.extend_from_slice(b);
        }
        self.net.send(Some(cx), self.addr, target, buf, false)
    }
}

// ---------------------------------------------------------------------------------------------
// Socket configuration
// ---------------------------------------------------------------------------------------------

#[derive(Clone, Debug)]
pub struct SockCfg {
    pub link_mtu: Option<usize>,
    pub rx_buf: Option<usize>,
    pub tx_buf_initial: Option<usize>,
    pub tx_buf_max: Option<usize>,
    pub disable_nagle: bool,
    pub max_retransmissions: Option<usize>,
    pub remote_inactivity_timeout: Option<Duration>,
    pub max_live_vsocks: Option<usize>,
    pub dont_wait_for_lastack: bool,
    pub mtu_probe_max_retransmissions: Option<usize>,
    /// Values returned first by random_u16 (connection id base, then ISNs).
    pub forced_random: Vec<u16>,
}

impl Default for SockCfg {
    fn default() -> Self {
        SockCfg {
            link_mtu: None,
            rx_buf: None,
            tx_buf_initial: None,
            tx_buf_max: None,
            disable_nagle: false,
            max_retransmissions: None,
            remote_inactivity_timeout: None,
            max_live_vsocks: None,
            dont_wait_for_lastack: false,
            mtu_probe_max_retransmissions: None,
            forced_random: Vec::new(),
        }
    }
}

impl SockCfg {
    pub fn describe(&self) -> String {
        format!(
            "mtu={:?} rx={:?} tx={:?}/{:?} nagle={} maxrt={:?} inact={:?} maxvs={:?} nolastack={} probe_rt={:?} forced={:?}",
            self.link_mtu, self.rx_buf, self.tx_buf_initial, self.tx_buf_max, !self.disable_nagle,
            self.max_retransmissions, self.remote_inactivity_timeout, self.max_live_vsocks,
            self.dont_wait_for_lastack, self.mtu_probe_max_retransmissions, self.forced_random
        )
    }

    pub fn to_opts(&self, token: CancellationToken) -> SocketOpts {
        SocketOpts {
            link_mtu: self.link_mtu.and_then(NonZeroUsize::new),
            vsock_rx_bufsize_bytes: self.rx_buf.and_then(NonZeroUsize::new),
            vsock_tx_bufsize_bytes_initial: self.tx_buf_initial.and_then(NonZeroUsize::new),
            vsock_tx_bufsize_bytes_max: self.tx_buf_max.and_then(NonZeroUsize::new),
            disable_nagle: self.disable_nagle,
            congestion: Default::default(),
            parent_span: None,
            cancellation_token: token,
            max_retransmissions: self.max_retransmissions.and_then(NonZeroUsize::new),
            remote_inactivity_timeout: self.remote_inactivity_timeout,
            max_live_vsocks: self.max_live_vsocks.and_then(NonZeroUsize::new),
            dont_wait_for_lastack: self.dont_wait_for_lastack,
            mtu_probe_max_retransmissions: self.mtu_probe_max_retransmissions,
        }
    }

    /// Largest uTP payload the link allows.
    pub fn max_payload(&self, ipv4: bool) -> usize {
        let mtu = self.link_mtu.unwrap_or(1500);
        mtu - if ipv4 { 20 } else { 40 } - 8 - 20
    }

    /// Smallest proven payload size (protocol minimum MTU, or the link MTU if smaller).
    pub fn min_payload(&self, ipv4: bool) -> usize {
        let mtu = self.link_mtu.unwrap_or(1500);
        let min_mtu = if ipv4 { 576 } else { 1280 };
        mtu.min(min_mtu) - if ipv4 { 20 } else { 40 } - 8 - 20
    }
}

// ---------------------------------------------------------------------------------------------
// World + case runner
// ---------------------------------------------------------------------------------------------

pub struct World {
    pub clock: Arc<Clock>,
    pub log: Arc<Log>,
    pub net: Arc<Net>,
    pub seed: u64,
}

pub struct SockHandle {
    pub sock: Arc<SimSocket>,
    pub env: SimEnv,
    pub token: CancellationToken,
    pub addr: SocketAddr,
    pub cfg: SockCfg,
}

impl World {
    pub fn socket(&self, addr: SocketAddr, cfg: &SockCfg) -> SockHandle {
        self.net.register(addr);
        let env = SimEnv::new(
            self.clock.clone(),
            crate::prng::mix2(self.seed, addr.port() as u64 ^ 0xE17),
            cfg.forced_random.clone(),
        );
        let token = CancellationToken::new();
        let transport = SimTransport {
            addr,
            net: self.net.clone(),
        };
        let sock = UtpSocket::new_with_opts(transport, env.clone(), cfg.to_opts(token.clone()))
            .expect("socket options rejected");
        SockHandle {
            sock,
            env,
            token,
            addr,
            cfg: cfg.clone(),
        }
    }

    /// One quiescence step: returns after every other task has run until it is pending,
    /// at the cost of exactly 1 ms of virtual time.
    pub async fn step(&self) {
        tokio::time::sleep(Duration::from_millis(1)).await;
    }

    pub async fn sleep_us(&self, us: Us) {
        tokio::time::sleep(Duration::from_micros(us)).await;
    }

    pub fn now(&self) -> Us {
        self.clock.now_us()
    }
}

pub fn v4(port: u16) -> SocketAddr {
    SocketAddr::from(([10, 0, 0, (port % 250) as u8 + 1], port))
}

pub fn v6(port: u16) -> SocketAddr {
    SocketAddr::from(([0xfd00, 0, 0, 0, 0, 0, 0, port], port))
}

pub struct CaseRun<R> {
    /// None if the scenario panicked or hit the virtual deadline.
    pub result: Option<R>,
    pub deadline_hit: bool,
    pub panicked: Option<String>,
    pub events: Vec<Event>,
    pub end_time: Us,
}

thread_local! {
    static PANIC_LOG: std::cell::RefCell<Vec<String>> = const { std::cell::RefCell::new(Vec::new()) };
}

static PANIC_HOOK: std::sync::Once = std::sync::Once::new();

fn install_panic_hook() {
    PANIC_HOOK.call_once(|| {
        let prev = std::panic::take_hook();
        std::panic::set_hook(Box::new(move |info| {
            let msg = format!("{info}");
            let recorded = PANIC_LOG
                .try_with(|l| {
                    l.borrow_mut().push(msg.clone());
                })
                .is_ok();
            if !recorded || std::env::var_os("UVH_PANIC_VERBOSE").is_some() {
                prev(info);
            }
        }));
    });
}

/// More polls than this at one virtual instant is a task waking itself for ever (a healthy case
/// needs a few per datagram).
pub const LIVELOCK_POLLS: u64 = 400_000;

pub fn take_panics() -> Vec<String> {
    PANIC_LOG.with(|l| std::mem::take(&mut *l.borrow_mut()))
}

/// Run one scenario on a fresh paused-clock runtime. `keep_snapshots` controls whether the
/// (large) per-poll snapshots are stored in the log.
pub fn run_case<F, Fut, R>(
    seed: u64,
    virtual_deadline: Duration,
    keep_snapshots: bool,
    plan: FaultPlan,
    scenario: F,
) -> CaseRun<R>
where
    F: FnOnce(Arc<World>) -> Fut,
    Fut: Future<Output = R>,
{
    install_panic_hook();
    let _ = take_panics();
    let keep_snapshots = keep_snapshots || std::env::var_os("UVH_SNAPSHOTS").is_some();
    let mut seed_bytes = [0u8; 32];
    {
        let mut p = Prng::new(seed ^ 0x7075_7270);
        for c in seed_bytes.chunks_mut(8) {
            c.copy_from_slice(&p.next_u64().to_le_bytes());
        }
    }
    let rt = tokio::runtime::Builder::new_current_thread()
        .enable_time()
        .start_paused(true)
        .rng_seed(tokio::runtime::RngSeed::from_bytes(&seed_bytes))
        .build()
        .expect("runtime");

    let mut out_log: Option<Arc<Log>> = None;
    let mut deadline_hit = false;
    let subscriber = crate::trace_capture::CaptureSubscriber::new();
    let warn_buf = subscriber.buffer();
    let _trace_guard = tracing::subscriber::set_default(subscriber);

    let res = std::panic::catch_unwind(std::panic::AssertUnwindSafe(|| {
        rt.block_on(async {
            let clock = Clock::new();
            let log = Log::new(clock.clone(), keep_snapshots);
            out_log = Some(log.clone());
            {
                let log2 = log.clone();
                let wb = warn_buf.clone();
                // connection uids come from a process-global counter; renumber them per case
                let mut uid_map: BTreeMap<u64, u64> = BTreeMap::new();
                // livelock guard: connection-task polls while virtual time stands still
                let mut polls_at: (Us, u64) = (0, 0);
                librqbit_utp::verif::set_thread_sink(Some(Box::new(move |ev| {
                    if let librqbit_utp::verif::VerifEvent::PollStart { id, .. } = ev {
                        let t = log2.clock.now_us();
                        if polls_at.0 == t {
                            polls_at.1 += 1;
                            if polls_at.1 == LIVELOCK_POLLS {
                                panic!(
                                    "harness: livelock: {} polls of connection tasks (last: {}<-{} recv id {}) without virtual time advancing past {} us",
                                    LIVELOCK_POLLS, id.local, id.remote, id.conn_id_recv, t
                                );
                            }
                        } else {
                            polls_at = (t, 1);
                        }
                    }
                    // flush captured WARNs first so they keep their place in the order
                    for w in wb.lock().drain(..) {
                        log2.push(Ev::Warn(w));
                    }
                    use librqbit_utp::verif::VerifEvent as V;
                    let keep = match ev {
                        V::PollStart { .. } | V::PollEnd { .. } => log2.keep_snapshots,
                        V::SocketTables { .. } => log2.keep_snapshots || log2.keep_tables.load(std::sync::atomic::Ordering::Relaxed),
                        _ => true,
                    };
                    if keep {
                        let mut ev = ev.clone();
                        match &mut ev {
                            V::VsockCreated { id }
                            | V::PollStart { id, .. }
                            | V::PollEnd { id, .. }
                            | V::Death { id, .. }
                            | V::VsockDropped { id, .. }
                            | V::RxData { id, .. }
                            | V::RetransmitTimerExpired { id }
                            | V::MtuProbeExpired { id, .. }
                            | V::Segmented { id, .. } => {
                                let n = uid_map.len() as u64 + 1;
                                id.uid = *uid_map.entry(id.uid).or_insert(n);
                            }
                            V::SocketTables { .. } => {}
                        }
                        log2.push(Ev::Hook(ev));
                    }
                })));
            }
            let net = Net::new(log.clone(), plan);
            let world = Arc::new(World {
                clock,
                log: log.clone(),
                net,
                seed,
            });
            match tokio::time::timeout(virtual_deadline, scenario(world)).await {
                Ok(r) => Some(r),
                Err(_) => {
                    deadline_hit = true;
                    None
                }
            }
        })
    }));
    let log = out_log.expect("log");
    let end_time = {
        // the clock can only be read inside the runtime
        let _g = rt.enter();
        log.clock.now_us()
    };
    // Dropping the runtime drops every task; their Drop hooks still report to the sink.
    // The virtual clock cannot be read any more at that point, so time is frozen first.
    log.freeze(end_time);
    log.push(Ev::Note("teardown".into()));
    drop(rt);
    librqbit_utp::verif::set_thread_sink(None);
    let mut events = log.take();
    let t_end = events.last().map(|e| e.t).unwrap_or(end_time);
    for w in warn_buf.lock().drain(..) {
        events.push(Event {
            t: t_end,
            ev: Ev::Warn(w),
        });
    }
    let mut panicked = None;
    let panics = take_panics();
    for p in &panics {
        events.push(Event {
            t: t_end,
            ev: Ev::Panic(p.clone()),
        });
    }
    let result = match res {
        Ok(r) => r,
        Err(e) => {
            let msg = if let Some(s) = e.downcast_ref::<String>() {
                s.clone()
            } else if let Some(s) = e.downcast_ref::<&str>() {
                s.to_string()
            } else {
                "panic".to_string()
            };
            panicked = Some(msg);
            None
        }
    };
    if panicked.is_none() && !panics.is_empty() {
        panicked = Some(panics[0].clone());
    }
    CaseRun {
        result,
        deadline_hit,
        panicked,
        events,
        end_time,
    }
}
