//! Scripted raw-uTP peer: the harness itself speaks uTP (through its own codec) to one real
//! `UtpSocket`, in either handshake role, so that arbitrary packet / ACK / window histories can
//! be produced. Only the public API of the real endpoint is used.
use std::{collections::BTreeMap, net::SocketAddr, sync::Arc};

use librqbit_utp::UtpStream;

use crate::{
    app::gen_vec,
    events::{ApiOp, Us},
    sim::{SockHandle, World},
    wire::{self, Pkt},
};

pub struct Peer {
    pub world: Arc<World>,
    pub addr: SocketAddr,
    pub remote: SocketAddr,
    /// connection id in packets the peer sends / receives
    pub id_send: u16,
    pub id_recv: u16,
    /// sequence number of the peer's first data packet, and the next one to use
    pub first_seq: u16,
    pub next_seq: u16,
    /// sequence number of the real endpoint's first data packet
    pub remote_first_seq: u16,
    /// data packets received from the real endpoint, by index (0 = first data packet)
    pub received: BTreeMap<i64, usize>,
    /// everything the real endpoint sent to us, in order of arrival
    pub inbox_log: Vec<(Us, Pkt)>,
    /// FIN seen from the real endpoint (index)
    pub remote_fin_idx: Option<i64>,
    pub reset_seen: bool,
    pub ts: u32,
    pub last_remote_ts: u32,
}

impl Peer {
    fn new(world: Arc<World>, addr: SocketAddr, remote: SocketAddr) -> Peer {
        Peer {
            world,
            addr,
            remote,
            id_send: 0,
            id_recv: 0,
            first_seq: 0,
            next_seq: 0,
            remote_first_seq: 0,
            received: BTreeMap::new(),
            inbox_log: Vec::new(),
            remote_fin_idx: None,
            reset_seen: false,
            ts: 0,
            last_remote_ts: 0,
        }
    }

    /// The real socket connects to the peer (peer = accepting side). `isn` is the peer's initial
    /// sequence number, `wnd` the window advertised in the SYN-ACK.
    pub async fn accept_from(
        world: Arc<World>,
        addr: SocketAddr,
        sock: &SockHandle,
        isn: u16,
        wnd: u32,
        conn: u32,
    ) -> Option<(Peer, UtpStream)> {
        world.net.register(addr);
        let mut p = Peer::new(world.clone(), addr, sock.addr);
        let s2 = sock.sock.clone();
        let log = world.log.clone();
        let h = tokio::spawn(async move {
            log.api(conn, 0, ApiOp::ConnectCall);
            let r = s2.connect(addr).await;
            log.api(conn, 0, ApiOp::ConnectRet(r.as_ref().map(|_| ()).map_err(|e| e.to_string())));
            r.ok()
        });
        // wait for the SYN
        let mut syn = None;
        for _ in 0..50 {
            world.step().await;
            while let Some((_, _, bytes)) = world.net.try_recv(addr) {
                if let Some(k) = wire::parse(&bytes) {
                    if k.ty == wire::ST_SYN {
                        syn = Some(k);
                    }
                }
            }
            if syn.is_some() {
                break;
            }
        }
        let syn = syn?;
        p.id_send = syn.conn_id;
        p.id_recv = syn.conn_id.wrapping_add(1);
        p.first_seq = isn;
        p.next_seq = isn;
        p.remote_first_seq = syn.seq.wrapping_add(1);
        p.last_remote_ts = syn.ts;
        let synack = Pkt::new(wire::ST_STATE, p.id_send, isn, syn.seq, wnd);
        p.send(synack);
        world.step().await;
        let stream = h.await.ok()??;
        Some((p, stream))
    }

    /// The peer connects to the real socket (peer = initiating side). `c` is the connection id in
    /// the SYN, `syn_seq` its sequence number.
    pub async fn connect_to(
        world: Arc<World>,
        addr: SocketAddr,
        sock: &SockHandle,
        c: u16,
        syn_seq: u16,
        conn: u32,
    ) -> Option<(Peer, UtpStream)> {
        world.net.register(addr);
        let mut p = Peer::new(world.clone(), addr, sock.addr);
        let s2 = sock.sock.clone();
        let log = world.log.clone();
        let h = tokio::spawn(async move {
            log.api(conn, 0, ApiOp::AcceptCall);
            let r = s2.accept().await;
            log.api(conn, 0, ApiOp::AcceptRet(r.as_ref().map(|s| s.remote_addr()).map_err(|e| e.to_string())));
            r.ok()
        });
        world.step().await;
        p.id_send = c.wrapping_add(1);
        p.id_recv = c;
        p.first_seq = syn_seq.wrapping_add(1);
        p.next_seq = p.first_seq;
        let syn = Pkt::new(wire::ST_SYN, c, syn_seq, 0, 0);
        // the SYN itself carries id c
        let _ = world.net.send(None, addr, sock.addr, syn.encode(), true);
        // wait for the SYN-ACK
        let mut synack = None;
        for _ in 0..50 {
            world.step().await;
            while let Some((_, _, bytes)) = world.net.try_recv(addr) {
                if let Some(k) = wire::parse(&bytes) {
                    if k.ty == wire::ST_STATE && k.ack == syn_seq {
                        p.inbox_log.push((world.now(), k.clone()));
                        synack = Some(k);
                    }
                }
            }
            if synack.is_some() {
                break;
            }
        }
        let sa = synack?;
        p.remote_first_seq = sa.seq; // the accepting side's first data packet reuses its ISN
        p.last_remote_ts = sa.ts;
        let stream = h.await.ok()??;
        Some((p, stream))
    }

    pub fn send(&mut self, mut pkt: Pkt) {
        self.ts = (self.world.now() & 0xffff_ffff) as u32;
        pkt.ts = self.ts;
        pkt.ts_diff = self.ts.wrapping_sub(self.last_remote_ts);
        let _ = self.world.net.send(None, self.addr, self.remote, pkt.encode(), true);
    }

    pub fn send_raw(&mut self, bytes: Vec<u8>) {
        let _ = self.world.net.send(None, self.addr, self.remote, bytes, true);
    }

    /// Index of a sequence number of the real endpoint's data stream.
    pub fn ridx(&self, seq: u16) -> i64 {
        wire::seq_diff(seq, self.remote_first_seq) as i64
    }
    pub fn rseq(&self, idx: i64) -> u16 {
        self.remote_first_seq.wrapping_add(idx as u16)
    }

    /// Take everything the real endpoint has sent us. `accept` decides, per data packet, whether the
    /// peer "receives" it (false = the peer pretends the packet was lost on the way).
    pub fn drain(&mut self, mut accept: impl FnMut(i64, &Pkt, u32) -> bool) -> Vec<Pkt> {
        let mut out = Vec::new();
        while let Some((_, _, bytes)) = self.world.net.try_recv(self.addr) {
            let k = match wire::parse(&bytes) {
                Some(k) => k,
                None => continue,
            };
            self.last_remote_ts = k.ts;
            self.inbox_log.push((self.world.now(), k.clone()));
            match k.ty {
                wire::ST_DATA => {
                    let idx = self.ridx(k.seq);
                    let nth = self.inbox_log.iter().filter(|(_, p)| p.ty == wire::ST_DATA && p.seq == k.seq).count() as u32;
                    if idx >= 0 && accept(idx, &k, nth) {
                        self.received.entry(idx).or_insert(k.payload.len());
                    }
                }
                wire::ST_FIN => {
                    if self.remote_fin_idx.is_none() {
                        self.remote_fin_idx = Some(self.ridx(k.seq));
                    }
                }
                wire::ST_RESET => self.reset_seen = true,
                _ => {}
            }
            out.push(k);
        }
        out
    }

    /// Highest index such that everything up to it was received (-1 = nothing).
    pub fn contiguous(&self) -> i64 {
        let mut n = -1i64;
        for (i, _) in self.received.iter() {
            if *i == n + 1 {
                n = *i;
            } else if *i > n + 1 {
                break;
            }
        }
        // an in-sequence FIN is acknowledged like a data packet
        if let Some(f) = self.remote_fin_idx {
            if f == n + 1 {
                n = f;
            }
        }
        n
    }

    /// The cumulative acknowledgement number the peer's receive state calls for.
    pub fn ack_nr(&self) -> u16 {
        self.remote_first_seq.wrapping_add(self.contiguous() as u16) // contiguous == -1 -> first - 1
    }

    /// 8-byte selective ACK for the peer's receive state, if anything is held out of order.
    pub fn sack(&self) -> Option<Vec<u8>> {
        let base = self.contiguous() + 2;
        let mut bits = [0u8; 8];
        let mut any = false;
        for (i, _) in self.received.range(base..base + 64) {
            let k = (*i - base) as usize;
            bits[k / 8] |= 1 << (k % 8);
            any = true;
        }
        if any || self.received.range(base..).next().is_some() {
            Some(bits.to_vec())
        } else {
            None
        }
    }

    pub fn state_pkt(&self, wnd: u32, with_sack: bool) -> Pkt {
        let mut p = Pkt::new(wire::ST_STATE, self.id_send, self.next_seq, self.ack_nr(), wnd);
        if with_sack {
            if let Some(s) = self.sack() {
                p = p.with_sack(s);
            }
        }
        p
    }

    /// A data packet of the peer's own stream: index `idx` (0-based), fixed length per index.
    pub fn data_pkt(&self, key: u64, idx: u32, offset: u64, len: usize, wnd: u32) -> Pkt {
        Pkt::new(wire::ST_DATA, self.id_send, self.first_seq.wrapping_add(idx as u16), self.ack_nr(), wnd)
            .with_payload(gen_vec(key, offset, len))
    }
}
