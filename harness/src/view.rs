//! Views over the event log shared by the monitors: the wire trace grouped by connection,
//! and the API history grouped by (connection, side).
use std::{collections::BTreeMap, net::SocketAddr};

use crate::{
    events::{ApiOp, Ev, Event, Fate, Us},
    verdict::{fnv1a, FNV_INIT},
    wire::{self, Pkt},
};

#[derive(Clone, Debug)]
pub struct WirePkt {
    /// Index of the Send event in the log.
    pub idx: usize,
    pub t: Us,
    pub id: u64,
    pub src: SocketAddr,
    pub dst: SocketAddr,
    pub pkt: Option<Pkt>,
    pub len: usize,
    pub fate: Fate,
    pub scripted: bool,
    /// Times at which copies of this datagram were placed into the destination queue.
    pub arrivals: Vec<Us>,
    /// Times (and log indices) at which copies were handed to the destination by recv_from.
    pub recvs: Vec<(Us, usize)>,
    /// Connection this packet belongs to (index into WireView::conns).
    pub conn: Option<usize>,
    pub from_initiator: bool,
}

impl WirePkt {
    /// Did the datagram leave the sender (as opposed to the send call failing / pending)?
    pub fn left_sender(&self) -> bool {
        matches!(self.fate, Fate::Deliver(_) | Fate::Drop(_))
    }
    pub fn delivered(&self) -> bool {
        !self.arrivals.is_empty()
    }
    pub fn ty(&self) -> Option<u8> {
        self.pkt.as_ref().map(|p| p.ty)
    }
}

#[derive(Clone, Debug)]
pub struct ConnView {
    pub initiator: SocketAddr,
    pub acceptor: SocketAddr,
    /// Connection id carried by the SYN.
    pub c: u16,
    pub syn_seq: u16,
    /// Sequence number of the acceptor's first packet (its ISN), once seen.
    pub acceptor_isn: Option<u16>,
    /// Indices into WireView::pkts, in send order.
    pub from_initiator: Vec<usize>,
    pub from_acceptor: Vec<usize>,
}

impl ConnView {
    pub fn dir(&self, from_initiator: bool) -> &Vec<usize> {
        if from_initiator {
            &self.from_initiator
        } else {
            &self.from_acceptor
        }
    }
    /// Sequence number of the first data packet in the given direction.
    pub fn first_data_seq(&self, from_initiator: bool) -> Option<u16> {
        if from_initiator {
            Some(self.syn_seq.wrapping_add(1))
        } else {
            self.acceptor_isn
        }
    }
}

pub struct WireView {
    pub pkts: Vec<WirePkt>,
    pub conns: Vec<ConnView>,
    /// (time, sender, receiver, sender's send id) of every "a transmitted MTU probe timed out and was
    /// taken back" report of the library (hook)
    pub probe_expiries: Vec<(Us, SocketAddr, SocketAddr, u16)>,
}

impl WireView {
    /// Did the sender `src` (towards `dst`, sending under connection id `id`) report at instant `t`
    /// that its MTU probe timed out and was taken back?
    pub fn probe_expired_at(&self, src: SocketAddr, dst: SocketAddr, id: u16, t: Us) -> bool {
        self.probe_expiries.iter().any(|(pt, s, d, i)| *pt == t && *s == src && *d == dst && *i == id)
    }

    /// ... or at some instant in `lo..=hi`? (The pieces of a probe that was taken back leave when
    /// the windows allow, which can be later than the expiry itself.)
    pub fn probe_expired_within(&self, src: SocketAddr, dst: SocketAddr, id: u16, lo: Us, hi: Us) -> bool {
        self.probe_expiries.iter().any(|(pt, s, d, i)| *pt >= lo && *pt <= hi && *s == src && *d == dst && *i == id)
    }

    pub fn build(events: &[Event]) -> WireView {
        Self::build_opts(events, true)
    }

    /// `scripted_traffic_counts`: when false, datagrams sent by harness code (an attacker that
    /// spoofs real addresses and identifiers) neither create connections nor are attributed to one.
    pub fn build_opts(events: &[Event], scripted_traffic_counts: bool) -> WireView {
        let mut pkts: Vec<WirePkt> = Vec::new();
        let mut by_id: BTreeMap<u64, usize> = BTreeMap::new();
        let mut conns: Vec<ConnView> = Vec::new();
        // (receiver addr, sender addr, conn id as seen by receiver) -> conn index, latest wins
        let mut rx_key: BTreeMap<(SocketAddr, SocketAddr, u16), (usize, bool)> = BTreeMap::new();
        for (idx, e) in events.iter().enumerate() {
            match &e.ev {
                Ev::Send {
                    id,
                    src,
                    dst,
                    bytes,
                    pkt,
                    fate,
                    scripted,
                } => {
                    let mut wp = WirePkt {
                        idx,
                        t: e.t,
                        id: *id,
                        src: *src,
                        dst: *dst,
                        pkt: pkt.clone(),
                        len: bytes.len(),
                        fate: fate.clone(),
                        scripted: *scripted,
                        arrivals: Vec::new(),
                        recvs: Vec::new(),
                        conn: None,
                        from_initiator: false,
                    };
                    if let Some(p) = pkt.as_ref().filter(|_| scripted_traffic_counts || !*scripted) {
                        if p.ty == wire::ST_SYN {
                            // a retransmitted / duplicated SYN with the same seq is the same conn
                            let existing = conns.iter().rposition(|c| {
                                c.initiator == *src && c.acceptor == *dst && c.c == p.conn_id && c.syn_seq == p.seq
                            });
                            let ci = match existing {
                                Some(ci) => ci,
                                None => {
                                    conns.push(ConnView {
                                        initiator: *src,
                                        acceptor: *dst,
                                        c: p.conn_id,
                                        syn_seq: p.seq,
                                        acceptor_isn: None,
                                        from_initiator: Vec::new(),
                                        from_acceptor: Vec::new(),
                                    });
                                    let ci = conns.len() - 1;
                                    // acceptor receives (from initiator) with id c+1; initiator receives with id c
                                    rx_key.insert((*dst, *src, p.conn_id.wrapping_add(1)), (ci, true));
                                    rx_key.insert((*src, *dst, p.conn_id), (ci, false));
                                    ci
                                }
                            };
                            wp.conn = Some(ci);
                            wp.from_initiator = true;
                        } else if let Some((ci, from_init)) = rx_key.get(&(*dst, *src, p.conn_id)) {
                            wp.conn = Some(*ci);
                            wp.from_initiator = *from_init;
                            if !*from_init && conns[*ci].acceptor_isn.is_none() {
                                conns[*ci].acceptor_isn = Some(p.seq);
                            }
                        }
                    }
                    if let Some(ci) = wp.conn {
                        if wp.from_initiator {
                            conns[ci].from_initiator.push(pkts.len());
                        } else {
                            conns[ci].from_acceptor.push(pkts.len());
                        }
                    }
                    by_id.insert(*id, pkts.len());
                    pkts.push(wp);
                }
                Ev::Arrive { id, .. } => {
                    if let Some(i) = by_id.get(id) {
                        pkts[*i].arrivals.push(e.t);
                    }
                }
                Ev::Recv { id, .. } => {
                    if let Some(i) = by_id.get(id) {
                        pkts[*i].recvs.push((e.t, idx));
                    }
                }
                _ => {}
            }
        }
        let probe_expiries = events
            .iter()
            .filter_map(|e| match &e.ev {
                Ev::Hook(librqbit_utp::verif::VerifEvent::MtuProbeExpired { id, .. }) => Some((e.t, id.local, id.remote, id.conn_id_send)),
                _ => None,
            })
            .collect();
        WireView { pkts, conns, probe_expiries }
    }

    /// Hash of the normalised trace (types, relative sequence numbers, sizes, fates): two
    /// executions with the same hash are the same execution up to relabelling.
    pub fn trace_hash(&self) -> u64 {
        let mut h = FNV_INIT;
        for p in &self.pkts {
            let (ty, rel_seq, rel_ack, plen) = match (&p.pkt, p.conn) {
                (Some(k), Some(ci)) => {
                    let c = &self.conns[ci];
                    let my0 = c.first_data_seq(p.from_initiator).unwrap_or(0);
                    let peer0 = c.first_data_seq(!p.from_initiator).unwrap_or(0);
                    // a SYN acknowledges nothing (its ack field is a constant, not a sequence number)
                    let rel_ack = if k.ty == wire::ST_SYN { 0 } else { k.ack.wrapping_sub(peer0) };
                    (k.ty, k.seq.wrapping_sub(my0), rel_ack, k.payload.len())
                }
                (Some(k), None) => (k.ty, k.seq, k.ack, k.payload.len()),
                (None, _) => (255, 0, 0, p.len),
            };
            let fate = match &p.fate {
                Fate::Deliver(d) => d.len() as u8,
                Fate::Drop(_) => 100,
                Fate::Emsgsize => 101,
                Fate::Pending => 102,
                Fate::SendError => 103,
            };
            fnv1a(&mut h, &[ty, fate, p.from_initiator as u8]);
            fnv1a(&mut h, &rel_seq.to_le_bytes());
            fnv1a(&mut h, &rel_ack.to_le_bytes());
            fnv1a(&mut h, &(plen as u32).to_le_bytes());
        }
        h
    }
}

#[derive(Clone, Debug)]
pub struct ApiRec {
    pub idx: usize,
    pub t: Us,
    pub op: ApiOp,
}

/// API history per (conn, side).
pub fn api_history(events: &[Event]) -> BTreeMap<(u32, u8), Vec<ApiRec>> {
    let mut m: BTreeMap<(u32, u8), Vec<ApiRec>> = BTreeMap::new();
    for (idx, e) in events.iter().enumerate() {
        if let Ev::Api { conn, side, op } = &e.ev {
            m.entry((*conn, *side)).or_default().push(ApiRec {
                idx,
                t: e.t,
                op: op.clone(),
            });
        }
    }
    m
}

/// Unwrap 16-bit sequence numbers into a monotone index space around a moving reference.
#[derive(Clone, Debug)]
pub struct SeqUnwrap {
    base: u16,
    /// unwrapped index of the highest sequence number seen so far
    hi: i64,
}

impl SeqUnwrap {
    /// `first` gets index 0.
    pub fn new(first: u16) -> SeqUnwrap {
        SeqUnwrap { base: first, hi: 0 }
    }
    /// Index of `seq`, assuming it lies within +-32767 of the highest index seen so far.
    pub fn index(&mut self, seq: u16) -> i64 {
        let hi_seq = self.base.wrapping_add(self.hi as u16);
        let i = self.hi + wire::seq_diff(seq, hi_seq) as i64;
        if i > self.hi {
            self.hi = i;
        }
        i
    }
    pub fn peek(&self, seq: u16) -> i64 {
        let hi_seq = self.base.wrapping_add(self.hi as u16);
        self.hi + wire::seq_diff(seq, hi_seq) as i64
    }
}

/// Sequence-number -> stream-offset table of one direction, rebuilt from the ST_DATA packets the
/// sender put on the wire (first transmissions appear in sequence order).
#[derive(Clone, Debug, Default)]
pub struct DirTable {
    pub first_seq: u16,
    /// index (0 = first data sequence number) -> (stream offset, final payload length)
    pub entries: BTreeMap<i64, (u64, usize)>,
    /// index of the sender's FIN, if it emitted one
    pub fin_idx: Option<i64>,
    pub fin_time: Option<Us>,
    /// a sequence number was sent with different lengths (MTU probe taken back and cut again)
    pub recut: bool,
    /// the sequence space is not what the table assumes (gap); offsets beyond are unknown
    pub broken: bool,
}

impl DirTable {
    /// Stream bytes covered by a cumulative acknowledgement of `ack_seq`.
    pub fn bytes_acked_by(&self, ack_seq: u16) -> u64 {
        let idx = wire::seq_diff(ack_seq, self.first_seq) as i64;
        if idx < 0 {
            return 0;
        }
        match self.entries.range(..=idx).next_back() {
            Some((_, (off, len))) => off + *len as u64,
            None => 0,
        }
    }
    /// Total bytes of all data sequence numbers below the FIN (or of everything sent, without FIN).
    pub fn bytes_below_fin(&self) -> u64 {
        let lim = self.fin_idx.unwrap_or(i64::MAX);
        match self.entries.range(..lim).next_back() {
            Some((_, (off, len))) => off + *len as u64,
            None => 0,
        }
    }
    pub fn idx_of(&self, seq: u16) -> i64 {
        wire::seq_diff(seq, self.first_seq) as i64
    }
}

pub fn dir_table(view: &WireView, ci: usize, from_initiator: bool) -> DirTable {
    let conn = &view.conns[ci];
    let mut t = DirTable::default();
    let first = match conn.first_data_seq(from_initiator) {
        Some(s) => s,
        None => return t,
    };
    t.first_seq = first;
    let mut unwrap = SeqUnwrap::new(first);
    let mut max_idx: i64 = -1;
    for &pi in conn.dir(from_initiator) {
        let wp = &view.pkts[pi];
        if wp.scripted {
            continue;
        }
        let p = match &wp.pkt {
            Some(p) => p,
            None => continue,
        };
        if p.ty == wire::ST_FIN {
            if t.fin_idx.is_none() {
                t.fin_idx = Some(unwrap.peek(p.seq));
                t.fin_time = Some(wp.t);
            }
            continue;
        }
        if p.ty != wire::ST_DATA {
            continue;
        }
        let idx = unwrap.peek(p.seq);
        if let Some(f) = t.fin_idx {
            if idx >= f {
                continue;
            }
        }
        if idx < 0 {
            continue;
        }
        if let Some(e) = t.entries.get_mut(&idx) {
            if e.1 != p.payload.len() {
                t.recut = true;
                if idx == max_idx {
                    e.1 = p.payload.len();
                }
            }
        } else {
            if idx != max_idx + 1 {
                t.broken = true;
                break;
            }
            let _ = unwrap.index(p.seq);
            let off = if idx == 0 {
                0
            } else {
                let (o, l) = t.entries[&(idx - 1)];
                o + l as u64
            };
            t.entries.insert(idx, (off, p.payload.len()));
            max_idx = idx;
        }
    }
    t
}
