//! Small replayable PRNG (SplitMix64 seeding + xoshiro256**). No external crates, so a case
//! is reproducible from one u64 everywhere (native, Miri, TSan builds).

#[derive(Clone, Debug)]
pub struct Prng {
    s: [u64; 4],
}

pub fn splitmix64(x: &mut u64) -> u64 {
    *x = x.wrapping_add(0x9E3779B97F4A7C15);
    let mut z = *x;
    z = (z ^ (z >> 30)).wrapping_mul(0xBF58476D1CE4E5B9);
    z = (z ^ (z >> 27)).wrapping_mul(0x94D049BB133111EB);
    z ^ (z >> 31)
}

/// Stateless 64-bit mix of two words.
pub fn mix2(a: u64, b: u64) -> u64 {
    let mut x = a ^ b.rotate_left(32) ^ 0xD6E8FEB86659FD93;
    let r = splitmix64(&mut x);
    let mut y = r ^ b;
    splitmix64(&mut y)
}

impl Prng {
    pub fn new(seed: u64) -> Self {
        let mut x = seed;
        let s = [
            splitmix64(&mut x),
            splitmix64(&mut x),
            splitmix64(&mut x),
            splitmix64(&mut x),
        ];
        Prng { s }
    }

    /// Derive an independent stream.
    pub fn fork(&mut self, tag: u64) -> Prng {
        Prng::new(mix2(self.next_u64(), tag))
    }

    pub fn next_u64(&mut self) -> u64 {
        let result = self.s[1].wrapping_mul(5).rotate_left(7).wrapping_mul(9);
        let t = self.s[1] << 17;
        self.s[2] ^= self.s[0];
        self.s[3] ^= self.s[1];
        self.s[1] ^= self.s[2];
        self.s[0] ^= self.s[3];
        self.s[2] ^= t;
        self.s[3] = self.s[3].rotate_left(45);
        result
    }

    /// Uniform in [0, n). n must be > 0.
    pub fn below(&mut self, n: u64) -> u64 {
        debug_assert!(n > 0);
        // multiply-shift; bias is irrelevant here
        ((self.next_u64() as u128 * n as u128) >> 64) as u64
    }

    /// Uniform in [lo, hi] inclusive.
    pub fn range(&mut self, lo: u64, hi: u64) -> u64 {
        debug_assert!(lo <= hi);
        lo + self.below(hi - lo + 1)
    }

    pub fn usize_range(&mut self, lo: usize, hi: usize) -> usize {
        self.range(lo as u64, hi as u64) as usize
    }

    pub fn chance(&mut self, p: f64) -> bool {
        if p <= 0.0 {
            return false;
        }
        if p >= 1.0 {
            return true;
        }
        (self.next_u64() >> 11) as f64 / ((1u64 << 53) as f64) < p
    }

    pub fn f64(&mut self) -> f64 {
        (self.next_u64() >> 11) as f64 / ((1u64 << 53) as f64)
    }

    pub fn pick<'a, T>(&mut self, xs: &'a [T]) -> &'a T {
        &xs[self.below(xs.len() as u64) as usize]
    }

    /// Log-uniform integer in [lo, hi] (both >= 1): small values as likely as large ones.
    pub fn log_range(&mut self, lo: u64, hi: u64) -> u64 {
        debug_assert!(lo >= 1 && lo <= hi);
        let l = (lo as f64).ln();
        let h = ((hi + 1) as f64).ln();
        let v = (l + self.f64() * (h - l)).exp() as u64;
        v.clamp(lo, hi)
    }

    pub fn shuffle<T>(&mut self, xs: &mut [T]) {
        for i in (1..xs.len()).rev() {
            let j = self.below(i as u64 + 1) as usize;
            xs.swap(i, j);
        }
    }

    pub fn bytes(&mut self, n: usize) -> Vec<u8> {
        let mut v = Vec::with_capacity(n);
        while v.len() < n {
            let w = self.next_u64().to_le_bytes();
            let take = (n - v.len()).min(8);
            v.extend_from_slice(&w[..take]);
        }
        v
    }
}
