//! Verdicts, violations and per-case reports.
use std::collections::BTreeMap;

use crate::{
    events::{render, Event, Us},
    json::J,
};

#[derive(Clone, Debug)]
pub struct Violation {
    pub property: &'static str,
    /// Short name of the oracle that fired (stable; used in known-finding signatures).
    pub rule: &'static str,
    /// Stable signature of *what* failed, precise enough that a different failure of the same
    /// property does not match it. Known findings are keyed on (property, rule, signature).
    pub signature: String,
    pub detail: String,
    pub at: Option<Us>,
}

#[derive(Clone, Copy, Debug, PartialEq, Eq)]
pub enum Tier {
    Quick,
    Thorough,
}

#[derive(Default)]
pub struct Counters(pub BTreeMap<String, u64>);

impl Counters {
    pub fn add(&mut self, k: &str, n: u64) {
        *self.0.entry(k.to_string()).or_insert(0) += n;
    }
    pub fn inc(&mut self, k: &str) {
        self.add(k, 1);
    }
    pub fn max(&mut self, k: &str, n: u64) {
        let e = self.0.entry(k.to_string()).or_insert(0);
        *e = (*e).max(n);
    }
    pub fn get(&self, k: &str) -> u64 {
        self.0.get(k).copied().unwrap_or(0)
    }
    pub fn merge(&mut self, other: &Counters) {
        for (k, v) in &other.0 {
            if k.starts_with("max_") {
                self.max(k, *v);
            } else {
                self.add(k, *v);
            }
        }
    }
}

pub struct CaseReport {
    pub family: &'static str,
    pub index: u64,
    pub case_seed: u64,
    /// Human-readable configuration of the case (sockets, fault plan, app schedule).
    pub desc: String,
    pub violations: Vec<Violation>,
    /// Reasons this case could not be judged (harness trouble, determinism self-check, ...).
    pub inconclusive: Vec<String>,
    pub counters: Counters,
    /// Hash of the normalised wire trace, to count distinct executions.
    pub trace_hash: u64,
    /// Did the case exercise what the property is about (by the family's stated rule)?
    pub nontrivial: bool,
    /// Distinct coverage labels seen (e.g. "(state,packet type)" pairs); merged across cases.
    pub labels: Vec<String>,
    pub events: Vec<Event>,
    pub end_time: Us,
}

impl CaseReport {
    pub fn new(family: &'static str, index: u64, case_seed: u64) -> CaseReport {
        CaseReport {
            family,
            index,
            case_seed,
            desc: String::new(),
            violations: Vec::new(),
            inconclusive: Vec::new(),
            counters: Counters::default(),
            trace_hash: 0,
            nontrivial: false,
            labels: Vec::new(),
            events: Vec::new(),
            end_time: 0,
        }
    }

    pub fn violate(
        &mut self,
        property: &'static str,
        rule: &'static str,
        signature: impl Into<String>,
        detail: impl Into<String>,
        at: Option<Us>,
    ) {
        // one report per (rule, signature) per case is enough
        let signature = signature.into();
        if self
            .violations
            .iter()
            .any(|v| v.property == property && v.rule == rule && v.signature == signature)
        {
            return;
        }
        self.violations.push(Violation {
            property,
            rule,
            signature,
            detail: detail.into(),
            at,
        });
    }

    pub fn sample_json(&self) -> J {
        crate::jobj! {
            "family" => self.family,
            "index" => self.index,
            "case_seed" => format!("{:#x}", self.case_seed),
            "config" => self.desc.clone(),
            "virtual_end_s" => self.end_time as f64 / 1e6,
            "events" => self.events.len(),
            "trace_hash" => format!("{:016x}", self.trace_hash),
            "counters" => J::Obj(self.counters.0.iter().map(|(k, v)| (k.clone(), J::from(*v))).collect()),
        }
    }

    /// Full dump for a replay file.
    pub fn replay_json(&self, property: &str, tier: Tier, seed: u64, max_events: usize) -> J {
        let n = self.events.len();
        let first_at = self
            .violations
            .iter()
            .filter_map(|v| v.at)
            .min()
            .unwrap_or(u64::MAX);
        // keep the window of events around the earliest violation, plus the head
        let mut lines: Vec<J> = Vec::new();
        let pivot = self
            .events
            .iter()
            .position(|e| e.t >= first_at)
            .unwrap_or(n);
        let lo = pivot.saturating_sub(max_events * 3 / 4);
        let hi = (lo + max_events).min(n);
        if lo > 0 {
            for e in self.events.iter().take(40.min(lo)) {
                lines.push(render(e).into());
            }
            lines.push(format!("... {} events omitted ...", lo.saturating_sub(40)).into());
        }
        for e in &self.events[lo..hi] {
            lines.push(render(e).into());
        }
        if hi < n {
            lines.push(format!("... {} later events omitted ...", n - hi).into());
        }
        crate::jobj! {
            "property" => property,
            "tier" => match tier { Tier::Quick => "quick", Tier::Thorough => "thorough" },
            "seed" => seed,
            "family" => self.family,
            "index" => self.index,
            "case_seed" => format!("{:#x}", self.case_seed),
            "config" => self.desc.clone(),
            "replay_cmd" => format!(
                "harness/target/release/simcheck --property {} --seed {} --replay {}:{}:{:#x} --dump-log",
                property, seed, self.family, self.index, self.case_seed
            ),
            "violations" => J::Arr(self.violations.iter().map(|v| crate::jobj!{
                "property" => v.property, "rule" => v.rule, "signature" => v.signature.clone(),
                "detail" => v.detail.clone(), "at_us" => v.at,
            }).collect()),
            "inconclusive" => J::Arr(self.inconclusive.iter().map(|s| J::from(s.clone())).collect()),
            "log" => J::Arr(lines),
        }
    }
}

pub fn fnv1a(h: &mut u64, bytes: &[u8]) {
    for b in bytes {
        *h ^= *b as u64;
        *h = h.wrapping_mul(0x100000001b3);
    }
}

pub const FNV_INIT: u64 = 0xcbf29ce484222325;
