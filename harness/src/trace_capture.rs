//! A minimal tracing subscriber that records WARN-and-above events emitted by the library
//! (the library reports some "should not happen" conditions only through `warn!`).
use std::{
    fmt::Write,
    sync::{
        atomic::{AtomicU64, Ordering},
        Arc,
    },
};

use parking_lot::Mutex;
use tracing::{
    field::{Field, Visit},
    span, Event, Level, Metadata, Subscriber,
};

pub struct CaptureSubscriber {
    buf: Arc<Mutex<Vec<String>>>,
    next_id: AtomicU64,
    /// UVH_TRACE=1: every tracing event of the library is recorded (debugging a replay)
    verbose: bool,
}

impl CaptureSubscriber {
    pub fn new() -> Self {
        CaptureSubscriber {
            buf: Arc::new(Mutex::new(Vec::new())),
            next_id: AtomicU64::new(1),
            verbose: std::env::var_os("UVH_TRACE").is_some(),
        }
    }
    pub fn buffer(&self) -> Arc<Mutex<Vec<String>>> {
        self.buf.clone()
    }
}

struct V<'a>(&'a mut String);

impl Visit for V<'_> {
    fn record_debug(&mut self, field: &Field, value: &dyn std::fmt::Debug) {
        if field.name() == "message" {
            let _ = write!(self.0, "{:?} ", value);
        } else {
            let _ = write!(self.0, "{}={:?} ", field.name(), value);
        }
    }
}

impl Subscriber for CaptureSubscriber {
    fn enabled(&self, metadata: &Metadata<'_>) -> bool {
        *metadata.level() <= Level::WARN || self.verbose
    }
    fn new_span(&self, _span: &span::Attributes<'_>) -> span::Id {
        span::Id::from_u64(self.next_id.fetch_add(1, Ordering::Relaxed))
    }
    fn record(&self, _span: &span::Id, _values: &span::Record<'_>) {}
    fn record_follows_from(&self, _span: &span::Id, _follows: &span::Id) {}
    fn event(&self, event: &Event<'_>) {
        let mut s = format!("{} {}: ", event.metadata().level(), event.metadata().target());
        event.record(&mut V(&mut s));
        self.buf.lock().push(s);
    }
    fn enter(&self, _span: &span::Id) {}
    fn exit(&self, _span: &span::Id) {}
}
