//! Per-property check plans: which workload families run, how many cases per tier, and the
//! glue that runs a case and applies the property's monitors.
use crate::{
    app::stream_key,
    fam::duplex::{self, Profile},
    mon,
    runner::{CaseCtx, PlanItem},
    verdict::{CaseReport, Tier},
    view::WireView,
};

pub fn plan_for(property: &str) -> Option<(&'static str, Vec<PlanItem>)> {
    Some(match property {
        "C01" => (
            "C01",
            vec![
                PlanItem {
                    family: "duplex",
                    run: c01_duplex,
                    quick: 20000,
                    thorough: 600000,
                    determinism_check: true,
                },
                PlanItem { family: "probe_faults", run: c01_probe_faults, quick: 6000, thorough: 120000, determinism_check: false },
            ],
        ),
        "C02" => (
            "C02",
            vec![
                PlanItem {
                    family: "fairlossy",
                    run: c02_fairlossy,
                    quick: 6000,
                    thorough: 200000,
                    determinism_check: true,
                },
                PlanItem {
                    family: "lossfree",
                    run: c02_lossfree,
                    quick: 6000,
                    thorough: 200000,
                    determinism_check: true,
                },
                PlanItem {
                    family: "single_fault",
                    run: c02_single_fault,
                    quick: 12800,
                    thorough: 512000,
                    determinism_check: false,
                },
            ],
        ),
        "C03" => (
            "C03",
            vec![
                PlanItem { family: "general", run: c03_general, quick: 10000, thorough: 300000, determinism_check: true },
                PlanItem { family: "cut_at_ok", run: c03_cut_at_ok, quick: 6000, thorough: 200000, determinism_check: true },
                PlanItem { family: "vanish", run: c03_vanish, quick: 6000, thorough: 200000, determinism_check: false },
                PlanItem { family: "reset_cancel", run: c03_reset_cancel, quick: 6000, thorough: 200000, determinism_check: false },
            ],
        ),
        "C09" => (
            "C09",
            vec![
                PlanItem { family: "direct_seqnr", run: crate::fam::direct::direct_seqnr, quick: 256, thorough: 1024, determinism_check: false },
                PlanItem { family: "metamorphic", run: c09_metamorphic, quick: 3000, thorough: 40000, determinism_check: true },
                PlanItem { family: "script_pairs", run: c09_script_pairs, quick: 9000, thorough: 150000, determinism_check: false },
            ],
        ),
        "C11" => (
            "C11",
            vec![
                PlanItem { family: "wire_grid", run: crate::fam::direct::direct_wire_grid, quick: 256, thorough: 2560, determinism_check: false },
                PlanItem { family: "wire_random", run: crate::fam::direct::direct_wire_random, quick: 2000, thorough: 20000, determinism_check: false },
                PlanItem { family: "emitted", run: c11_emitted, quick: 6000, thorough: 60000, determinism_check: false },
                PlanItem { family: "emitted_resets", run: c11_emitted_resets, quick: 1500, thorough: 15000, determinism_check: false },
            ],
        ),
        "C05" => (
            "C05",
            vec![PlanItem { family: "tx_window", run: c05_tx, quick: 12000, thorough: 120000, determinism_check: true }],
        ),
        "C06" => (
            "C06",
            vec![PlanItem { family: "tx_retransmit", run: c06_tx, quick: 12000, thorough: 120000, determinism_check: true }],
        ),
        "C18" => (
            "C18",
            vec![PlanItem { family: "tx_nagle", run: c18_tx, quick: 10000, thorough: 120000, determinism_check: true }],
        ),
        "C19" => (
            "C19",
            vec![PlanItem { family: "tx_buffer", run: c19_tx, quick: 10000, thorough: 120000, determinism_check: true }],
        ),
        "C04" => (
            "C04",
            vec![PlanItem { family: "rx_honesty", run: c04_rx, quick: 12000, thorough: 150000, determinism_check: true }],
        ),
        "C07" => (
            "C07",
            vec![PlanItem { family: "rx_timing", run: c07_rx, quick: 12000, thorough: 150000, determinism_check: true }],
        ),
        "C14" => (
            "C14",
            vec![
                PlanItem { family: "mtu_duplex", run: c14_duplex, quick: 8000, thorough: 100000, determinism_check: true },
                PlanItem { family: "mtu_converge", run: c14_converge, quick: 600, thorough: 12000, determinism_check: false },
                PlanItem { family: "mtu_peer_sizes", run: c14_tx, quick: 4000, thorough: 60000, determinism_check: false },
                PlanItem { family: "probe_faults", run: c14_probe_faults, quick: 4000, thorough: 80000, determinism_check: false },
            ],
        ),
        "C08" => (
            "C08",
            vec![
                PlanItem { family: "lifecycle", run: c08_life, quick: 10000, thorough: 100000, determinism_check: true },
                PlanItem { family: "deaf_sender", run: c08_deaf_sender, quick: 600, thorough: 6000, determinism_check: false },
            ],
        ),
        "C10" => (
            "C10",
            vec![
                PlanItem { family: "hostile", run: c10_hostile, quick: 6000, thorough: 100000, determinism_check: true },
                PlanItem { family: "duplex_scan", run: c10_duplex_scan, quick: 6000, thorough: 60000, determinism_check: false },
                PlanItem { family: "script_scan", run: c10_script_scan, quick: 12000, thorough: 120000, determinism_check: false },
                PlanItem { family: "accept_service", run: c10_accept_service, quick: 6000, thorough: 60000, determinism_check: false },
            ],
        ),
        "C12" => (
            "C12",
            vec![
                PlanItem { family: "multi", run: c12_multi, quick: 8000, thorough: 100000, determinism_check: true },
                PlanItem { family: "accept_service", run: c12_accept_service, quick: 6000, thorough: 60000, determinism_check: false },
            ],
        ),
        "C13" => (
            "C13",
            vec![PlanItem { family: "accept", run: c13_accept, quick: 12000, thorough: 150000, determinism_check: true }],
        ),
        "C17" => (
            "C17",
            vec![PlanItem { family: "handshake", run: c17_hs, quick: 16000, thorough: 250000, determinism_check: true }],
        ),
        "C16" => (
            "C16",
            vec![PlanItem { family: "direct_rtte", run: crate::fam::direct::direct_rtte, quick: 8000, thorough: 40000, determinism_check: false }],
        ),
        "C15" => (
            "C15",
            vec![
                PlanItem { family: "direct_cubic", run: crate::fam::direct::direct_cubic, quick: 12000, thorough: 60000, determinism_check: false },
                PlanItem { family: "recovery_window", run: c15_recovery_window, quick: 6000, thorough: 60000, determinism_check: false },
            ],
        ),
        _ => return None,
    })
}

/// C09 metamorphic family: the same case twice, identical in everything except the values the
/// environment's random_u16 hands out (connection id base and initial sequence number of each
/// side): once small, once placed shortly before 65535. The normalised wire traces and the
/// application histories (with their virtual timestamps) must be identical.
fn c09_metamorphic(ctx: &CaseCtx) -> CaseReport {
    use crate::events::{ApiOp, Ev, MS};
    let mut rep = CaseReport::new(ctx.family, ctx.index, ctx.case_seed);
    let mut rng = crate::prng::Prng::new(ctx.case_seed ^ 0x3E7A);
    let big_window = ctx.index % 5 == 0;
    let profile = if rng.chance(0.5) { Profile::LossFree } else { Profile::General };
    let mut g = duplex::generate(ctx.case_seed, profile, if big_window { 1_200_000 } else { 200_000 });
    g.cfg.coordinated_close = true;
    for s in 0..2 {
        g.cfg.w[s].end = crate::app::WriterEnd::Shutdown;
        g.cfg.r[s].stop = crate::app::ReaderStop::Never;
    }
    if big_window {
        // small segments and large buffers: more than a thousand packets in flight
        let mtu = rng.usize_range(120, 300);
        g.cfg.a.link_mtu = Some(mtu);
        g.cfg.b.link_mtu = Some(mtu);
        for c in [&mut g.cfg.a, &mut g.cfg.b] {
            c.rx_buf = None;
            c.tx_buf_initial = Some(1 << 20);
            c.tx_buf_max = Some(1 << 20);
        }
        let big = rng.below(2) as usize;
        g.cfg.w[big].total = rng.usize_range(300_000, 1_000_000);
        g.cfg.w[big].chunk = (65536, 400_000);
        g.cfg.w[big].pause_prob = 0.0;
        g.cfg.w[1 - big].total = g.cfg.w[1 - big].total.min(2000).max(1);
        g.cfg.r[1 - big] = crate::app::ReaderPlan::greedy();
        let lat = *rng.pick(&[20u64, 50, 100]) * MS;
        g.plan = crate::sim::FaultPlan::perfect(rng.next_u64()).with_latency(lat, lat);
    }
    g.cfg.tail = 2 * crate::events::SEC;
    let near = |rng: &mut crate::prng::Prng| 65535u16.wrapping_sub(rng.below(if big_window { 6000 } else { 3000 }) as u16);
    let placements: [[u16; 4]; 2] = [
        [rng.range(1, 500) as u16 * 2, rng.range(1, 2000) as u16, rng.range(600, 900) as u16 * 2, rng.range(3000, 5000) as u16],
        match rng.below(3) {
            0 => [near(&mut rng), near(&mut rng), near(&mut rng), near(&mut rng)],
            1 => [rng.below(65536) as u16, near(&mut rng), rng.below(65536) as u16, rng.range(1, 60000) as u16],
            _ => [rng.below(65536) as u16, rng.range(1, 60000) as u16, rng.below(65536) as u16, near(&mut rng)],
        },
    ];
    let mut placements = placements;
    if big_window {
        // make sure the bulk sender's numbers cross 65535 in the middle of the transfer
        let big = if g.cfg.w[0].total > g.cfg.w[1].total { 0 } else { 1 };
        let pkts = g.cfg.w[big].total / (g.cfg.a.max_payload(!g.cfg.ipv6)).max(1);
        let back = rng.range(50, (pkts as u64).clamp(100, 8000)) as u16;
        placements[1][if big == 0 { 1 } else { 3 }] = 65535u16.wrapping_sub(back);
    }
    rep.desc = format!("{} plan[{}] placements(cidA,isnA,cidB,isnB)={:?}", g.cfg.describe(), g.plan.describe(), placements);
    let plan_seed = rng.next_u64();
    let mut sigs: Vec<(u64, Vec<String>, usize, bool, Option<String>)> = Vec::new();
    let mut last_events = Vec::new();
    let mut end_time = 0;
    for p in placements.iter() {
        let mut cfg = g.cfg.clone();
        cfg.a.forced_random = vec![p[0], p[1]];
        cfg.b.forced_random = vec![p[2], p[3]];
        // an identical fault plan for both runs
        let mut plan = duplex::gen_plan(&mut crate::prng::Prng::new(plan_seed), profile, !cfg.ipv6, &cfg.a, &cfg.b);
        if big_window {
            plan = crate::sim::FaultPlan::perfect(plan_seed).with_latency(g.plan.latency.0, g.plan.latency.1);
        }
        let run = duplex::run_duplex(ctx.case_seed, &cfg, plan);
        let view = WireView::build(&run.events);
        let api: Vec<String> = run
            .events
            .iter()
            .filter_map(|e| match &e.ev {
                Ev::Api { side, op, .. } => match op {
                    ApiOp::AcceptRet(_) | ApiOp::ConnectRet(_) | ApiOp::WriteRet(_) | ApiOp::ReadRet(_) | ApiOp::FlushRet(_) | ApiOp::ShutdownRet(_) => {
                        Some(format!("{} s{} {:?}", e.t, side, op))
                    }
                    _ => None,
                },
                _ => None,
            })
            .collect();
        let max_in_flight = {
            // largest number of data packets sent and not yet cumulatively acknowledged (either direction)
            let mut best = 0usize;
            if !view.conns.is_empty() {
                for from_init in [true, false] {
                    let t = crate::view::dir_table(&view, 0, from_init);
                    let mut hi: i64 = -1;
                    let mut acked: i64 = -1;
                    let mut evs: Vec<(usize, bool, i64)> = Vec::new();
                    for &pi in view.conns[0].dir(from_init) {
                        if let Some(pk) = &view.pkts[pi].pkt {
                            if pk.ty == crate::wire::ST_DATA {
                                evs.push((view.pkts[pi].idx, true, t.idx_of(pk.seq)));
                            }
                        }
                    }
                    for &pi in view.conns[0].dir(!from_init) {
                        let p = &view.pkts[pi];
                        if let (Some(pk), Some((_, ri))) = (&p.pkt, p.recvs.first()) {
                            if pk.ty != crate::wire::ST_SYN {
                                evs.push((*ri, false, t.idx_of(pk.ack)));
                            }
                        }
                    }
                    evs.sort();
                    for (_, is_send, idx) in evs {
                        if is_send {
                            hi = hi.max(idx);
                        } else {
                            acked = acked.max(idx);
                        }
                        best = best.max((hi - acked).max(0) as usize);
                    }
                }
            }
            best
        };
        rep.counters.max("max_packets_in_flight", max_in_flight as u64);
        if max_in_flight > 1024 {
            rep.counters.inc("c09_runs_with_more_than_1024_in_flight");
        }
        let crossed = view.conns.first().map(|c| {
            let wraps = |first: Option<u16>, n: usize| first.map(|f| f as usize + n > 65535).unwrap_or(false);
            wraps(c.first_data_seq(true), crate::view::dir_table(&view, 0, true).entries.len())
                || wraps(c.first_data_seq(false), crate::view::dir_table(&view, 0, false).entries.len())
        }).unwrap_or(false);
        if crossed {
            rep.counters.inc("c09_runs_crossing_the_wrap");
        }
        sigs.push((view.trace_hash(), api, view.pkts.len(), run.deadline_hit, run.panicked.clone()));
        end_time = run.end_time;
        last_events = run.events;
    }
    rep.counters.inc("c09_pairs_compared");
    let (a, b) = (&sigs[0], &sigs[1]);
    if a.4.is_some() || b.4.is_some() {
        rep.inconclusive.push(format!("panic during a run: {:?} / {:?}", a.4, b.4));
    }
    if a.0 != b.0 || a.1 != b.1 {
        let first_api = a.1.iter().zip(b.1.iter()).position(|(x, y)| x != y);
        let detail = match first_api {
            Some(i) => format!("application histories differ at return #{i}: small ISNs: {:?} / placed ISNs: {:?}", a.1.get(i), b.1.get(i)),
            None if a.1.len() != b.1.len() => format!("application histories differ in length: {} vs {} returns (first extra: {:?})", a.1.len(), b.1.len(), if a.1.len() > b.1.len() { a.1.get(b.1.len()) } else { b.1.get(a.1.len()) }),
            None => format!("application histories equal, wire traces differ ({} vs {} datagrams)", a.2, b.2),
        };
        rep.violate(
            "C09",
            "behaviour-depends-on-isn",
            format!("metamorphic {}", if big_window { "more-than-1024-packets-in-flight-family" } else { "general-family" }),
            format!("the run with initial numbers {:?} behaves differently from the run with {:?}: {detail}", placements[1], placements[0]),
            None,
        );
    }
    rep.trace_hash = b.0;
    rep.nontrivial = true;
    rep.end_time = end_time;
    if ctx.keep_events || !rep.violations.is_empty() {
        rep.events = last_events;
    }
    rep
}

/// C09 on the scripted families: the same script (receiver scripts with half-closed states and
/// packets after FIN, sender scripts with losses, duplicate / selective / stale ACKs and silence,
/// handshake / teardown walks) is run with several placements of the two initial sequence numbers -
/// local below remote, remote below local, local numbers wrapping in the middle of the script,
/// remote numbers wrapping - and everything the real endpoint emits (time, type, sequence and
/// acknowledgement numbers relative to the two initial numbers, window, selective-ACK bits, payload
/// length) and every application return must be identical.
fn c09_script_pairs(ctx: &CaseCtx) -> CaseReport {
    use crate::events::{ApiOp, Ev};
    use crate::fam::{hsscript as hs, rxscript as rx, txscript as tx};
    let mut rep = CaseReport::new(ctx.family, ctx.index, ctx.case_seed);
    let mut rng = crate::prng::Prng::new(ctx.case_seed ^ 0x15_2A1D);
    let kind = ctx.index % 4;
    // how many sequence numbers each side uses at most (to place a wrap inside the script)
    let (span_local, span_peer, desc): (u64, u64, String) = match kind {
        0 | 1 => {
            let c = rx::generate(ctx.case_seed, if kind == 0 { rx::RxFocus::Honesty } else { rx::RxFocus::Timing }, 150);
            (4, c.lens.len() as u64 + 4, format!("rx {}", c.describe()))
        }
        2 => {
            let c = tx::generate(ctx.case_seed, tx::TxFocus::Retransmit, 80_000);
            ((c.writer.total / c.sock.min_payload(!c.ipv6).max(1)) as u64 + 4, 4, format!("tx {}", c.describe()))
        }
        _ => {
            let c = hs::generate(ctx.case_seed);
            (12, 12, format!("hs {}", c.describe()))
        }
    };
    let small = |r: &mut crate::prng::Prng| r.range(1, 2000) as u16;
    let mid = |r: &mut crate::prng::Prng| r.range(3000, 30000) as u16;
    let wrapping = |r: &mut crate::prng::Prng, span: u64| 65535u16.wrapping_sub(r.below(span + 2) as u16);
    let base = (small(&mut rng), mid(&mut rng));
    let mut layouts: Vec<(&'static str, u16, u16)> = vec![("local below remote", base.0, base.1), ("remote below local", base.1, base.0)];
    if rng.chance(0.5) {
        layouts.push(("local numbers wrap", wrapping(&mut rng, span_local), mid(&mut rng)));
    } else {
        layouts.push(("remote numbers wrap", mid(&mut rng), wrapping(&mut rng, span_peer)));
    }
    if rng.chance(0.3) {
        layouts.push(("both near the wrap", wrapping(&mut rng, span_local), wrapping(&mut rng, span_peer)));
    }
    let cid = rng.below(65536) as u16;
    rep.desc = format!("{desc} layouts(local isn, remote isn)={:?}", layouts);
    let mut sigs: Vec<(Vec<String>, Option<String>)> = Vec::new();
    let mut last_events = Vec::new();
    let mut end_time = 0;
    for (_, local_isn, peer_isn) in &layouts {
        let forced = vec![cid, *local_isn];
        let (events, panicked, end, real_port) = match kind {
            0 | 1 => {
                let mut c = rx::generate(ctx.case_seed, if kind == 0 { rx::RxFocus::Honesty } else { rx::RxFocus::Timing }, 150);
                c.peer_isn = *peer_isn;
                c.sock.forced_random = forced;
                let r = rx::run_rx(ctx.case_seed, &c);
                (r.events, r.panicked, r.end_time, rx::REAL_PORT)
            }
            2 => {
                let mut c = tx::generate(ctx.case_seed, tx::TxFocus::Retransmit, 80_000);
                c.peer_isn = *peer_isn;
                c.sock.forced_random = forced;
                let r = tx::run_tx(ctx.case_seed, &c);
                (r.events, r.panicked, r.end_time, tx::REAL_PORT)
            }
            _ => {
                let mut c = hs::generate(ctx.case_seed);
                c.peer_isn = *peer_isn;
                c.sock.forced_random = forced;
                let r = hs::run_hs(ctx.case_seed, &c, false);
                (r.events, r.panicked, r.end_time, hs::REAL_PORT)
            }
        };
        let mut sig: Vec<String> = Vec::new();
        let mut local0: Option<u16> = None;
        for e in &events {
            match &e.ev {
                Ev::Send { src, pkt: Some(p), scripted: false, .. } if src.port() == real_port => {
                    let l0 = *local0.get_or_insert(p.seq);
                    let rel_ack = if p.ty == crate::wire::ST_SYN { 0 } else { p.ack.wrapping_sub(*peer_isn) };
                    sig.push(format!("{} ty{} seq+{} ack+{} wnd{} len{} sack{:?}", e.t, p.ty, p.seq.wrapping_sub(l0), rel_ack, p.wnd, p.payload.len(), p.sack()));
                }
                Ev::Api { side, op, .. } => match op {
                    ApiOp::AcceptRet(_) | ApiOp::ConnectRet(_) | ApiOp::WriteRet(_) | ApiOp::ReadRet(_) | ApiOp::FlushRet(_) | ApiOp::ShutdownRet(_) => sig.push(format!("{} s{} {:?}", e.t, side, op)),
                    _ => {}
                },
                _ => {}
            }
        }
        rep.counters.add("c09_script_emissions_compared", sig.len() as u64);
        if (*local_isn as u64) + span_local > 65535 || (*peer_isn as u64) + span_peer > 65535 {
            rep.counters.inc("c09_script_runs_placed_at_the_wrap");
        }
        sigs.push((sig, panicked));
        end_time = end;
        last_events = events;
    }
    rep.counters.add("c09_script_layouts_run", layouts.len() as u64);
    for k in 1..sigs.len() {
        rep.counters.inc("c09_script_pairs_compared");
        if sigs[0].1.is_some() || sigs[k].1.is_some() {
            rep.inconclusive.push(format!("panic during a run: {:?} / {:?}", sigs[0].1, sigs[k].1));
            continue;
        }
        if sigs[0].0 != sigs[k].0 {
            let i = sigs[0].0.iter().zip(sigs[k].0.iter()).position(|(x, y)| x != y).unwrap_or(sigs[0].0.len().min(sigs[k].0.len()));
            rep.violate(
                "C09",
                "behaviour-depends-on-isn",
                format!("script {}", ["rx-honesty", "rx-timing", "tx-retransmit", "handshake"][kind as usize]),
                format!(
                    "the same script behaves differently with initial numbers {:?} ({}) than with {:?} ({}): first difference at emission / return #{i}: {:?} vs {:?}",
                    (layouts[k].1, layouts[k].2),
                    layouts[k].0,
                    (layouts[0].1, layouts[0].2),
                    layouts[0].0,
                    sigs[k].0.get(i),
                    sigs[0].0.get(i)
                ),
                None,
            );
            break;
        }
    }
    rep.trace_hash = crate::prng::mix2(ctx.case_seed, sigs[0].0.len() as u64);
    rep.nontrivial = sigs[0].0.len() > 3;
    rep.end_time = end_time;
    if ctx.keep_events || !rep.violations.is_empty() {
        rep.events = last_events;
    }
    rep
}

/// C11, emitted RESETs: the one place where the library emits an ST_RESET is the refusal of a SYN
/// that meets a full backlog. Backlog-shaped cases of the accept family; every RESET the listener
/// emits must be parseable, carry the refused SYN's own connection id (the id its sender receives
/// on) and acknowledge the SYN's sequence number (the C13 backlog oracles, reported under C11).
fn c11_emitted_resets(ctx: &CaseCtx) -> CaseReport {
    use crate::fam::accept as ac;
    let mut rep = CaseReport::new(ctx.family, ctx.index, ctx.case_seed);
    // search forward from the case seed for a Backlog-shaped configuration
    let mut found = None;
    for k in 0..16u64 {
        let cs = crate::prng::mix2(ctx.case_seed, k);
        let (cfg, plan, pdesc) = ac::generate(cs);
        if cfg.shape == ac::Shape::Backlog {
            found = Some((cs, cfg, plan, pdesc));
            break;
        }
    }
    let (cs, cfg, plan, pdesc) = match found {
        Some(x) => x,
        None => {
            rep.counters.inc("c11_reset_cases_skipped");
            return rep;
        }
    };
    rep.desc = format!("{} plan[{}]", cfg.describe(), pdesc);
    let run = ac::run_accept(cs, &cfg, plan);
    let view = WireView::build(&run.events);
    let mut tmp = CaseReport::new(ctx.family, ctx.index, ctx.case_seed);
    mon::c13::check(&mut tmp, &run.events, &cfg, run.result.as_ref());
    for v in &tmp.violations {
        if v.rule == "backlog" && (v.signature.contains("RESET") || v.signature.contains("reset")) {
            rep.violate("C11", "reset-fields", v.signature.clone(), v.detail.clone(), v.at);
        }
    }
    let mut resets = 0u64;
    for p in &view.pkts {
        if p.src == ac::listener_addr() {
            if let Some(k) = &p.pkt {
                if k.ty == crate::wire::ST_RESET {
                    resets += 1;
                    if k.ver != 1 || !k.payload.is_empty() {
                        rep.violate("C11", "reset-fields", "malformed RESET", format!("RESET emitted at {} us: version {} payload {}", p.t, k.ver, k.payload.len()), Some(p.t));
                    }
                }
            } else {
                rep.violate("C11", "emitted-unparseable", "listener", format!("datagram emitted at {} us is rejected by the independent parser", p.t), Some(p.t));
            }
        }
    }
    rep.counters.add("c11_emitted_resets_checked", resets);
    rep.counters.add("datagrams", view.pkts.len() as u64);
    rep.nontrivial = resets > 0;
    let end = run.end_time;
    finish(&mut rep, ctx, &view, run.events, end);
    rep
}

/// C11, emitted traffic: every datagram a real socket puts on the wire in a generated duplex
/// case must be accepted by the independent parser, carry version 1, a payload exactly when it
/// is ST_DATA, and the connection id owed to its direction.
fn c11_emitted(ctx: &CaseCtx) -> CaseReport {
    let mut rep = CaseReport::new(ctx.family, ctx.index, ctx.case_seed);
    let g = duplex::generate(ctx.case_seed, Profile::General, 60_000);
    rep.desc = format!("{} plan[{}]", g.cfg.describe(), g.plan_desc);
    let cfg = g.cfg.clone();
    let run = duplex::run_duplex(ctx.case_seed, &g.cfg, g.plan);
    let view = WireView::build(&run.events);
    let addrs = duplex_addrs(&cfg);
    mon::c11::check_emitted(&mut rep, &run.events, addrs[0], addrs[1]);
    rep.nontrivial = rep.counters.get("c11_emitted_datagrams_checked") > 3;
    let end = run.end_time;
    finish(&mut rep, ctx, &view, run.events, end);
    rep
}

fn tx_common(ctx: &CaseCtx, rep: &mut CaseReport, focus: crate::fam::txscript::TxFocus, max_total: usize) -> (crate::fam::txscript::TxCfg, crate::sim::CaseRun<crate::fam::txscript::TxOutcome>) {
    tx_common_opts(ctx, rep, focus, max_total, false)
}

fn tx_common_opts(ctx: &CaseCtx, rep: &mut CaseReport, focus: crate::fam::txscript::TxFocus, max_total: usize, snapshots: bool) -> (crate::fam::txscript::TxCfg, crate::sim::CaseRun<crate::fam::txscript::TxOutcome>) {
    let mut cfg = crate::fam::txscript::generate(ctx.case_seed, focus, max_total);
    cfg.keep_snapshots = snapshots && cfg.writer.total < 300_000;
    rep.desc = cfg.describe();
    let run = crate::fam::txscript::run_tx(ctx.case_seed, &cfg);
    if let Some(p) = &run.panicked {
        rep.inconclusive.push(format!("panic during the run: {p}"));
    }
    (cfg, run)
}

fn c05_tx(ctx: &CaseCtx) -> CaseReport {
    let mut rep = CaseReport::new(ctx.family, ctx.index, ctx.case_seed);
    // both the window focus and the silence sub-family of the retransmit focus
    let focus = if ctx.index % 4 == 3 { crate::fam::txscript::TxFocus::Retransmit } else { crate::fam::txscript::TxFocus::Window };
    let (cfg, run) = tx_common_opts(ctx, &mut rep, focus, if ctx.tier == Tier::Quick { 150_000 } else { 600_000 }, ctx.index % 2 == 0);
    let view = WireView::build(&run.events);
    if let Some(m) = mon::sender::build(&run.events, &view, cfg.real_initiates, cfg.sock.min_payload(!cfg.ipv6)) {
        mon::c05::check(&mut rep, &m, &run.events);
    }
    rep.counters.add("datagrams", view.pkts.len() as u64);
    rep.nontrivial = rep.counters.get("c05_first_transmissions_checked") > 2;
    let end = run.end_time;
    finish(&mut rep, ctx, &view, run.events, end);
    rep
}

fn c18_tx(ctx: &CaseCtx) -> CaseReport {
    let mut rep = CaseReport::new(ctx.family, ctx.index, ctx.case_seed);
    let mut cfg = crate::fam::txscript::generate(ctx.case_seed, crate::fam::txscript::TxFocus::Nagle, if ctx.tier == Tier::Quick { 40_000 } else { 120_000 });
    // snapshots are needed for the Nagle-off clause
    cfg.keep_snapshots = cfg.sock.disable_nagle;
    rep.desc = cfg.describe();
    let run = crate::fam::txscript::run_tx(ctx.case_seed, &cfg);
    if let Some(p) = &run.panicked {
        rep.inconclusive.push(format!("panic during the run: {p}"));
    }
    let view = WireView::build(&run.events);
    let real_addr = if cfg.ipv6 { crate::sim::v6(crate::fam::txscript::REAL_PORT) } else { crate::sim::v4(crate::fam::txscript::REAL_PORT) };
    if cfg.sock.disable_nagle {
        mon::c18::check_nagle_off(&mut rep, &run.events, real_addr);
    } else if let Some(m) = mon::sender::build(&run.events, &view, cfg.real_initiates, cfg.sock.min_payload(!cfg.ipv6)) {
        mon::c18::check_nagle_on(&mut rep, &m, &run.events);
        mon::c18::check_release_on_drain(&mut rep, &m, &run.events);
    }
    rep.counters.add("datagrams", view.pkts.len() as u64);
    rep.nontrivial = rep.counters.get("c18_first_transmissions_checked") + rep.counters.get("c18_nagle_off_polls_checked") > 2;
    let end = run.end_time;
    finish(&mut rep, ctx, &view, run.events, end);
    rep
}

fn c19_tx(ctx: &CaseCtx) -> CaseReport {
    let mut rep = CaseReport::new(ctx.family, ctx.index, ctx.case_seed);
    let mut cfg = crate::fam::txscript::generate(ctx.case_seed, crate::fam::txscript::TxFocus::Buffer, if ctx.tier == Tier::Quick { 300_000 } else { 3_000_000 });
    cfg.keep_snapshots = ctx.index % 3 == 0 && cfg.writer.total < 200_000;
    rep.desc = cfg.describe();
    let run = crate::fam::txscript::run_tx(ctx.case_seed, &cfg);
    if let Some(p) = &run.panicked {
        rep.inconclusive.push(format!("panic during the run: {p}"));
    }
    let view = WireView::build(&run.events);
    let real_addr = if cfg.ipv6 { crate::sim::v6(crate::fam::txscript::REAL_PORT) } else { crate::sim::v4(crate::fam::txscript::REAL_PORT) };
    let limit = cfg.sock.tx_buf_initial.unwrap_or(32 * 1024).max(cfg.sock.tx_buf_max.unwrap_or(1024 * 1024));
    if let Some(m) = mon::sender::build(&run.events, &view, cfg.real_initiates, cfg.sock.min_payload(!cfg.ipv6)) {
        mon::c19::check(&mut rep, &m, &run.events, limit, real_addr);
    }
    mon::c19::check_silent_peer(&mut rep, &run.events, real_addr);
    if !view.conns.is_empty() {
        let mut scratch = CaseReport::new("scratch", 0, 0);
        mon::c01::check_wire_dir(&mut scratch, &view, 0, cfg.real_initiates, stream_key(ctx.case_seed, 0, 0), "tx");
        rep.counters.add("c19_wire_content_checked", scratch.counters.get("c01_wire_data_packets_checked"));
        for v in scratch.violations {
            rep.violate("C19", v.rule, format!("content {}", v.signature), v.detail, v.at);
        }
    }
    rep.counters.add("datagrams", view.pkts.len() as u64);
    rep.nontrivial = rep.counters.get("c19_write_returns_checked") > 1;
    let end = run.end_time;
    finish(&mut rep, ctx, &view, run.events, end);
    rep
}

fn c04_rx(ctx: &CaseCtx) -> CaseReport {
    use crate::fam::rxscript as rx;
    let mut rep = CaseReport::new(ctx.family, ctx.index, ctx.case_seed);
    let mut cfg = rx::generate(ctx.case_seed, rx::RxFocus::Honesty, if ctx.tier == Tier::Quick { 300 } else { 1500 });
    cfg.keep_snapshots = ctx.index % 2 == 0;
    rep.desc = cfg.describe();
    let run = rx::run_rx(ctx.case_seed, &cfg);
    if let Some(p) = &run.panicked {
        rep.inconclusive.push(format!("panic during the run: {p}"));
    }
    let view = WireView::build(&run.events);
    let real_addr = if cfg.ipv6 { crate::sim::v6(rx::REAL_PORT) } else { crate::sim::v4(rx::REAL_PORT) };
    let reads_to_end = matches!(cfg.reader.stop, crate::app::ReaderStop::Never);
    mon::c04::check(
        &mut rep,
        &run.events,
        &view,
        &mon::c04::Params {
            real_is_initiator: cfg.real_initiates,
            capacity: cfg.sock.rx_buf.unwrap_or(1024 * 1024),
            lens: &cfg.lens,
            respect_window: cfg.respect_window,
            reader_reads_to_end: reads_to_end,
            real_addr,
        },
    );
    rep.counters.add("datagrams", view.pkts.len() as u64);
    rep.nontrivial = rep.counters.get("c04_emitted_packets_checked") > 2;
    let end = run.end_time;
    finish(&mut rep, ctx, &view, run.events, end);
    rep
}

fn c07_rx(ctx: &CaseCtx) -> CaseReport {
    use crate::fam::rxscript as rx;
    let mut rep = CaseReport::new(ctx.family, ctx.index, ctx.case_seed);
    let focus = if ctx.index % 3 == 0 { rx::RxFocus::Honesty } else { rx::RxFocus::Timing };
    let mut cfg = rx::generate(ctx.case_seed, focus, if ctx.tier == Tier::Quick { 120 } else { 500 });
    // the endpoint's own data would make it a sender too; the timing rules are judged on a pure receiver
    cfg.a_writes = 0;
    cfg.keep_snapshots = ctx.index % 3 == 1;
    rep.desc = cfg.describe();
    let run = rx::run_rx(ctx.case_seed, &cfg);
    if let Some(p) = &run.panicked {
        rep.inconclusive.push(format!("panic during the run: {p}"));
    }
    let view = WireView::build(&run.events);
    let real_addr = if cfg.ipv6 { crate::sim::v6(rx::REAL_PORT) } else { crate::sim::v4(rx::REAL_PORT) };
    if cfg.keep_snapshots {
        // the 40 ms bound rests on the delayed-ACK timer waking the task
        mon::timers::check_deadline_wakeups(&mut rep, "C07", &run.events, &[mon::timers::Timer::AckDelay], Some(real_addr), run.end_time);
    }
    mon::c07::check(
        &mut rep,
        &run.events,
        &view,
        &mon::c07::Params {
            real_is_initiator: cfg.real_initiates,
            min_payload: cfg.sock.min_payload(!cfg.ipv6),
            capacity: cfg.sock.rx_buf.unwrap_or(1024 * 1024),
            real_addr,
        },
    );
    rep.counters.add("datagrams", view.pkts.len() as u64);
    rep.nontrivial = rep.counters.get("c07_emissions_seen") > 2;
    let end = run.end_time;
    finish(&mut rep, ctx, &view, run.events, end);
    rep
}

fn c14_duplex(ctx: &CaseCtx) -> CaseReport {
    let mut rep = CaseReport::new(ctx.family, ctx.index, ctx.case_seed);
    let g = duplex::generate(ctx.case_seed, Profile::Mtu, if ctx.tier == Tier::Quick { 150_000 } else { 600_000 });
    rep.desc = format!("{} plan[{}]", g.cfg.describe(), g.plan_desc);
    let cfg = g.cfg.clone();
    let run = duplex::run_duplex(ctx.case_seed, &g.cfg, g.plan);
    if let Some(p) = &run.panicked {
        rep.inconclusive.push(format!("panic during the run: {p}"));
    }
    let view = WireView::build(&run.events);
    let addrs = duplex_addrs(&cfg);
    let ipv4 = !cfg.ipv6;
    mon::c14::check_datagram_sizes(&mut rep, &view, addrs[0], cfg.a.link_mtu.unwrap_or(1500));
    mon::c14::check_datagram_sizes(&mut rep, &view, addrs[1], cfg.b.link_mtu.unwrap_or(1500));
    // per direction: the proven size starts at the sender's protocol minimum
    for (from_init, sc) in [(true, &cfg.a), (false, &cfg.b)] {
        if let Some(m) = sender_model_for(&run.events, &view, from_init, sc.min_payload(ipv4)) {
            mon::c14::check_probe_discipline(&mut rep, &m);
        }
    }
    // content across failed probes
    if !view.conns.is_empty() {
        let mut scratch = CaseReport::new("scratch", 0, 0);
        let r0 = mon::c01::check_wire_dir(&mut scratch, &view, 0, true, stream_key(ctx.case_seed, 0, 0), "w0");
        let r1 = mon::c01::check_wire_dir(&mut scratch, &view, 0, false, stream_key(ctx.case_seed, 0, 1), "w1");
        for (side, r) in [(0u8, &r0), (1u8, &r1)] {
            mon::c01::check_boundary(&mut scratch, &run.events, 0, side, r);
        }
        rep.counters.add("c14_content_reads_checked", scratch.counters.get("c01_reads_checked"));
        rep.counters.add("c14_probe_splits_seen", scratch.counters.get("c01_probe_splits_seen"));
        for v in scratch.violations {
            rep.violate("C14", v.rule, format!("content {}", v.signature), v.detail, v.at);
        }
    }
    rep.counters.add("datagrams", view.pkts.len() as u64);
    rep.nontrivial = rep.counters.get("c14_first_transmissions_checked") > 4;
    let end = run.end_time;
    finish(&mut rep, ctx, &view, run.events, end);
    rep
}

/// The sender model of the duplex family counts API side 0 writes only; for direction B->A the
/// accepted-bytes field is not used by the C14 oracles, so the same builder serves both.
fn sender_model_for(events: &[crate::events::Event], view: &WireView, from_init: bool, min_seg: usize) -> Option<mon::sender::SenderModel> {
    mon::sender::build(events, view, from_init, min_seg)
}

/// Convergence: one bulk sender, a silent size black hole somewhere between the protocol minimum
/// and the link MTU, nothing else lost.
fn c14_converge(ctx: &CaseCtx) -> CaseReport {
    use crate::app::{ReaderPlan, WriterEnd, WriterPlan};
    let mut rep = CaseReport::new(ctx.family, ctx.index, ctx.case_seed);
    let mut rng = crate::prng::Prng::new(ctx.case_seed);
    let ipv6 = rng.chance(0.3);
    let ipv4 = !ipv6;
    let min_mtu = if ipv4 { 576 } else { 1280 };
    let link = match rng.below(3) {
        0 => 1500,
        1 => rng.usize_range(min_mtu + 20, 1500),
        _ => rng.usize_range(1500, 9000),
    };
    // thorough: every path MTU value is eventually hit by the index; quick: sampled
    let path = if ctx.tier == Tier::Thorough { min_mtu + (ctx.index as usize % (link - min_mtu + 1)) } else { rng.usize_range(min_mtu, link) };
    let mut a = crate::sim::SockCfg::default();
    a.link_mtu = Some(link);
    a.mtu_probe_max_retransmissions = Some(rng.below(3) as usize);
    let mut b = crate::sim::SockCfg::default();
    b.link_mtu = Some(link);
    let mut plan = crate::sim::FaultPlan::perfect(rng.next_u64());
    let lat = *rng.pick(&[0u64, 1, 5, 20]) * crate::events::MS;
    plan.latency = (lat, lat);
    let emsg = rng.chance(0.3);
    if emsg {
        plan.emsgsize_mtu_by_src.insert(if ipv4 { crate::sim::v4(duplex::A_PORT) } else { crate::sim::v6(duplex::A_PORT) }, path);
    } else {
        plan.path_mtu = Some(path);
    }
    let total = rng.usize_range(400_000, 900_000).max(200 * link);
    let cfg = duplex::DuplexCfg {
        ipv6,
        a,
        b,
        w: [
            WriterPlan { total, chunk: (65536, 400_000), pause_prob: 0.0, pause: (0, 0), flush_prob: 0.0, start_delay: 0, end: WriterEnd::Shutdown },
            WriterPlan { total: 1, chunk: (1, 1), pause_prob: 0.0, pause: (0, 0), flush_prob: 0.0, start_delay: 0, end: WriterEnd::Shutdown },
        ],
        r: [ReaderPlan::greedy(), ReaderPlan::greedy()],
        tail: crate::events::SEC,
        deadline: std::time::Duration::from_secs(3600),
        keep_snapshots: false,
        coordinated_close: true,
        chaos: duplex::Chaos::None,
    };
    rep.desc = format!("link MTU {link}, path MTU {path} ({}), {} plan[{}]", if emsg { "EMSGSIZE at the sender" } else { "silent black hole" }, cfg.describe(), plan.describe());
    let run = duplex::run_duplex(ctx.case_seed, &cfg, plan);
    if let Some(p) = &run.panicked {
        rep.inconclusive.push(format!("panic during the run: {p}"));
    }
    let view = WireView::build(&run.events);
    let addrs = duplex_addrs(&cfg);
    mon::c14::check_datagram_sizes(&mut rep, &view, addrs[0], link);
    let iphdr = if ipv4 { 20 } else { 40 };
    let fit = path - iphdr - 8 - 20;
    if let Some(m) = mon::sender::build(&run.events, &view, true, cfg.a.min_payload(ipv4)) {
        let n = mon::c14::check_probe_discipline(&mut rep, &m);
        mon::c14::check_convergence(&mut rep, &m, n, fit, cfg.a.min_payload(ipv4), cfg.a.max_payload(ipv4), cfg.a.mtu_probe_max_retransmissions.unwrap_or(1));
    }
    // delivered intact
    let mut scratch = CaseReport::new("scratch", 0, 0);
    if !view.conns.is_empty() {
        let r0 = mon::c01::check_wire_dir(&mut scratch, &view, 0, true, stream_key(ctx.case_seed, 0, 0), "w0");
        mon::c01::check_boundary(&mut scratch, &run.events, 0, 0, &r0);
        for v in scratch.violations {
            rep.violate("C14", v.rule, format!("content {}", v.signature), v.detail, v.at);
        }
    }
    if let Some(out) = &run.result {
        let got = out.r[1].as_ref().map(|r| r.read).unwrap_or(0);
        if got != total {
            rep.violate("C14", "transfer-incomplete", "convergence".to_string(), format!("only {got} of {total} bytes arrived on a path that only discards datagrams above {path} bytes"), None);
        }
    } else if run.deadline_hit {
        rep.violate("C14", "transfer-incomplete", "convergence".to_string(), "virtual deadline reached".to_string(), None);
    }
    rep.counters.add("datagrams", view.pkts.len() as u64);
    rep.nontrivial = rep.counters.get("c14_convergence_cases_checked") > 0;
    let end = run.end_time;
    finish(&mut rep, ctx, &view, run.events, end);
    rep
}

fn c14_tx(ctx: &CaseCtx) -> CaseReport {
    let mut rep = CaseReport::new(ctx.family, ctx.index, ctx.case_seed);
    let (cfg, run) = tx_common(ctx, &mut rep, crate::fam::txscript::TxFocus::Mtu, 120_000);
    let view = WireView::build(&run.events);
    let real_addr = if cfg.ipv6 { crate::sim::v6(crate::fam::txscript::REAL_PORT) } else { crate::sim::v4(crate::fam::txscript::REAL_PORT) };
    mon::c14::check_datagram_sizes(&mut rep, &view, real_addr, cfg.sock.link_mtu.unwrap_or(1500));
    if let Some(m) = mon::sender::build(&run.events, &view, cfg.real_initiates, cfg.sock.min_payload(!cfg.ipv6)) {
        mon::c14::check_probe_discipline(&mut rep, &m);
    }
    rep.counters.add("datagrams", view.pkts.len() as u64);
    rep.nontrivial = rep.counters.get("c14_datagram_sizes_checked") > 4;
    let end = run.end_time;
    finish(&mut rep, ctx, &view, run.events, end);
    rep
}

fn multi_params<'a>(cfg: &crate::fam::multi::MultiCfg, case_seed: u64, results: &'a std::collections::BTreeMap<u32, crate::fam::multi::ConnResult>, perfect: bool, property: &'static str) -> mon::c12::Params<'a> {
    use crate::fam::multi as m;
    let mut limits = std::collections::BTreeMap::new();
    for i in 0..cfg.n_sockets {
        // DEFAULT_MAX_ACTIVE_STREAMS_PER_SOCKET when not configured; the dispatcher reports the
        // effective limit itself in SocketTables, this map only serves the object-count rule
        if let Some(l) = cfg.socks[i].max_live_vsocks {
            limits.insert(m::sock_addr(i), l);
        }
    }
    let plans = (0..cfg.connects.len() as u32).map(|k| (k, m::conn_plan(case_seed, k, cfg.plan_params()))).collect();
    mon::c12::Params {
        limits,
        results,
        plans,
        perfect_network: perfect,
        connect_timeout: cfg.connect_timeout,
        exempt: Default::default(),
        property,
        skip_known_causes: false,
        target_pair: None,
    }
}

fn c12_multi(ctx: &CaseCtx) -> CaseReport {
    use crate::fam::multi as m;
    let mut rep = CaseReport::new(ctx.family, ctx.index, ctx.case_seed);
    let max_total = if ctx.tier == Tier::Quick { 20_000 } else { 60_000 };
    let g = m::generate(ctx.case_seed, m::Flavour::Isolation, max_total);
    rep.desc = format!("{} plan[{}]", g.cfg.describe(), g.plan_desc);
    let run = m::run_multi(ctx.case_seed, &g.cfg, g.plan);
    if let Some(p) = &run.panicked {
        rep.counters.inc("cases_with_panic");
        rep.inconclusive.push(format!("panic during the run: {p}"));
    }
    if run.deadline_hit {
        rep.counters.inc("deadline_hit_cases");
    }
    let view = WireView::build(&run.events);
    let empty = Default::default();
    let results = run.result.as_ref().map(|o| &o.results).unwrap_or(&empty);
    let params = multi_params(&g.cfg, ctx.case_seed, results, g.perfect_network && run.result.is_some(), "C12");
    mon::c12::check(&mut rep, &run.events, &view, ctx.case_seed, &params);
    rep.counters.add("datagrams", view.pkts.len() as u64);
    rep.counters.add("connections_attempted", g.cfg.connects.len() as u64);
    rep.nontrivial = rep.counters.get("c12_connections_established") >= 2;
    let end = run.end_time;
    finish(&mut rep, ctx, &view, run.events, end);
    rep
}

fn c08_life(ctx: &CaseCtx) -> CaseReport {
    use crate::fam::lifecycle as lf;
    let mut rep = CaseReport::new(ctx.family, ctx.index, ctx.case_seed);
    let (mut cfg, plan, pdesc) = lf::generate(ctx.case_seed);
    cfg.keep_snapshots = ctx.index % 3 == 0;
    let lossy = plan.loss > 0.0;
    rep.desc = format!("{} plan[{}]", cfg.describe(), pdesc);
    let run = lf::run_life(ctx.case_seed, &cfg, plan);
    if let Some(p) = &run.panicked {
        rep.counters.inc("cases_with_panic");
        rep.inconclusive.push(format!("panic during the run: {p}"));
    }
    if run.deadline_hit {
        rep.inconclusive.push("virtual deadline hit".into());
    }
    let view = WireView::build(&run.events);
    mon::c08::check(&mut rep, &run.events, &cfg, run.result.as_ref(), ctx.case_seed, run.end_time, lossy);
    if cfg.keep_snapshots {
        // the lifetime bound after a local close rests on the inactivity / final-chance timer
        mon::timers::check_deadline_wakeups(&mut rep, "C08", &run.events, &[mon::timers::Timer::Inactivity], None, run.end_time);
    }
    for r in &cfg.rounds {
        for c in &r.conns {
            rep.labels.push(format!("{:?}/{:?}", c.3, r.fault));
        }
    }
    rep.counters.add("datagrams", view.pkts.len() as u64);
    rep.nontrivial = rep.counters.get("c08_connection_ends_judged") >= 2;
    let end = run.end_time;
    finish(&mut rep, ctx, &view, run.events, end);
    rep
}

/// C08 against a peer that does not take no for an answer: the application lets go of the stream
/// (both halves dropped, or shutdown + reader dropped), the scripted peer acknowledges the local
/// FIN with a data packet (so the acknowledgement is not taken for a close), never sends a FIN of
/// its own and keeps sending in-order data at sub-second gaps for ten virtual minutes, ignoring
/// the zero window it is shown. "Under any network behaviour": the connection object must still be
/// gone within the bound (inactivity limit + 150 s) after the application let go.
fn c08_deaf_sender(ctx: &CaseCtx) -> CaseReport {
    use crate::events::{ApiOp, Ev, MS, SEC};
    use crate::fam::hsscript as hs;
    use librqbit_utp::verif::VerifEvent as V;
    let mut rep = CaseReport::new(ctx.family, ctx.index, ctx.case_seed);
    let mut rng = crate::prng::Prng::new(ctx.case_seed ^ 0xDEAF);
    let mut cfg = hs::generate(ctx.case_seed);
    cfg.silent_initiator = false;
    let ipv4 = !cfg.ipv6;
    let maxp = cfg.sock.max_payload(ipv4);
    cfg.sock.rx_buf = Some(rng.usize_range(2 * maxp + 1, 8 * maxp));
    let inact = *rng.pick(&[3u64, 10, 30]);
    cfg.sock.remote_inactivity_timeout = Some(std::time::Duration::from_secs(inact));
    cfg.sock.dont_wait_for_lastack = false;
    let mut script = Vec::new();
    for _ in 0..rng.range(0, 3) {
        script.push(hs::Act::Write(rng.range(1, 3000) as usize));
        script.push(hs::Act::PeerAckAll);
        script.push(hs::Act::PeerData);
    }
    match rng.below(3) {
        0 => {
            script.push(hs::Act::DropWriter);
            script.push(hs::Act::DropReader);
        }
        1 => {
            script.push(hs::Act::DropReader);
            script.push(hs::Act::DropWriter);
        }
        _ => {
            script.push(hs::Act::Shutdown);
            script.push(hs::Act::DropReader);
        }
    }
    let gap = *rng.pick(&[100u64, 300, 500, 900]) * MS;
    let n = (600 * SEC / gap) as usize;
    for _ in 0..n {
        script.push(hs::Act::PeerData);
        script.push(hs::Act::Advance(gap));
    }
    cfg.script = script;
    cfg.tail = 5 * SEC;
    rep.desc = format!("deaf sender: inactivity limit {inact}s, data every {} ms for 600 s after the application let go; {}", gap / MS, cfg.describe());
    let run = hs::run_hs(ctx.case_seed, &cfg, false);
    if let Some(p) = &run.panicked {
        rep.inconclusive.push(format!("panic during the run: {p}"));
    }
    let view = WireView::build(&run.events);
    let mut let_go: Option<crate::events::Us> = None;
    let mut halves = (false, false);
    let mut dropped: Option<crate::events::Us> = None;
    for e in &run.events {
        match &e.ev {
            Ev::Api { op: ApiOp::DropReader, .. } => {
                halves.0 = true;
            }
            Ev::Api { op: ApiOp::DropWriter, .. } | Ev::Api { op: ApiOp::ShutdownCall, .. } => {
                halves.1 = true;
            }
            Ev::Hook(V::VsockDropped { id, .. }) if id.local.port() == hs::REAL_PORT => {
                dropped.get_or_insert(e.t);
            }
            _ => {}
        }
        if halves == (true, true) && let_go.is_none() {
            let_go = Some(e.t);
        }
    }
    if let Some(t0) = let_go {
        rep.counters.inc("c08_deaf_sender_cases_judged");
        let bound = (inact + 150) * SEC;
        match dropped {
            Some(t) if t <= t0 + bound => {
                rep.counters.max("max_c08_deaf_sender_lifetime_after_let_go_ms", (t.saturating_sub(t0)) / MS);
            }
            Some(t) => rep.violate(
                "C08",
                "terminates",
                "deaf sender: the connection outlived the bound after the application let go",
                format!("let go at {t0} us, connection object dropped at {t} us (bound {} s); the peer kept sending into the zero window", bound / SEC),
                Some(t0 + bound),
            ),
            None => rep.violate(
                "C08",
                "terminates",
                "deaf sender: the connection never ended after the application let go",
                format!("let go at {t0} us, connection object still alive at the end of the run ({} us); the peer kept sending into the zero window", run.end_time),
                Some(t0 + bound),
            ),
        }
    }
    rep.counters.add("datagrams", view.pkts.len() as u64);
    rep.nontrivial = let_go.is_some();
    let end = run.end_time;
    finish(&mut rep, ctx, &view, run.events, end);
    rep
}

fn c13_accept(ctx: &CaseCtx) -> CaseReport {
    use crate::fam::accept as ac;
    let mut rep = CaseReport::new(ctx.family, ctx.index, ctx.case_seed);
    let (cfg, plan, pdesc) = ac::generate(ctx.case_seed);
    rep.desc = format!("{} plan[{}]", cfg.describe(), pdesc);
    let run = ac::run_accept(ctx.case_seed, &cfg, plan);
    if let Some(p) = &run.panicked {
        rep.counters.inc("cases_with_panic");
        rep.inconclusive.push(format!("panic during the run: {p}"));
    }
    if run.deadline_hit {
        rep.inconclusive.push("virtual deadline hit".into());
    }
    let view = WireView::build(&run.events);
    mon::c13::check(&mut rep, &run.events, &cfg, run.result.as_ref());
    rep.labels.push(format!("{:?}", cfg.shape));
    rep.counters.inc(&format!("c13_cases_{:?}", cfg.shape).to_lowercase());
    rep.counters.add("datagrams", view.pkts.len() as u64);
    rep.nontrivial = rep.counters.get("c13_distinct_syns") >= 2;
    let end = run.end_time;
    finish(&mut rep, ctx, &view, run.events, end);
    rep
}

/// The `accept` family seen from another property: foreign hosts send bare SYNs (some with the very
/// connection ids the legitimate clients use) while clients connect; what the C13 oracles observe
/// about the legitimate connects - every connect nothing stands in the way of succeeds, is paired
/// with exactly one accepted stream and reads back its own token, queued requests are served - is
/// reported under `prop` with the rule `accept-service`.
fn accept_service(ctx: &CaseCtx, prop: &'static str, relevant: fn(&crate::fam::accept::AcceptCfg) -> bool) -> CaseReport {
    use crate::fam::accept as ac;
    let mut rep = CaseReport::new(ctx.family, ctx.index, ctx.case_seed);
    let (cfg, plan, pdesc) = ac::generate(ctx.case_seed);
    rep.desc = format!("{} plan[{}]", cfg.describe(), pdesc);
    if !relevant(&cfg) {
        rep.counters.inc("accept_service_cases_skipped_as_irrelevant");
        return rep;
    }
    let run = ac::run_accept(ctx.case_seed, &cfg, plan);
    if let Some(p) = &run.panicked {
        rep.counters.inc("cases_with_panic");
        rep.inconclusive.push(format!("panic during the run: {p}"));
    }
    if run.deadline_hit {
        rep.inconclusive.push("virtual deadline hit".into());
    }
    let view = WireView::build(&run.events);
    let mut tmp = CaseReport::new(ctx.family, ctx.index, ctx.case_seed);
    mon::c13::check(&mut tmp, &run.events, &cfg, run.result.as_ref());
    for v in &tmp.violations {
        let service = v.rule == "pairing" || v.rule == "abandoned" || (v.rule == "backlog" && v.signature.contains("never handed"));
        if service {
            rep.violate(prop, "accept-service", format!("{}: {}", v.rule, v.signature), v.detail.clone(), v.at);
        }
    }
    let lc = prop.to_lowercase();
    rep.counters.add(&format!("{lc}_accept_service_connects_judged"), tmp.counters.get("c13_connects_judged"));
    rep.counters.add(&format!("{lc}_accept_service_successful_connects"), tmp.counters.get("c13_successful_connects"));
    rep.counters.add(&format!("{lc}_accept_service_foreign_syns"), cfg.raw_syns.len() as u64);
    if cfg.client_id_base.is_some() {
        rep.counters.inc(&format!("{lc}_accept_service_cases_with_equal_ids_from_different_addresses"));
    }
    rep.counters.add("datagrams", view.pkts.len() as u64);
    rep.nontrivial = tmp.counters.get("c13_connects_judged") >= 1;
    let end = run.end_time;
    finish(&mut rep, ctx, &view, run.events, end);
    rep
}

fn c10_accept_service(ctx: &CaseCtx) -> CaseReport {
    // hostile part: SYNs from hosts that never follow up
    accept_service(ctx, "C10", |c| !c.raw_syns.is_empty() && !c.connects.is_empty())
}

fn c12_accept_service(ctx: &CaseCtx) -> CaseReport {
    accept_service(ctx, "C12", |c| c.connects.len() >= 2)
}

fn c10_hostile(ctx: &CaseCtx) -> CaseReport {
    use crate::fam::multi as m;
    let mut rep = CaseReport::new(ctx.family, ctx.index, ctx.case_seed);
    let max_total = if ctx.tier == Tier::Quick { 20_000 } else { 60_000 };
    let mut g = m::generate(ctx.case_seed, m::Flavour::Hostile, max_total);
    g.cfg.keep_snapshots = ctx.index % 4 == 0;
    rep.desc = format!("{} plan[{}]", g.cfg.describe(), g.plan_desc);
    let run = m::run_multi(ctx.case_seed, &g.cfg, g.plan);
    if run.deadline_hit {
        rep.counters.inc("deadline_hit_cases");
    }
    let view = WireView::build_opts(&run.events, false);
    mon::c10::check_no_panic_no_bug(&mut rep, &run.events, &run.panicked);
    let empty = Default::default();
    let results = run.result.as_ref().map(|o| &o.results).unwrap_or(&empty);
    let mut params = multi_params(&g.cfg, ctx.case_seed, results, g.perfect_network && run.result.is_some(), "C10");
    let aimed = g.cfg.attack.as_ref().map(|a| a.aim_at_conn0).unwrap_or(false);
    params.skip_known_causes = true;
    if aimed {
        params.exempt.insert(0);
        let (_, f, t) = g.cfg.connects[0];
        params.target_pair = Some((m::sock_addr(t), m::sock_addr(f)));
    }
    // bystanders: content, demultiplexing, table rules, completion
    mon::c12::check(&mut rep, &run.events, &view, ctx.case_seed, &params);
    // service after the attack
    if g.perfect_network && run.result.is_some() {
        for k in &g.cfg.late_connects {
            let r = results.get(&(*k as u32));
            let ok = r.map(|r| r.connected_at.is_some() && r.accepted_on.is_some()).unwrap_or(false);
            rep.counters.inc("c10_post_attack_connects_checked");
            if !ok {
                rep.violate(
                    "C10",
                    "service",
                    format!("a connect issued after the attack was not served: {}", r.and_then(|r| r.connect_error.clone()).unwrap_or_else(|| "connected but never accepted".into())),
                    format!("connection {k} {:?}", g.cfg.connects[*k]),
                    None,
                );
            }
        }
    }
    if g.cfg.keep_snapshots {
        let cfgs = (0..g.cfg.n_sockets).map(|i| (m::sock_addr(i), g.cfg.socks[i].clone())).collect();
        mon::c10::check_bounded(&mut rep, &run.events, &cfgs);
    }
    let mut hostile = 0u64;
    let mut hostile_recv = 0u64;
    for p in &view.pkts {
        if p.scripted {
            hostile += 1;
            hostile_recv += p.recvs.len() as u64;
        }
    }
    rep.counters.add("c10_hostile_datagrams_sent", hostile);
    rep.counters.add("c10_hostile_datagrams_handed_to_sockets", hostile_recv);
    for e in &run.events {
        if let crate::events::Ev::Note(n) = &e.ev {
            if let Some(rest) = n.strip_prefix("attack done: ") {
                if let Some(k) = rest.split("kinds=").nth(1) {
                    for part in k.trim_matches(|c| c == '{' || c == '}').split(", ") {
                        if let Some((name, cnt)) = part.split_once(": ") {
                            rep.counters.add(&format!("c10_kind_{}", name.trim_matches('"')), cnt.parse().unwrap_or(0));
                        }
                    }
                }
            }
        }
    }
    if aimed {
        rep.counters.inc("c10_cases_aimed_at_a_live_connection");
        // what became of the target
        let t = results.get(&0);
        let broke = t.map(|r| r.error[0].is_some() || r.error[1].is_some()).unwrap_or(true);
        rep.counters.inc(if broke { "c10_target_connection_broken" } else { "c10_target_connection_survived" });
    }
    rep.counters.add("datagrams", view.pkts.len() as u64);
    rep.nontrivial = hostile_recv >= 10 && rep.counters.get("c12_connections_established") >= 2;
    let end = run.end_time;
    finish(&mut rep, ctx, &view, run.events, end);
    rep
}

/// Panics and internal-bug errors are looked for in the general duplex family as well (faults,
/// chaos, resets, cancellations - no attacker).
fn c10_duplex_scan(ctx: &CaseCtx) -> CaseReport {
    let mut rep = CaseReport::new(ctx.family, ctx.index, ctx.case_seed);
    let g = duplex::generate(ctx.case_seed, Profile::General, 200_000);
    rep.desc = format!("{} plan[{}]", g.cfg.describe(), g.plan_desc);
    let run = duplex::run_duplex(ctx.case_seed, &g.cfg, g.plan);
    let view = WireView::build(&run.events);
    mon::c10::check_no_panic_no_bug(&mut rep, &run.events, &run.panicked);
    rep.counters.add("datagrams", view.pkts.len() as u64);
    rep.nontrivial = view.pkts.len() > 10;
    let end = run.end_time;
    finish(&mut rep, ctx, &view, run.events, end);
    rep
}

/// The scripted-peer families drive the connection through states and stimuli the duplex family
/// rarely reaches (illegal packet types per state, hostile ACK/window policies, garbage ahead of
/// the window); scan them for panics and internal-bug errors too.
fn c10_script_scan(ctx: &CaseCtx) -> CaseReport {
    let mut rep = CaseReport::new(ctx.family, ctx.index, ctx.case_seed);
    let (events, panicked, end) = match ctx.index % 4 {
        0 | 1 => {
            use crate::fam::hsscript as hs;
            let cfg = hs::generate_hostile(ctx.case_seed);
            rep.desc = format!("hs-hostile {}", cfg.describe());
            let snapshots = ctx.index % 8 == 0;
            let run = hs::run_hs(ctx.case_seed, &cfg, snapshots);
            if snapshots {
                let real_addr = if cfg.ipv6 { crate::sim::v6(hs::REAL_PORT) } else { crate::sim::v4(hs::REAL_PORT) };
                let cfgs = [(real_addr, cfg.sock.clone())].into_iter().collect();
                mon::c10::check_bounded(&mut rep, &run.events, &cfgs);
            }
            rep.counters.add("c10_hostile_peer_datagrams", cfg.script.iter().filter(|a| matches!(a, hs::Act::PeerHostile(_))).count() as u64);
            (run.events, run.panicked, run.end_time)
        }
        2 => {
            use crate::fam::rxscript as rx;
            let cfg = rx::generate(ctx.case_seed, if ctx.index % 8 == 2 { rx::RxFocus::Honesty } else { rx::RxFocus::Timing }, 300);
            rep.desc = format!("rx {}", cfg.describe());
            let run = rx::run_rx(ctx.case_seed, &cfg);
            (run.events, run.panicked, run.end_time)
        }
        _ => {
            use crate::fam::txscript as tx;
            let focus = *crate::prng::Prng::new(ctx.case_seed).pick(&[tx::TxFocus::Window, tx::TxFocus::Retransmit, tx::TxFocus::Nagle, tx::TxFocus::Buffer, tx::TxFocus::Mtu]);
            let cfg = tx::generate(ctx.case_seed, focus, 100_000);
            rep.desc = format!("tx {}", cfg.describe());
            let run = tx::run_tx(ctx.case_seed, &cfg);
            (run.events, run.panicked, run.end_time)
        }
    };
    let view = WireView::build(&events);
    mon::c10::check_no_panic_no_bug(&mut rep, &events, &panicked);
    rep.counters.add("datagrams", view.pkts.len() as u64);
    rep.counters.add("c10_scripted_peer_datagrams", view.pkts.iter().filter(|p| p.scripted).count() as u64);
    rep.nontrivial = view.pkts.len() > 3;
    finish(&mut rep, ctx, &view, events, end);
    rep
}

fn c17_hs(ctx: &CaseCtx) -> CaseReport {
    use crate::fam::hsscript as hs;
    let mut rep = CaseReport::new(ctx.family, ctx.index, ctx.case_seed);
    let cfg = hs::generate(ctx.case_seed);
    rep.desc = cfg.describe();
    let snapshots = ctx.index % 2 == 0;
    let run = hs::run_hs(ctx.case_seed, &cfg, snapshots);
    if let Some(p) = &run.panicked {
        rep.inconclusive.push(format!("panic during the run: {p}"));
    }
    let view = WireView::build(&run.events);
    let real_addr = if cfg.ipv6 { crate::sim::v6(hs::REAL_PORT) } else { crate::sim::v4(hs::REAL_PORT) };
    mon::c17::check(
        &mut rep,
        &run.events,
        &view,
        &mon::c17::Params {
            real_is_initiator: cfg.real_initiates,
            real_addr,
            max_retransmissions: cfg.sock.max_retransmissions.unwrap_or(5),
            silent_initiator: cfg.silent_initiator,
        },
    );
    if snapshots {
        mon::c17::coverage_labels(&mut rep, &run.events, &view, real_addr);
        // SYN-ACK repetition, FIN retransmission and giving up all hang on these timers waking the task
        mon::timers::check_deadline_wakeups(
            &mut rep,
            "C17",
            &run.events,
            &[mon::timers::Timer::SynAckResend, mon::timers::Timer::Retransmit, mon::timers::Timer::Inactivity],
            Some(real_addr),
            run.end_time,
        );
    }
    rep.counters.add("datagrams", view.pkts.len() as u64);
    rep.nontrivial = view.pkts.len() > 3;
    let end = run.end_time;
    finish(&mut rep, ctx, &view, run.events, end);
    rep
}

/// C15 on the whole stack: sender scripts with losses answered by duplicate / selective ACKs; what
/// a fast-recovery episode does to the slow-start threshold (hooked snapshots).
fn c15_recovery_window(ctx: &CaseCtx) -> CaseReport {
    let mut rep = CaseReport::new(ctx.family, ctx.index, ctx.case_seed);
    let mut cfg = crate::fam::txscript::generate(ctx.case_seed, crate::fam::txscript::TxFocus::Retransmit, 300_000);
    let mut r = crate::prng::Prng::new(ctx.case_seed ^ 0xC15_0EC0);
    cfg.policy.silence = None;
    cfg.policy.silence_noise = None;
    cfg.policy.lose_first = *r.pick(&[0.01, 0.03, 0.08]);
    cfg.policy.lose_retx = 0.0;
    cfg.policy.stale_ack = 0.0;
    cfg.policy.sack_capable = r.chance(0.7);
    if !cfg.policy.sack_capable {
        cfg.policy.dup_ack = (1.0, 3);
    }
    cfg.writer.total = cfg.writer.total.max(r.usize_range(60_000, 300_000));
    cfg.writer.pause_prob = 0.0;
    cfg.writer.chunk = (1, 400_000);
    cfg.sock.tx_buf_initial = Some(1 << 20);
    cfg.sock.tx_buf_max = Some(1 << 20);
    cfg.keep_snapshots = true;
    rep.desc = cfg.describe();
    let run = crate::fam::txscript::run_tx(ctx.case_seed, &cfg);
    if let Some(p) = &run.panicked {
        rep.inconclusive.push(format!("panic during the run: {p}"));
    }
    let view = WireView::build(&run.events);
    let real_addr = if cfg.ipv6 { crate::sim::v6(crate::fam::txscript::REAL_PORT) } else { crate::sim::v4(crate::fam::txscript::REAL_PORT) };
    mon::c15w::check_recovery_threshold(&mut rep, &run.events, real_addr);
    rep.counters.add("datagrams", view.pkts.len() as u64);
    rep.nontrivial = rep.counters.get("c15_fast_recovery_entries_seen") > 0;
    let end = run.end_time;
    finish(&mut rep, ctx, &view, run.events, end);
    rep
}

fn c06_tx(ctx: &CaseCtx) -> CaseReport {
    let mut rep = CaseReport::new(ctx.family, ctx.index, ctx.case_seed);
    let (cfg, run) = tx_common_opts(ctx, &mut rep, crate::fam::txscript::TxFocus::Retransmit, if ctx.tier == Tier::Quick { 120_000 } else { 500_000 }, ctx.index % 3 == 0);
    let view = WireView::build(&run.events);
    let real_addr = if cfg.ipv6 { crate::sim::v6(crate::fam::txscript::REAL_PORT) } else { crate::sim::v4(crate::fam::txscript::REAL_PORT) };
    if cfg.keep_snapshots {
        // timeouts and the pipe re-computation in recovery hang on these timers waking the task
        mon::timers::check_deadline_wakeups(&mut rep, "C06", &run.events, &[mon::timers::Timer::Retransmit, mon::timers::Timer::RecoveryPipe], Some(real_addr), run.end_time);
    }
    if let Some(m) = mon::sender::build(&run.events, &view, cfg.real_initiates, cfg.sock.min_payload(!cfg.ipv6)) {
        let realistic = (cfg.policy.dup_ack.0 == 0.0 || cfg.policy.dup_only_with_hole) && cfg.policy.stale_ack == 0.0;
        mon::c06::check(&mut rep, &m, &run.events, cfg.sock.max_retransmissions.unwrap_or(5), real_addr, realistic);
    }
    // (d) content stability: every transmission of a sequence number carries the same bytes
    if !view.conns.is_empty() {
        let mut scratch = CaseReport::new("scratch", 0, 0);
        mon::c01::check_wire_dir(&mut scratch, &view, 0, cfg.real_initiates, stream_key(ctx.case_seed, 0, 0), "tx");
        rep.counters.add("c06_wire_content_checked", scratch.counters.get("c01_wire_data_packets_checked"));
        for v in scratch.violations {
            rep.violate("C06", v.rule, format!("content {}", v.signature), v.detail, v.at);
        }
    }
    rep.counters.add("datagrams", view.pkts.len() as u64);
    rep.nontrivial = rep.counters.get("c06_transmissions_checked") > 2;
    let end = run.end_time;
    finish(&mut rep, ctx, &view, run.events, end);
    rep
}

fn duplex_addrs(cfg: &duplex::DuplexCfg) -> [std::net::SocketAddr; 2] {
    if cfg.ipv6 {
        [crate::sim::v6(duplex::A_PORT), crate::sim::v6(duplex::B_PORT)]
    } else {
        [crate::sim::v4(duplex::A_PORT), crate::sim::v4(duplex::B_PORT)]
    }
}

fn c03_ctx<'a>(
    case_seed: u64,
    cfg: &duplex::DuplexCfg,
    events: &'a [crate::events::Event],
    view: &'a WireView,
) -> Option<mon::c03::Ctx<'a>> {
    let mut c = mon::c03::Ctx::new(events, view, duplex_addrs(cfg))?;
    let mut scratch = CaseReport::new("scratch", 0, 0);
    for (from_init, side) in [(true, 0usize), (false, 1usize)] {
        let r = mon::c01::check_wire_dir(&mut scratch, view, 0, from_init, stream_key(case_seed, 0, side as u8), "x");
        if r.resegmented_after_delivery_at.is_some() {
            c.corrupt_cause[side] = " cause=probe-resegmented-after-delivery";
        }
    }
    Some(c)
}

fn c03_common(rep: &mut CaseReport, ctx: &CaseCtx, g: duplex::Generated, seed: u64) -> (crate::sim::CaseRun<duplex::DuplexOutcome>, duplex::DuplexCfg) {
    rep.desc = format!("{} chaos={:?} plan[{}]", g.cfg.describe(), g.cfg.chaos, g.plan_desc);
    let _ = ctx;
    let cfg = g.cfg.clone();
    (duplex::run_duplex(seed, &g.cfg, g.plan), cfg)
}

fn c03_general(ctx: &CaseCtx) -> CaseReport {
    let mut rep = CaseReport::new(ctx.family, ctx.index, ctx.case_seed);
    let max_total = if ctx.tier == Tier::Quick { 120_000 } else { 500_000 };
    let g = duplex::generate(ctx.case_seed, Profile::General, max_total);
    let (run, cfg) = c03_common(&mut rep, ctx, g, ctx.case_seed);
    let view = WireView::build(&run.events);
    if let Some(p) = &run.panicked {
        rep.inconclusive.push(format!("panic during the run: {p}"));
    }
    if let Some(c) = c03_ctx(ctx.case_seed, &cfg, &run.events, &view) {
        let covered = mon::c03::check_ok_means_acked(&mut rep, &c);
        if cfg.chaos == duplex::Chaos::None {
            let keeps = [matches!(cfg.r[0].stop, crate::app::ReaderStop::Never), matches!(cfg.r[1].stop, crate::app::ReaderStop::Never)];
            mon::c03::check_ok_bytes_delivered(&mut rep, &c, covered, keeps);
        }
        mon::c03::check_eof(&mut rep, &c);
        mon::c03::check_after_death(&mut rep, &c);
    }
    rep.counters.add("datagrams", view.pkts.len() as u64);
    rep.nontrivial = rep.counters.get("c03_ok_returns_checked") + rep.counters.get("c03_eofs_checked") + rep.counters.get("c03_deaths_checked") > 0;
    let end = run.end_time;
    finish(&mut rep, ctx, &view, run.events, end);
    rep
}

fn c03_cut_at_ok(ctx: &CaseCtx) -> CaseReport {
    use crate::app::{ReaderPlan, ReaderStop, WriterEnd};
    let mut rep = CaseReport::new(ctx.family, ctx.index, ctx.case_seed);
    let mut rng = crate::prng::Prng::new(ctx.case_seed ^ 0xC07);
    let profile = if rng.chance(0.5) { Profile::FairLossy } else { Profile::LossFree };
    let mut g = duplex::generate(ctx.case_seed, profile, 150_000);
    let side = rng.below(2) as u8;
    g.cfg.coordinated_close = false;
    g.cfg.chaos = duplex::Chaos::CutAtOk { side };
    // the side under test flushes often and ends with shutdown; both readers keep reading
    g.cfg.w[side as usize].flush_prob = *rng.pick(&[0.0, 0.05, 0.3]);
    g.cfg.w[side as usize].end = if rng.chance(0.7) { WriterEnd::Shutdown } else { WriterEnd::FlushThenDrop };
    // the other side's writer must not end the connection first (a FIN ends both directions)
    g.cfg.w[1 - side as usize].end = WriterEnd::Hold;
    for s in 0..2 {
        let stall = if rng.chance(0.4) { Some((rng.below(100_000) as usize, rng.range(100, 3000) * crate::events::MS)) } else { None };
        g.cfg.r[s] = ReaderPlan {
            buf: *rng.pick(&[(1usize, 64usize), (1, 4096), (65536, 65536)]),
            pause_prob: *rng.pick(&[0.0, 0.2]),
            pause: (crate::events::MS, 40 * crate::events::MS),
            stall,
            start_delay: 0,
            stop: ReaderStop::Never,
        };
    }
    g.cfg.deadline = std::time::Duration::from_secs(900);
    let (run, cfg) = c03_common(&mut rep, ctx, g, ctx.case_seed);
    let view = WireView::build(&run.events);
    if let Some(p) = &run.panicked {
        rep.inconclusive.push(format!("panic during the run: {p}"));
    }
    if let Some(c) = c03_ctx(ctx.case_seed, &cfg, &run.events, &view) {
        let covered = mon::c03::check_ok_means_acked(&mut rep, &c);
        let was_cut = run.events.iter().any(|e| matches!(&e.ev, crate::events::Ev::Note(n) if n.starts_with("network cut")));
        if was_cut {
            // bytes covered by the *first* Ok (the one that cut the network)
            let mut acc = 0u64;
            let mut first_cov: Option<u64> = None;
            let mut pending: Option<u64> = None;
            for e in &run.events {
                if let crate::events::Ev::Api { conn: 0, side: s, op } = &e.ev {
                    if *s != side {
                        continue;
                    }
                    use crate::events::ApiOp::*;
                    match op {
                        WriteRet(Ok(n)) => acc += *n as u64,
                        FlushCall | ShutdownCall => pending = Some(acc),
                        FlushRet(Ok(())) | ShutdownRet(Ok(())) => {
                            if first_cov.is_none() {
                                first_cov = pending;
                            }
                        }
                        _ => {}
                    }
                }
            }
            let _ = covered;
            if let Some(cov) = first_cov {
                // what the peer application obtained by the end of the run (it keeps reading; the run
                // lasts 15 virtual minutes beyond any timer of the library)
                let mut peer_read = 0u64;
                let mut peer_end = "still reading at the end of the run".to_string();
                for e in &run.events {
                    if let crate::events::Ev::Api { conn: 0, side: s, op } = &e.ev {
                        if *s == 1 - side {
                            match op {
                                crate::events::ApiOp::ReadRet(Ok(n)) if *n > 0 => peer_read += *n as u64,
                                crate::events::ApiOp::ReadRet(Ok(0)) => peer_end = "EOF".into(),
                                crate::events::ApiOp::ReadRet(Err(e)) => peer_end = format!("error: {e}"),
                                _ => {}
                            }
                        }
                    }
                }
                mon::c03::check_cut_delivery(&mut rep, &c, side as usize, cov, peer_read, &peer_end);
            }
        }
        mon::c03::check_eof(&mut rep, &c);
        mon::c03::check_after_death(&mut rep, &c);
    }
    rep.counters.add("datagrams", view.pkts.len() as u64);
    rep.nontrivial = rep.counters.get("c03_cut_cases_checked") > 0;
    let end = run.end_time;
    finish(&mut rep, ctx, &view, run.events, end);
    rep
}

fn c03_vanish(ctx: &CaseCtx) -> CaseReport {
    use crate::app::WriterEnd;
    let mut rep = CaseReport::new(ctx.family, ctx.index, ctx.case_seed);
    let mut rng = crate::prng::Prng::new(ctx.case_seed ^ 0xA215);
    let mut g = duplex::generate(ctx.case_seed, if rng.chance(0.5) { Profile::LossFree } else { Profile::FairLossy }, 120_000);
    g.cfg.coordinated_close = false;
    for s in 0..2 {
        g.cfg.w[s].end = WriterEnd::Hold;
        g.cfg.r[s].stop = crate::app::ReaderStop::Never;
    }
    let addrs = duplex_addrs(&g.cfg);
    let vanishing = rng.below(2) as usize;
    let k = 3 + rng.log_range(1, 400);
    g.plan.vanish_at_index = Some((k, addrs[vanishing]));
    g.plan_desc = g.plan.describe();
    g.cfg.deadline = std::time::Duration::from_secs(3600);
    g.cfg.tail = 0;
    let inactivity = g.cfg.a.remote_inactivity_timeout.map(|d| d.as_micros() as u64).unwrap_or(10 * crate::events::SEC);
    // the scenario ends when all drivers end; drivers of the surviving side end when its connection dies
    let (run, cfg) = c03_common(&mut rep, ctx, g, ctx.case_seed);
    let view = WireView::build(&run.events);
    if let Some(p) = &run.panicked {
        rep.inconclusive.push(format!("panic during the run: {p}"));
    }
    let t_vanish = run.events.iter().find_map(|e| match &e.ev {
        crate::events::Ev::Send { fate: crate::events::Fate::Drop("peer-vanished"), .. } => Some(e.t),
        _ => None,
    });
    if let (Some(c), Some(tv)) = (c03_ctx(ctx.case_seed, &cfg, &run.events, &view), t_vanish) {
        let survivor = 1 - vanishing;
        let inact = if survivor == 0 { inactivity } else { cfg.b.remote_inactivity_timeout.map(|d| d.as_micros() as u64).unwrap_or(10 * crate::events::SEC) };
        mon::c03::check_vanish(&mut rep, &c, survivor, tv, inact, run.end_time);
        mon::c03::check_after_death(&mut rep, &c);
        mon::c03::check_ok_means_acked(&mut rep, &c);
    }
    rep.counters.add("datagrams", view.pkts.len() as u64);
    rep.nontrivial = rep.counters.get("c03_vanish_cases_checked") > 0;
    let end = run.end_time;
    finish(&mut rep, ctx, &view, run.events, end);
    rep
}

fn c03_reset_cancel(ctx: &CaseCtx) -> CaseReport {
    let mut rep = CaseReport::new(ctx.family, ctx.index, ctx.case_seed);
    let mut rng = crate::prng::Prng::new(ctx.case_seed ^ 0x2E5E7);
    let mut g = duplex::generate(ctx.case_seed, Profile::General, 120_000);
    let side = rng.below(2) as u8;
    let at = rng.log_range(1, 3000) * crate::events::MS;
    g.cfg.chaos = if rng.chance(0.5) {
        duplex::Chaos::ResetAt { side, at }
    } else {
        duplex::Chaos::CancelAt { side, at }
    };
    // while the transport refuses to send, a connection task legitimately does nothing at all
    // (not even read its inbox); "at once" is judged without simulated send back-pressure
    g.plan.pending_prob = 0.0;
    g.plan_desc = g.plan.describe();
    let (run, cfg) = c03_common(&mut rep, ctx, g, ctx.case_seed);
    let view = WireView::build(&run.events);
    if let Some(p) = &run.panicked {
        rep.inconclusive.push(format!("panic during the run: {p}"));
    }
    if let Some(c) = c03_ctx(ctx.case_seed, &cfg, &run.events, &view) {
        mon::c03::check_after_death(&mut rep, &c);
        mon::c03::check_eof(&mut rep, &c);
        mon::c03::check_ok_means_acked(&mut rep, &c);
        // a processed RESET must surface as an error to the victim's streams
        if let duplex::Chaos::ResetAt { side, .. } = cfg.chaos {
            // the moment the spoofed RESET was handed to the victim's socket
            let reset_id = run.events.iter().find_map(|e| match &e.ev {
                crate::events::Ev::Send { id, scripted: true, pkt: Some(p), .. } if p.ty == crate::wire::ST_RESET => Some(*id),
                _ => None,
            });
            let injected = reset_id.and_then(|rid| run.events.iter().position(|e| matches!(&e.ev, crate::events::Ev::Recv { id, .. } if *id == rid)));
            if let Some(ii) = injected {
                let addr = duplex_addrs(&cfg)[side as usize];
                let alive_before = !run.events[..ii].iter().any(|e| match &e.ev {
                    crate::events::Ev::Hook(librqbit_utp::verif::VerifEvent::VsockDropped { id, .. }) => id.local == addr,
                    crate::events::Ev::Hook(librqbit_utp::verif::VerifEvent::Death { id, .. }) => id.local == addr,
                    _ => false,
                });
                let created = run.events[..ii].iter().any(|e| matches!(&e.ev, crate::events::Ev::Hook(librqbit_utp::verif::VerifEvent::VsockCreated { id }) if id.local == addr));
                if alive_before && created {
                    rep.counters.inc("c03_resets_on_live_connection");
                    let died = run.events[ii..].iter().find_map(|e| match &e.ev {
                        crate::events::Ev::Hook(librqbit_utp::verif::VerifEvent::Death { id, error }) if id.local == addr => Some((e.t, error.clone())),
                        _ => None,
                    });
                    let t0 = run.events[ii].t;
                    match died {
                        Some((t, _)) if t <= t0 + crate::events::MS => {}
                        other => rep.violate(
                            "C03",
                            "reset-not-aborting",
                            "reset".to_string(),
                            format!("a RESET was handed to side {side}'s socket at t={t0} us; its connection ended: {:?}", other),
                            Some(t0),
                        ),
                    }
                }
            }
        }
    }
    rep.counters.add("datagrams", view.pkts.len() as u64);
    rep.nontrivial = rep.counters.get("c03_deaths_checked") > 0;
    let end = run.end_time;
    finish(&mut rep, ctx, &view, run.events, end);
    rep
}

fn c02_fairlossy(ctx: &CaseCtx) -> CaseReport {
    let mut rep = CaseReport::new(ctx.family, ctx.index, ctx.case_seed);
    let max_total = match ctx.tier {
        Tier::Quick => 200_000,
        Tier::Thorough => 1_000_000,
    };
    let mut g = duplex::generate(ctx.case_seed, Profile::FairLossy, max_total);
    // Under sustained loss every segment may need a retransmission, so no clean RTT sample is
    // ever taken and the timeout legitimately stays backed off (Karn); the default 10 s
    // inactivity limit would then end the connection by design. The fair-lossy claim is about
    // the retransmission machinery, so the inactivity limit is configured out of the way.
    g.cfg.a.remote_inactivity_timeout = Some(std::time::Duration::from_secs(900));
    g.cfg.b.remote_inactivity_timeout = Some(std::time::Duration::from_secs(900));
    g.cfg.deadline = std::time::Duration::from_secs(6 * 3600);
    // a slice of the smaller cases records snapshots: every armed protocol timer must wake the task
    g.cfg.keep_snapshots = ctx.index % 5 == 0 && g.cfg.w[0].total + g.cfg.w[1].total < 120_000;
    // a seventh of the cases: the transport refuses a datagram now and then (a full UDP send buffer
    // is no loss: whatever was refused must go out once the transport takes datagrams again)
    if ctx.index % 7 == 3 {
        let mut r = crate::prng::Prng::new(ctx.case_seed ^ 0xBACC_9E55);
        g.plan.pending_prob = *r.pick(&[0.01, 0.05, 0.2]);
        g.plan.pending_for = (crate::events::MS, *r.pick(&[1u64, 5, 30]) * crate::events::MS);
        g.plan_desc = g.plan.describe();
    }
    rep.desc = format!("{} plan[{}]", g.cfg.describe(), g.plan_desc);
    let run = duplex::run_duplex(ctx.case_seed, &g.cfg, g.plan);
    let view = WireView::build(&run.events);
    if let Some(p) = &run.panicked {
        rep.inconclusive.push(format!("panic during the run: {p}"));
    }
    let causes = || duplex_causes(ctx.case_seed, &run.events, &view, run.end_time);
    let symptoms = || mon::diag::symptoms(&run.events);
    mon::c02::check_completion(&mut rep, &g.cfg, &run, &causes, &symptoms);
    if g.cfg.keep_snapshots {
        mon::timers::check_deadline_wakeups(&mut rep, "C02", &run.events, &mon::timers::ALL, None, run.end_time);
    }
    let dropped = view.pkts.iter().filter(|p| matches!(p.fate, crate::events::Fate::Drop(_))).count() as u64;
    rep.counters.add("dropped_datagrams", dropped);
    rep.counters.add("datagrams", view.pkts.len() as u64);
    rep.nontrivial = dropped > 0 && view.pkts.len() > 6;
    let end = run.end_time;
    finish(&mut rep, ctx, &view, run.events, end);
    rep
}

/// Single-fault sweep: take a small loss-free baseline case and re-run it once per datagram
/// position, dropping (or duplicating / delaying) exactly that datagram. 128 positions per
/// baseline; baselines with up to 128 datagrams are swept exhaustively.
fn c02_single_fault(ctx: &CaseCtx) -> CaseReport {
    let mut rep = CaseReport::new(ctx.family, ctx.index, ctx.case_seed);
    let baseline_id = ctx.index / 128;
    let slot = ctx.index % 128;
    // all cases of one baseline share the baseline's seed
    let bseed = crate::runner::case_seed(ctx.seed, "single_fault_baseline", baseline_id);
    let mut g = duplex::generate(bseed, Profile::LossFree, 40_000);
    g.cfg.tail = 2 * crate::events::SEC;
    g.cfg.deadline = std::time::Duration::from_secs(3600);
    // baseline run (loss-free) to learn the trace length
    let base = duplex::run_duplex(bseed, &g.cfg, duplex::generate(bseed, Profile::LossFree, 40_000).plan);
    let n = base
        .events
        .iter()
        .filter(|e| matches!(e.ev, crate::events::Ev::Send { .. }))
        .count() as u64;
    let k = if n <= 128 { slot } else { slot * n / 128 };
    if k >= n || k < 3 {
        // the handshake packets are protected (SYNs are not retransmitted; the accepting side gives
        // up after 1 s by design), positions beyond the trace do not exist
        rep.counters.inc("c02_single_fault_positions_skipped");
        rep.trace_hash = crate::prng::mix2(bseed, k);
        return rep;
    }
    let mut plan = duplex::generate(bseed, Profile::LossFree, 40_000).plan;
    let kind = (baseline_id + slot) % 8;
    let what = match kind {
        0 => {
            plan.dup_indices.insert(k);
            "dup"
        }
        1 => {
            plan.delay_indices.insert(k, 300 * crate::events::MS);
            "delay"
        }
        _ => {
            plan.drop_indices.insert(k);
            "drop"
        }
    };
    rep.desc = format!("baseline {baseline_id} ({n} datagrams) {what} #{k}: {} plan[{}]", g.cfg.describe(), plan.describe());
    let run = duplex::run_duplex(bseed, &g.cfg, plan);
    let view = WireView::build(&run.events);
    if let Some(p) = &run.panicked {
        rep.inconclusive.push(format!("panic during the run: {p}"));
    }
    let causes = || duplex_causes(bseed, &run.events, &view, run.end_time);
    let symptoms = || mon::diag::symptoms(&run.events);
    mon::c02::check_completion(&mut rep, &g.cfg, &run, &causes, &symptoms);
    rep.counters.inc("c02_single_fault_positions_run");
    rep.counters.add("datagrams", view.pkts.len() as u64);
    rep.nontrivial = true;
    let end = run.end_time;
    finish(&mut rep, ctx, &view, run.events, end);
    rep
}

fn c02_lossfree(ctx: &CaseCtx) -> CaseReport {
    use crate::app::{ReaderPlan, ReaderStop};
    use crate::events::MS;
    use crate::prng::Prng;
    let mut rep = CaseReport::new(ctx.family, ctx.index, ctx.case_seed);
    let max_total = match ctx.tier {
        Tier::Quick => 150_000,
        Tier::Thorough => 800_000,
    };
    let mut g = duplex::generate(ctx.case_seed, Profile::LossFree, max_total);
    let mut rng = Prng::new(ctx.case_seed ^ 0x10_55F2EE);
    // readers: greedy from the start, or stalled for a while and then greedy
    for s in 0..2usize {
        let total = g.cfg.w[1 - s].total;
        let stall = if rng.chance(0.4) && total > 2000 {
            Some((rng.below(total as u64) as usize, rng.range(100, 3000) * MS))
        } else {
            None
        };
        g.cfg.r[s] = ReaderPlan {
            buf: (65536, 65536),
            pause_prob: 0.0,
            pause: (0, 0),
            stall,
            start_delay: 0,
            stop: ReaderStop::Never,
        };
    }
    // small receive buffers so that the window closes and has to re-open
    if rng.chance(0.6) {
        let ipv4 = !g.cfg.ipv6;
        let lo = 2 * g.cfg.a.max_payload(ipv4).max(g.cfg.b.max_payload(ipv4)) + 1;
        g.cfg.a.rx_buf = Some(rng.log_range(lo as u64, 20_000.max(lo as u64 + 1)) as usize);
        g.cfg.b.rx_buf = Some(rng.log_range(lo as u64, 20_000.max(lo as u64 + 1)) as usize);
    }
    g.cfg.keep_snapshots = false;
    g.cfg.deadline = std::time::Duration::from_secs(1800);
    let latency = g.plan.latency.0;
    rep.desc = format!("{} plan[{}]", g.cfg.describe(), g.plan_desc);
    let run = duplex::run_duplex(ctx.case_seed, &g.cfg, g.plan);
    let view = WireView::build(&run.events);
    if let Some(p) = &run.panicked {
        rep.inconclusive.push(format!("panic during the run: {p}"));
    }
    let causes = || duplex_causes(ctx.case_seed, &run.events, &view, run.end_time);
    let symptoms = || mon::diag::symptoms(&run.events);
    mon::c02::check_completion(&mut rep, &g.cfg, &run, &causes, &symptoms);
    // greedy phases
    let mut greedy_from = [0u64; 2];
    for s in 0..2usize {
        if g.cfg.r[s].stall.is_some() {
            greedy_from[s] = u64::MAX;
        }
    }
    for e in &run.events {
        if let crate::events::Ev::Note(n) = &e.ev {
            for s in 0..2usize {
                if n == &format!("reader conn=0 side={s} resumes") {
                    greedy_from[s] = e.t;
                }
            }
        }
    }
    // a reader whose stall point was never reached is greedy throughout
    for s in 0..2usize {
        if greedy_from[s] == u64::MAX {
            let stalled = run.events.iter().any(|e| matches!(&e.ev, crate::events::Ev::Note(n) if n.starts_with(&format!("reader conn=0 side={s} stalls"))));
            if !stalled {
                greedy_from[s] = 0;
            }
        }
    }
    // observe until the drivers are done (the tail after that is close-down, judged by C08)
    let done_at = run
        .events
        .iter()
        .find(|e| matches!(&e.ev, crate::events::Ev::Note(n) if n == "drivers done"))
        .map(|e| e.t)
        .unwrap_or(run.end_time);
    mon::c02::check_silence(&mut rep, &run.events, &view, latency, greedy_from, done_at);
    mon::c02::check_idle_actions(&mut rep, &run.events, &view);
    let addrs = if g.cfg.ipv6 {
        [crate::sim::v6(duplex::A_PORT), crate::sim::v6(duplex::B_PORT)]
    } else {
        [crate::sim::v4(duplex::A_PORT), crate::sim::v4(duplex::B_PORT)]
    };
    mon::c02::check_reader_wakeups(&mut rep, &run.events, addrs);
    rep.counters.add("datagrams", view.pkts.len() as u64);
    rep.nontrivial = view.pkts.len() > 6;
    let end = run.end_time;
    finish(&mut rep, ctx, &view, run.events, end);
    rep
}

/// Root causes (known failure mechanisms) visible in the history of a duplex case.
pub fn duplex_causes(case_seed: u64, events: &[crate::events::Event], view: &WireView, end_time: u64) -> Vec<String> {
    let mut out = Vec::new();
    if view.conns.is_empty() {
        return out;
    }
    let t_fail = mon::diag::first_death(events).map(|d| d.0).unwrap_or(end_time);
    for from_init in [true, false] {
        if mon::diag::zero_window_update_lost(view, 0, from_init, t_fail) {
            out.push("zero-window-update-lost".to_string());
            break;
        }
    }
    for from_init in [true, false] {
        if mon::diag::zero_window_update_overtaken(view, 0, from_init, t_fail) {
            out.push("zero-window-update-overtaken".to_string());
            break;
        }
    }
    if mon::diag::retransmissions_exhausted_into_zero_window(events, view, 0) {
        out.push("zero-window-retransmissions-exhausted".to_string());
    }
    let mut scratch = CaseReport::new("scratch", 0, 0);
    for (from_init, side) in [(true, 0u8), (false, 1u8)] {
        let r = mon::c01::check_wire_dir(&mut scratch, view, 0, from_init, stream_key(case_seed, 0, side), "x");
        if r.resegmented_after_delivery_at.is_some() {
            out.push("probe-resegmented-after-delivery".to_string());
            break;
        }
    }
    if mon::diag::reassembler_refused_data(events, view, 0) {
        out.push("reassembler-refused-in-window-data".to_string());
    }
    if mon::diag::ended_with_unsent_segment_larger_than_window(events) {
        out.push("unsent-segment-cut-for-a-larger-window".to_string());
    }
    if mon::diag::own_zero_window_outlasted_inactivity_limit(events, view) {
        out.push("own-zero-window-outlasts-inactivity-limit".to_string());
    }
    if std::env::var_os("UVH_DEBUG_CAUSES").is_some() {
        eprintln!("duplex_causes: t_fail={t_fail} causes={out:?}");
    }
    out
}

/// Common epilogue: hash, events retention.
pub fn finish(rep: &mut CaseReport, ctx: &CaseCtx, view: &WireView, events: Vec<crate::events::Event>, end_time: u64) {
    // A connection task that wakes itself for ever without virtual time advancing never lets the
    // case make progress: whatever property is being checked, that execution violates it (the
    // harness stops the task; see sim.rs).
    for e in &events {
        if let crate::events::Ev::Panic(p) = &e.ev {
            if p.contains("harness: livelock") {
                rep.violate(ctx.property, "livelock", "a connection task polls itself for ever without time advancing", p.clone(), Some(e.t));
            }
        }
    }
    rep.trace_hash = view.trace_hash();
    rep.end_time = end_time;
    if ctx.keep_events || !rep.violations.is_empty() {
        rep.events = events;
    }
}

/// Faults aimed at size probes. A loss-free baseline transfer (link MTUs from the protocol minimum to
/// jumbo, no size black hole) is run once to learn where the sender's probes are - the datagrams
/// that carry, for the first time, a payload larger than anything that sender sent before. Each
/// case then re-runs the baseline with exact faults around one probe: the data packet before it
/// lost, the probe held back for 0.4 - 3 s (it arrives next to the timeout retransmissions), the
/// probe lost, the packet after it lost, the first packet of the other direction after it lost
/// (its acknowledgement), and combinations. Oracles: the content oracles of C01 (reader boundary
/// and wire).
fn probe_faults(ctx: &CaseCtx, prop: &'static str) -> CaseReport {
    use crate::events::{Ev, MS};
    let mut rep = CaseReport::new(ctx.family, ctx.index, ctx.case_seed);
    let baseline_id = ctx.index / 64;
    let slot = ctx.index % 64;
    let bseed = crate::runner::case_seed(ctx.seed, "probe_faults_baseline", baseline_id);
    let make = || {
        let mut g = duplex::generate(bseed, Profile::LossFree, 80_000);
        let mut r = crate::prng::Prng::new(bseed ^ 0x9B0_FA17);
        let ipv4 = !g.cfg.ipv6;
        let min_mtu = if ipv4 { 576 } else { 1280 };
        let link = match r.below(5) {
            0 => None,
            1 => Some(r.usize_range(min_mtu + 100, 1500)),
            2 => Some(3000),
            3 => Some(4500),
            _ => Some(9000),
        };
        g.cfg.a.link_mtu = link;
        g.cfg.b.link_mtu = link;
        g.cfg.a.mtu_probe_max_retransmissions = Some(r.below(3) as usize);
        g.cfg.b.mtu_probe_max_retransmissions = Some(r.below(3) as usize);
        // enough data for several probes, one bulk direction at least
        g.cfg.w[0].total = g.cfg.w[0].total.max(r.usize_range(20_000, 80_000));
        g.cfg.w[0].pause_prob = 0.0;
        let maxp = g.cfg.a.max_payload(ipv4).max(g.cfg.b.max_payload(ipv4));
        for c in [&mut g.cfg.a, &mut g.cfg.b] {
            if let Some(rx) = c.rx_buf {
                c.rx_buf = Some(rx.max(2 * maxp + 1));
            }
        }
        g.cfg.tail = 2 * crate::events::SEC;
        g.cfg.deadline = std::time::Duration::from_secs(3600);
        g
    };
    let g = make();
    let base = duplex::run_duplex(bseed, &g.cfg, make().plan);
    // probes of either sender: (send index, index of that sender's previous data packet, next data packet, first later packet of the other direction)
    let mut sends: Vec<(u64, std::net::SocketAddr, bool, usize)> = Vec::new(); // (id, src, is data, payload)
    for e in &base.events {
        if let Ev::Send { id, src, pkt: Some(p), scripted: false, .. } = &e.ev {
            sends.push((*id, *src, p.ty == crate::wire::ST_DATA, p.payload.len()));
        }
    }
    let mut probes: Vec<(u64, Option<u64>, Option<u64>, Option<u64>)> = Vec::new();
    let mut largest: std::collections::BTreeMap<std::net::SocketAddr, usize> = std::collections::BTreeMap::new();
    for (i, (id, src, is_data, len)) in sends.iter().enumerate() {
        if !*is_data {
            continue;
        }
        let l = largest.entry(*src).or_insert(0);
        if *len > *l {
            if *l > 0 {
                let prev = sends[..i].iter().rev().find(|s| s.1 == *src && s.2).map(|s| s.0);
                let next = sends[i + 1..].iter().find(|s| s.1 == *src && s.2).map(|s| s.0);
                let back = sends[i + 1..].iter().find(|s| s.1 != *src).map(|s| s.0);
                probes.push((*id, prev, next, back));
            }
            *l = *len;
        }
    }
    let which = (slot / 16) as usize;
    let combo = slot % 16;
    if probes.is_empty() || which >= probes.len().min(4) {
        rep.counters.inc(&format!("{}_probe_fault_slots_skipped", prop.to_lowercase()));
        rep.trace_hash = crate::prng::mix2(bseed, slot);
        return rep;
    }
    // spread over the baseline's probes
    let pick = which * probes.len() / probes.len().min(4);
    let (pid, prev, next, back) = probes[pick];
    let mut plan = make().plan;
    let mut what = Vec::new();
    let drop = |plan: &mut crate::sim::FaultPlan, x: Option<u64>, name: &str, what: &mut Vec<String>| {
        if let Some(i) = x {
            plan.drop_indices.insert(i);
            what.push(format!("drop {name} #{i}"));
        }
    };
    let delay = |plan: &mut crate::sim::FaultPlan, ms: u64, what: &mut Vec<String>| {
        plan.delay_indices.insert(pid, ms * MS);
        what.push(format!("delay probe #{pid} by {ms} ms"));
    };
    match combo {
        0 => {
            drop(&mut plan, prev, "previous data", &mut what);
            delay(&mut plan, 400, &mut what);
        }
        1 => {
            drop(&mut plan, prev, "previous data", &mut what);
            delay(&mut plan, 1500, &mut what);
        }
        2 => {
            drop(&mut plan, prev, "previous data", &mut what);
            delay(&mut plan, 3000, &mut what);
        }
        3 => drop(&mut plan, prev, "previous data", &mut what),
        4 => delay(&mut plan, 400, &mut what),
        5 => delay(&mut plan, 2500, &mut what),
        6 => {
            drop(&mut plan, prev, "previous data", &mut what);
            drop(&mut plan, Some(pid), "probe", &mut what);
        }
        7 => {
            drop(&mut plan, prev, "previous data", &mut what);
            drop(&mut plan, back, "first packet back", &mut what);
        }
        8 => {
            drop(&mut plan, back, "first packet back", &mut what);
            delay(&mut plan, 700, &mut what);
        }
        9 => {
            drop(&mut plan, next, "next data", &mut what);
            delay(&mut plan, 900, &mut what);
        }
        10 => {
            drop(&mut plan, prev, "previous data", &mut what);
            drop(&mut plan, next, "next data", &mut what);
            delay(&mut plan, 600, &mut what);
        }
        11 => {
            drop(&mut plan, Some(pid), "probe", &mut what);
            drop(&mut plan, back, "first packet back", &mut what);
        }
        _ => {
            // Adaptive straggler, two passes. Pass 1: the probe is held back for a very long time
            // (with the other faults of the combination); the instant at which the sender first
            // transmits the probe's sequence number again - unchanged or cut anew - is read off
            // the trace. Pass 2: the old copy is held back exactly so long that it reaches the
            // receiver just after that instant, ahead of (or together with) what the sender sent
            // then.
            match combo {
                12 | 14 => drop(&mut plan, prev, "previous data", &mut what),
                15 => drop(&mut plan, back, "first packet back", &mut what),
                _ => {}
            }
            let mut p1 = make().plan;
            p1.drop_indices = plan.drop_indices.clone();
            p1.delay_indices.insert(pid, 600 * crate::events::SEC);
            let r1 = duplex::run_duplex(bseed, &g.cfg, p1);
            let mut probe_sent: Option<(crate::events::Us, std::net::SocketAddr, u16, u16)> = None;
            let mut resent_at: Option<crate::events::Us> = None;
            for e in &r1.events {
                if let Ev::Send { id, src, pkt: Some(p), scripted: false, .. } = &e.ev {
                    if *id == pid {
                        probe_sent = Some((e.t, *src, p.conn_id, p.seq));
                    } else if let Some((_, s0, c0, q0)) = probe_sent {
                        if *src == s0 && p.conn_id == c0 && p.seq == q0 && p.ty == crate::wire::ST_DATA && resent_at.is_none() {
                            resent_at = Some(e.t);
                        }
                    }
                }
            }
            let lat = plan.latency.0;
            match (probe_sent, resent_at) {
                (Some((t0, _, _, _)), Some(t1)) => {
                    let off = if combo == 14 { lat } else { (lat / 2 / MS).max(1) * MS };
                    let arrive = t1 + off;
                    if arrive > t0 + lat {
                        plan.delay_indices.insert(pid, arrive - t0 - lat);
                        what.push(format!("probe #{pid} held back to arrive at {} us (its sequence number was transmitted again at {} us)", arrive, t1));
                    } else {
                        what.push("adaptive straggler not applicable".into());
                    }
                }
                _ => what.push("probe never transmitted again in pass 1".into()),
            }
            rep.counters.inc(&format!("{}_probe_fault_adaptive_cases", prop.to_lowercase()));
        }
    }
    rep.desc = format!("baseline {baseline_id} ({} probes) {}: {} plan[{}]", probes.len(), what.join(", "), g.cfg.describe(), plan.describe());
    let run = duplex::run_duplex(bseed, &g.cfg, plan);
    let view = WireView::build(&run.events);
    if let Some(p) = &run.panicked {
        rep.inconclusive.push(format!("panic during the run: {p}"));
    }
    let lc = prop.to_lowercase();
    if !view.conns.is_empty() {
        let mut scratch = CaseReport::new("scratch", 0, 0);
        let r0 = mon::c01::check_wire_dir(&mut scratch, &view, 0, true, stream_key(bseed, 0, 0), "w0");
        let r1 = mon::c01::check_wire_dir(&mut scratch, &view, 0, false, stream_key(bseed, 0, 1), "w1");
        for (side, r) in [(0u8, &r0), (1u8, &r1)] {
            mon::c01::check_boundary(&mut scratch, &run.events, 0, side, r);
        }
        rep.counters.add(&format!("{lc}_probe_fault_reads_checked"), scratch.counters.get("c01_reads_checked"));
        rep.counters.add(&format!("{lc}_probe_fault_bytes_read_checked"), scratch.counters.get("c01_bytes_read_checked"));
        rep.counters.add(&format!("{lc}_probe_fault_probe_splits_seen"), scratch.counters.get("c01_probe_splits_seen"));
        rep.counters.add(&format!("{lc}_probe_fault_recuts_without_expiry_report"), scratch.counters.get("c01_recuts_of_a_transmitted_probe_without_expiry_report"));
        for v in scratch.violations {
            if prop == "C01" {
                rep.violate("C01", v.rule, v.signature, v.detail, v.at);
            } else {
                rep.violate("C14", v.rule, format!("content {}", v.signature), v.detail, v.at);
            }
        }
    }
    rep.counters.inc(&format!("{lc}_probe_fault_cases_run"));
    rep.counters.add("datagrams", view.pkts.len() as u64);
    rep.nontrivial = true;
    let end = run.end_time;
    finish(&mut rep, ctx, &view, run.events, end);
    rep
}

fn c01_probe_faults(ctx: &CaseCtx) -> CaseReport {
    probe_faults(ctx, "C01")
}

fn c14_probe_faults(ctx: &CaseCtx) -> CaseReport {
    probe_faults(ctx, "C14")
}

fn c01_duplex(ctx: &CaseCtx) -> CaseReport {
    let mut rep = CaseReport::new(ctx.family, ctx.index, ctx.case_seed);
    let max_total = match ctx.tier {
        Tier::Quick => 300_000,
        Tier::Thorough => {
            if ctx.index % 50 == 0 {
                6_000_000
            } else {
                600_000
            }
        }
    };
    let mut g = duplex::generate(ctx.case_seed, Profile::General, max_total);
    // a slice of the cases records snapshots for the accounting cross-checks
    g.cfg.keep_snapshots = ctx.index % 8 == 0 && g.cfg.w[0].total + g.cfg.w[1].total < 150_000;
    rep.desc = format!("{} plan[{}]", g.cfg.describe(), g.plan_desc);
    let run = duplex::run_duplex(ctx.case_seed, &g.cfg, g.plan);
    let view = WireView::build(&run.events);
    if run.deadline_hit {
        rep.counters.inc("deadline_hit_cases");
    }
    if let Some(p) = &run.panicked {
        // a panic is judged by C10; here it only means the run stopped early
        rep.counters.inc("cases_with_panic");
        rep.inconclusive.push(format!("panic during the run: {p}"));
    }
    let mut wres = [mon::c01::WireDirResult::default(), mon::c01::WireDirResult::default()];
    if !view.conns.is_empty() {
        wres[0] = mon::c01::check_wire_dir(&mut rep, &view, 0, true, stream_key(ctx.case_seed, 0, 0), "w0");
        wres[1] = mon::c01::check_wire_dir(&mut rep, &view, 0, false, stream_key(ctx.case_seed, 0, 1), "w1");
    }
    for side in 0..2u8 {
        mon::c01::check_boundary(&mut rep, &run.events, 0, side, &wres[side as usize]);
    }
    if g.cfg.keep_snapshots {
        mon::c01::check_snapshots(&mut rep, &run.events);
    }
    if let Some(out) = &run.result {
        if out.connect_err.is_some() || out.accept_err.is_some() {
            rep.counters.inc("connect_failed_cases");
        }
        let mut complete = true;
        for s in 0..2usize {
            let w = out.w[s].as_ref().map(|w| w.accepted).unwrap_or(0);
            let r = out.r[1 - s].as_ref().map(|r| r.read).unwrap_or(0);
            if w != r {
                complete = false;
            }
        }
        if complete {
            rep.counters.inc("cases_fully_delivered");
        }
    }
    let faults = view
        .pkts
        .iter()
        .filter(|p| !matches!(&p.fate, crate::events::Fate::Deliver(d) if d.len() == 1))
        .count() as u64;
    rep.counters.add("faulted_datagrams", faults);
    rep.counters.add("datagrams", view.pkts.len() as u64);
    rep.nontrivial = rep.counters.get("c01_bytes_read_checked") > 0 && view.pkts.len() > 4;
    let end = run.end_time;
    finish(&mut rep, ctx, &view, run.events, end);
    rep
}
