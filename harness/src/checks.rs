//! Per-property check plans: which workload families run, how many cases per tier, and the
//! glue that runs a case and applies the property's monitors.
use crate::{
    app::stream_key,
    fam::duplex::{self, Profile},
    mon,
    runner::{CaseCtx, PlanItem},
    verdict::{CaseReport, Tier},
    view::WireView,
};

pub fn plan_for(property: &str) -> Option<(&'static str, Vec<PlanItem>)> {
    Some(match property {
        "C01" => (
            "C01",
            vec![PlanItem {
                family: "duplex",
                run: c01_duplex,
                quick: 20000,
                thorough: 600000,
                determinism_check: true,
            }],
        ),
        "C02" => (
            "C02",
            vec![
                PlanItem {
                    family: "fairlossy",
                    run: c02_fairlossy,
                    quick: 6000,
                    thorough: 200000,
                    determinism_check: true,
                },
                PlanItem {
                    family: "lossfree",
                    run: c02_lossfree,
                    quick: 6000,
                    thorough: 200000,
                    determinism_check: true,
                },
                PlanItem {
                    family: "single_fault",
                    run: c02_single_fault,
                    quick: 12800,
                    thorough: 512000,
                    determinism_check: false,
                },
            ],
        ),
        _ => return None,
    })
}

fn c02_fairlossy(ctx: &CaseCtx) -> CaseReport {
    let mut rep = CaseReport::new(ctx.family, ctx.index, ctx.case_seed);
    let max_total = match ctx.tier {
        Tier::Quick => 200_000,
        Tier::Thorough => 1_000_000,
    };
    let mut g = duplex::generate(ctx.case_seed, Profile::FairLossy, max_total);
    // Under sustained loss every segment may need a retransmission, so no clean RTT sample is
    // ever taken and the timeout legitimately stays backed off (Karn); the default 10 s
    // inactivity limit would then end the connection by design. The fair-lossy claim is about
    // the retransmission machinery, so the inactivity limit is configured out of the way.
    g.cfg.a.remote_inactivity_timeout = Some(std::time::Duration::from_secs(900));
    g.cfg.b.remote_inactivity_timeout = Some(std::time::Duration::from_secs(900));
    g.cfg.deadline = std::time::Duration::from_secs(6 * 3600);
    rep.desc = format!("{} plan[{}]", g.cfg.describe(), g.plan_desc);
    let run = duplex::run_duplex(ctx.case_seed, &g.cfg, g.plan);
    let view = WireView::build(&run.events);
    if let Some(p) = &run.panicked {
        rep.inconclusive.push(format!("panic during the run: {p}"));
    }
    let causes = || duplex_causes(ctx.case_seed, &run.events, &view, run.end_time);
    let symptoms = || mon::diag::symptoms(&run.events);
    mon::c02::check_completion(&mut rep, &g.cfg, &run, &causes, &symptoms);
    let dropped = view.pkts.iter().filter(|p| matches!(p.fate, crate::events::Fate::Drop(_))).count() as u64;
    rep.counters.add("dropped_datagrams", dropped);
    rep.counters.add("datagrams", view.pkts.len() as u64);
    rep.nontrivial = dropped > 0 && view.pkts.len() > 6;
    let end = run.end_time;
    finish(&mut rep, ctx, &view, run.events, end);
    rep
}

/// Single-fault sweep: take a small loss-free baseline case and re-run it once per datagram
/// position, dropping (or duplicating / delaying) exactly that datagram. 128 positions per
/// baseline; baselines with up to 128 datagrams are swept exhaustively.
fn c02_single_fault(ctx: &CaseCtx) -> CaseReport {
    let mut rep = CaseReport::new(ctx.family, ctx.index, ctx.case_seed);
    let baseline_id = ctx.index / 128;
    let slot = ctx.index % 128;
    // all cases of one baseline share the baseline's seed
    let bseed = crate::runner::case_seed(ctx.seed, "single_fault_baseline", baseline_id);
    let mut g = duplex::generate(bseed, Profile::LossFree, 40_000);
    g.cfg.tail = 2 * crate::events::SEC;
    g.cfg.deadline = std::time::Duration::from_secs(3600);
    // baseline run (loss-free) to learn the trace length
    let base = duplex::run_duplex(bseed, &g.cfg, duplex::generate(bseed, Profile::LossFree, 40_000).plan);
    let n = base
        .events
        .iter()
        .filter(|e| matches!(e.ev, crate::events::Ev::Send { .. }))
        .count() as u64;
    let k = if n <= 128 { slot } else { slot * n / 128 };
    if k >= n || k < 3 {
        // the handshake packets are protected (SYNs are not retransmitted; the accepting side gives
        // up after 1 s by design), positions beyond the trace do not exist
        rep.counters.inc("c02_single_fault_positions_skipped");
        rep.trace_hash = crate::prng::mix2(bseed, k);
        return rep;
    }
    let mut plan = duplex::generate(bseed, Profile::LossFree, 40_000).plan;
    let kind = (baseline_id + slot) % 8;
    let what = match kind {
        0 => {
            plan.dup_indices.insert(k);
            "dup"
        }
        1 => {
            plan.delay_indices.insert(k, 300 * crate::events::MS);
            "delay"
        }
        _ => {
            plan.drop_indices.insert(k);
            "drop"
        }
    };
    rep.desc = format!("baseline {baseline_id} ({n} datagrams) {what} #{k}: {} plan[{}]", g.cfg.describe(), plan.describe());
    let run = duplex::run_duplex(bseed, &g.cfg, plan);
    let view = WireView::build(&run.events);
    if let Some(p) = &run.panicked {
        rep.inconclusive.push(format!("panic during the run: {p}"));
    }
    let causes = || duplex_causes(bseed, &run.events, &view, run.end_time);
    let symptoms = || mon::diag::symptoms(&run.events);
    mon::c02::check_completion(&mut rep, &g.cfg, &run, &causes, &symptoms);
    rep.counters.inc("c02_single_fault_positions_run");
    rep.counters.add("datagrams", view.pkts.len() as u64);
    rep.nontrivial = true;
    let end = run.end_time;
    finish(&mut rep, ctx, &view, run.events, end);
    rep
}

fn c02_lossfree(ctx: &CaseCtx) -> CaseReport {
    use crate::app::{ReaderPlan, ReaderStop};
    use crate::events::MS;
    use crate::prng::Prng;
    let mut rep = CaseReport::new(ctx.family, ctx.index, ctx.case_seed);
    let max_total = match ctx.tier {
        Tier::Quick => 150_000,
        Tier::Thorough => 800_000,
    };
    let mut g = duplex::generate(ctx.case_seed, Profile::LossFree, max_total);
    let mut rng = Prng::new(ctx.case_seed ^ 0x10_55F2EE);
    // readers: greedy from the start, or stalled for a while and then greedy
    for s in 0..2usize {
        let total = g.cfg.w[1 - s].total;
        let stall = if rng.chance(0.4) && total > 2000 {
            Some((rng.below(total as u64) as usize, rng.range(100, 3000) * MS))
        } else {
            None
        };
        g.cfg.r[s] = ReaderPlan {
            buf: (65536, 65536),
            pause_prob: 0.0,
            pause: (0, 0),
            stall,
            start_delay: 0,
            stop: ReaderStop::Never,
        };
    }
    // small receive buffers so that the window closes and has to re-open
    if rng.chance(0.6) {
        let ipv4 = !g.cfg.ipv6;
        let lo = 2 * g.cfg.a.max_payload(ipv4).max(g.cfg.b.max_payload(ipv4)) + 1;
        g.cfg.a.rx_buf = Some(rng.log_range(lo as u64, 20_000.max(lo as u64 + 1)) as usize);
        g.cfg.b.rx_buf = Some(rng.log_range(lo as u64, 20_000.max(lo as u64 + 1)) as usize);
    }
    g.cfg.keep_snapshots = false;
    g.cfg.deadline = std::time::Duration::from_secs(1800);
    let latency = g.plan.latency.0;
    rep.desc = format!("{} plan[{}]", g.cfg.describe(), g.plan_desc);
    let run = duplex::run_duplex(ctx.case_seed, &g.cfg, g.plan);
    let view = WireView::build(&run.events);
    if let Some(p) = &run.panicked {
        rep.inconclusive.push(format!("panic during the run: {p}"));
    }
    let causes = || duplex_causes(ctx.case_seed, &run.events, &view, run.end_time);
    let symptoms = || mon::diag::symptoms(&run.events);
    mon::c02::check_completion(&mut rep, &g.cfg, &run, &causes, &symptoms);
    // greedy phases
    let mut greedy_from = [0u64; 2];
    for s in 0..2usize {
        if g.cfg.r[s].stall.is_some() {
            greedy_from[s] = u64::MAX;
        }
    }
    for e in &run.events {
        if let crate::events::Ev::Note(n) = &e.ev {
            for s in 0..2usize {
                if n == &format!("reader conn=0 side={s} resumes") {
                    greedy_from[s] = e.t;
                }
            }
        }
    }
    // a reader whose stall point was never reached is greedy throughout
    for s in 0..2usize {
        if greedy_from[s] == u64::MAX {
            let stalled = run.events.iter().any(|e| matches!(&e.ev, crate::events::Ev::Note(n) if n.starts_with(&format!("reader conn=0 side={s} stalls"))));
            if !stalled {
                greedy_from[s] = 0;
            }
        }
    }
    // observe until the drivers are done (the tail after that is close-down, judged by C08)
    let done_at = run
        .events
        .iter()
        .find(|e| matches!(&e.ev, crate::events::Ev::Note(n) if n == "drivers done"))
        .map(|e| e.t)
        .unwrap_or(run.end_time);
    mon::c02::check_silence(&mut rep, &run.events, &view, latency, greedy_from, done_at);
    mon::c02::check_idle_actions(&mut rep, &run.events, &view);
    let addrs = if g.cfg.ipv6 {
        [crate::sim::v6(duplex::A_PORT), crate::sim::v6(duplex::B_PORT)]
    } else {
        [crate::sim::v4(duplex::A_PORT), crate::sim::v4(duplex::B_PORT)]
    };
    mon::c02::check_reader_wakeups(&mut rep, &run.events, addrs);
    rep.counters.add("datagrams", view.pkts.len() as u64);
    rep.nontrivial = view.pkts.len() > 6;
    let end = run.end_time;
    finish(&mut rep, ctx, &view, run.events, end);
    rep
}

/// Root causes (known failure mechanisms) visible in the history of a duplex case.
pub fn duplex_causes(case_seed: u64, events: &[crate::events::Event], view: &WireView, end_time: u64) -> Vec<String> {
    let mut out = Vec::new();
    if view.conns.is_empty() {
        return out;
    }
    let t_fail = mon::diag::first_death(events).map(|d| d.0).unwrap_or(end_time);
    for from_init in [true, false] {
        if mon::diag::zero_window_update_lost(view, 0, from_init, t_fail) {
            out.push("zero-window-update-lost".to_string());
            break;
        }
    }
    if mon::diag::retransmissions_exhausted_into_zero_window(events, view, 0) {
        out.push("zero-window-retransmissions-exhausted".to_string());
    }
    let mut scratch = CaseReport::new("scratch", 0, 0);
    for (from_init, side) in [(true, 0u8), (false, 1u8)] {
        let r = mon::c01::check_wire_dir(&mut scratch, view, 0, from_init, stream_key(case_seed, 0, side), "x");
        if r.resegmented_after_delivery_at.is_some() {
            out.push("probe-resegmented-after-delivery".to_string());
            break;
        }
    }
    if mon::diag::reassembler_refused_data(events, view, 0) {
        out.push("reassembler-refused-in-window-data".to_string());
    }
    out
}

/// Common epilogue: hash, events retention.
pub fn finish(rep: &mut CaseReport, ctx: &CaseCtx, view: &WireView, events: Vec<crate::events::Event>, end_time: u64) {
    rep.trace_hash = view.trace_hash();
    rep.end_time = end_time;
    if ctx.keep_events || !rep.violations.is_empty() {
        rep.events = events;
    }
}

fn c01_duplex(ctx: &CaseCtx) -> CaseReport {
    let mut rep = CaseReport::new(ctx.family, ctx.index, ctx.case_seed);
    let max_total = match ctx.tier {
        Tier::Quick => 300_000,
        Tier::Thorough => {
            if ctx.index % 50 == 0 {
                6_000_000
            } else {
                600_000
            }
        }
    };
    let mut g = duplex::generate(ctx.case_seed, Profile::General, max_total);
    // a slice of the cases records snapshots for the accounting cross-checks
    g.cfg.keep_snapshots = ctx.index % 8 == 0 && g.cfg.w[0].total + g.cfg.w[1].total < 150_000;
    rep.desc = format!("{} plan[{}]", g.cfg.describe(), g.plan_desc);
    let run = duplex::run_duplex(ctx.case_seed, &g.cfg, g.plan);
    let view = WireView::build(&run.events);
    if run.deadline_hit {
        rep.counters.inc("deadline_hit_cases");
    }
    if let Some(p) = &run.panicked {
        // a panic is judged by C10; here it only means the run stopped early
        rep.counters.inc("cases_with_panic");
        rep.inconclusive.push(format!("panic during the run: {p}"));
    }
    let mut wres = [mon::c01::WireDirResult::default(), mon::c01::WireDirResult::default()];
    if !view.conns.is_empty() {
        wres[0] = mon::c01::check_wire_dir(&mut rep, &view, 0, true, stream_key(ctx.case_seed, 0, 0), "w0");
        wres[1] = mon::c01::check_wire_dir(&mut rep, &view, 0, false, stream_key(ctx.case_seed, 0, 1), "w1");
    }
    for side in 0..2u8 {
        mon::c01::check_boundary(&mut rep, &run.events, 0, side, &wres[side as usize]);
    }
    if g.cfg.keep_snapshots {
        mon::c01::check_snapshots(&mut rep, &run.events);
    }
    if let Some(out) = &run.result {
        if out.connect_err.is_some() || out.accept_err.is_some() {
            rep.counters.inc("connect_failed_cases");
        }
        let mut complete = true;
        for s in 0..2usize {
            let w = out.w[s].as_ref().map(|w| w.accepted).unwrap_or(0);
            let r = out.r[1 - s].as_ref().map(|r| r.read).unwrap_or(0);
            if w != r {
                complete = false;
            }
        }
        if complete {
            rep.counters.inc("cases_fully_delivered");
        }
    }
    let faults = view
        .pkts
        .iter()
        .filter(|p| !matches!(&p.fate, crate::events::Fate::Deliver(d) if d.len() == 1))
        .count() as u64;
    rep.counters.add("faulted_datagrams", faults);
    rep.counters.add("datagrams", view.pkts.len() as u64);
    rep.nontrivial = rep.counters.get("c01_bytes_read_checked") > 0 && view.pkts.len() > 4;
    let end = run.end_time;
    finish(&mut rep, ctx, &view, run.events, end);
    rep
}
