//! Per-property check plans: which workload families run, how many cases per tier, and the
//! glue that runs a case and applies the property's monitors.
use crate::{
    app::stream_key,
    fam::duplex::{self, Profile},
    mon,
    runner::{CaseCtx, PlanItem},
    verdict::{CaseReport, Tier},
    view::WireView,
};

pub fn plan_for(property: &str) -> Option<(&'static str, Vec<PlanItem>)> {
    Some(match property {
        "C01" => (
            "C01",
            vec![PlanItem {
                family: "duplex",
                run: c01_duplex,
                quick: 20000,
                thorough: 600000,
                determinism_check: true,
            }],
        ),
        _ => return None,
    })
}

/// Common epilogue: hash, events retention.
pub fn finish(rep: &mut CaseReport, ctx: &CaseCtx, view: &WireView, events: Vec<crate::events::Event>, end_time: u64) {
    rep.trace_hash = view.trace_hash();
    rep.end_time = end_time;
    if ctx.keep_events || !rep.violations.is_empty() {
        rep.events = events;
    }
}

fn c01_duplex(ctx: &CaseCtx) -> CaseReport {
    let mut rep = CaseReport::new(ctx.family, ctx.index, ctx.case_seed);
    let max_total = match ctx.tier {
        Tier::Quick => 300_000,
        Tier::Thorough => {
            if ctx.index % 50 == 0 {
                6_000_000
            } else {
                600_000
            }
        }
    };
    let mut g = duplex::generate(ctx.case_seed, Profile::General, max_total);
    // a slice of the cases records snapshots for the accounting cross-checks
    g.cfg.keep_snapshots = ctx.index % 8 == 0 && g.cfg.w[0].total + g.cfg.w[1].total < 150_000;
    rep.desc = format!("{} plan[{}]", g.cfg.describe(), g.plan_desc);
    let run = duplex::run_duplex(ctx.case_seed, &g.cfg, g.plan);
    let view = WireView::build(&run.events);
    if run.deadline_hit {
        rep.counters.inc("deadline_hit_cases");
    }
    if let Some(p) = &run.panicked {
        // a panic is judged by C10; here it only means the run stopped early
        rep.counters.inc("cases_with_panic");
        rep.inconclusive.push(format!("panic during the run: {p}"));
    }
    let mut wres = [mon::c01::WireDirResult::default(), mon::c01::WireDirResult::default()];
    if !view.conns.is_empty() {
        wres[0] = mon::c01::check_wire_dir(&mut rep, &view, 0, true, stream_key(ctx.case_seed, 0, 0), "w0");
        wres[1] = mon::c01::check_wire_dir(&mut rep, &view, 0, false, stream_key(ctx.case_seed, 0, 1), "w1");
    }
    for side in 0..2u8 {
        mon::c01::check_boundary(&mut rep, &run.events, 0, side, &wres[side as usize]);
    }
    if g.cfg.keep_snapshots {
        mon::c01::check_snapshots(&mut rep, &run.events);
    }
    if let Some(out) = &run.result {
        if out.connect_err.is_some() || out.accept_err.is_some() {
            rep.counters.inc("connect_failed_cases");
        }
        let mut complete = true;
        for s in 0..2usize {
            let w = out.w[s].as_ref().map(|w| w.accepted).unwrap_or(0);
            let r = out.r[1 - s].as_ref().map(|r| r.read).unwrap_or(0);
            if w != r {
                complete = false;
            }
        }
        if complete {
            rep.counters.inc("cases_fully_delivered");
        }
    }
    let faults = view
        .pkts
        .iter()
        .filter(|p| !matches!(&p.fate, crate::events::Fate::Deliver(d) if d.len() == 1))
        .count() as u64;
    rep.counters.add("faulted_datagrams", faults);
    rep.counters.add("datagrams", view.pkts.len() as u64);
    rep.nontrivial = rep.counters.get("c01_bytes_read_checked") > 0 && view.pkts.len() > 4;
    let end = run.end_time;
    finish(&mut rep, ctx, &view, run.events, end);
    rep
}
