//! Minimal JSON value + writer (write-only; replay parameters travel as argv).
use std::collections::BTreeMap;
use std::fmt::Write;

#[derive(Clone, Debug, PartialEq)]
pub enum J {
    Null,
    Bool(bool),
    Int(i128),
    Num(f64),
    Str(String),
    Arr(Vec<J>),
    Obj(BTreeMap<String, J>),
}

impl From<bool> for J {
    fn from(v: bool) -> Self {
        J::Bool(v)
    }
}
impl From<&str> for J {
    fn from(v: &str) -> Self {
        J::Str(v.to_string())
    }
}
impl From<String> for J {
    fn from(v: String) -> Self {
        J::Str(v)
    }
}
impl From<f64> for J {
    fn from(v: f64) -> Self {
        J::Num(v)
    }
}
macro_rules! from_int {
    ($($t:ty),*) => {$(impl From<$t> for J { fn from(v: $t) -> Self { J::Int(v as i128) } })*};
}
from_int!(u8, u16, u32, u64, usize, i8, i16, i32, i64, isize);
impl<T: Into<J>> From<Vec<T>> for J {
    fn from(v: Vec<T>) -> Self {
        J::Arr(v.into_iter().map(Into::into).collect())
    }
}
impl<T: Into<J>> From<Option<T>> for J {
    fn from(v: Option<T>) -> Self {
        match v {
            Some(x) => x.into(),
            None => J::Null,
        }
    }
}

#[macro_export]
macro_rules! jobj {
    ($($k:expr => $v:expr),* $(,)?) => {{
        #[allow(unused_mut)]
        let mut m = std::collections::BTreeMap::new();
        $( m.insert(($k).to_string(), $crate::json::J::from($v)); )*
        $crate::json::J::Obj(m)
    }};
}

impl J {
    pub fn obj() -> J {
        J::Obj(BTreeMap::new())
    }
    pub fn set(&mut self, k: &str, v: impl Into<J>) {
        if let J::Obj(m) = self {
            m.insert(k.to_string(), v.into());
        }
    }
    pub fn get(&self, k: &str) -> Option<&J> {
        match self {
            J::Obj(m) => m.get(k),
            _ => None,
        }
    }
    pub fn push(&mut self, v: impl Into<J>) {
        if let J::Arr(a) = self {
            a.push(v.into());
        }
    }

    pub fn to_string(&self) -> String {
        let mut s = String::new();
        self.write(&mut s);
        s
    }

    pub fn write(&self, out: &mut String) {
        match self {
            J::Null => out.push_str("null"),
            J::Bool(b) => out.push_str(if *b { "true" } else { "false" }),
            J::Int(i) => {
                let _ = write!(out, "{}", i);
            }
            J::Num(f) => {
                if f.is_finite() {
                    let _ = write!(out, "{}", f);
                } else {
                    out.push_str("null");
                }
            }
            J::Str(s) => write_str(out, s),
            J::Arr(a) => {
                out.push('[');
                for (i, v) in a.iter().enumerate() {
                    if i > 0 {
                        out.push(',');
                    }
                    v.write(out);
                }
                out.push(']');
            }
            J::Obj(m) => {
                out.push('{');
                for (i, (k, v)) in m.iter().enumerate() {
                    if i > 0 {
                        out.push(',');
                    }
                    write_str(out, k);
                    out.push(':');
                    v.write(out);
                }
                out.push('}');
            }
        }
    }
}

fn write_str(out: &mut String, s: &str) {
    out.push('"');
    for c in s.chars() {
        match c {
            '"' => out.push_str("\\\""),
            '\\' => out.push_str("\\\\"),
            '\n' => out.push_str("\\n"),
            '\r' => out.push_str("\\r"),
            '\t' => out.push_str("\\t"),
            c if (c as u32) < 0x20 => {
                let _ = write!(out, "\\u{:04x}", c as u32);
            }
            c => out.push(c),
        }
    }
    out.push('"');
}
