//! Parallel case runner and summary writer used by the `simcheck` binary.
use std::{
    collections::{BTreeMap, BTreeSet},
    sync::{
        atomic::{AtomicBool, AtomicU64, Ordering},
        Arc,
    },
    time::Instant,
};

use parking_lot::Mutex;

use crate::{
    events::render,
    json::J,
    prng::mix2,
    verdict::{CaseReport, Counters, Tier},
};

pub struct CaseCtx {
    /// The run's global seed (VERIF_SEED); case_seed is derived from it.
    pub seed: u64,
    pub property: &'static str,
    pub tier: Tier,
    pub family: &'static str,
    pub index: u64,
    pub case_seed: u64,
    /// Keep the full event log in the report (replay mode).
    pub keep_events: bool,
}

pub type FamFn = fn(&CaseCtx) -> CaseReport;

pub struct PlanItem {
    pub family: &'static str,
    pub run: FamFn,
    pub quick: u64,
    pub thorough: u64,
    /// Run the first case twice and require identical logs (determinism self-check).
    pub determinism_check: bool,
}

pub fn case_seed(seed: u64, family: &str, index: u64) -> u64 {
    let mut h = crate::verdict::FNV_INIT;
    crate::verdict::fnv1a(&mut h, family.as_bytes());
    mix2(mix2(seed, h), index)
}

#[derive(Default)]
struct Agg {
    cases_run: u64,
    counters: Counters,
    hashes: BTreeSet<u64>,
    nontrivial_hashes: BTreeSet<u64>,
    labels: BTreeSet<String>,
    /// one entry per distinct (property, rule, signature): count and first example
    violations: BTreeMap<(String, String, String), (u64, J)>,
    violating_cases: u64,
    inconclusive: Vec<String>,
    samples: Vec<J>,
    per_family: BTreeMap<String, u64>,
    replay_count: usize,
}

pub struct RunOpts {
    pub property: &'static str,
    pub tier: Tier,
    pub seed: u64,
    pub jobs: usize,
    pub budget_s: f64,
    pub replay_dir: String,
    pub scale: f64,
}

fn render_log(rep: &CaseReport) -> Vec<String> {
    // the order in which the runtime drops its tasks at the very end is not part of the execution
    rep.events
        .iter()
        .take_while(|e| !matches!(&e.ev, crate::events::Ev::Note(n) if n == "teardown"))
        .map(render)
        .collect()
}

pub fn run_plan(plan: Vec<PlanItem>, opts: &RunOpts) -> J {
    let start = Instant::now();
    let agg = Arc::new(Mutex::new(Agg::default()));
    let stop = Arc::new(AtomicBool::new(false));
    // work list: (plan item index, case index)
    let mut work: Vec<(usize, u64)> = Vec::new();
    let mut planned: u64 = 0;
    for (pi, item) in plan.iter().enumerate() {
        let n = match opts.tier {
            Tier::Quick => item.quick,
            Tier::Thorough => item.thorough,
        };
        let n = ((n as f64) * opts.scale).ceil() as u64;
        planned += n;
        for i in 0..n {
            work.push((pi, i));
        }
    }
    // interleave families so that a time budget cuts all of them proportionally
    work.sort_by_key(|(pi, i)| {
        let n = match opts.tier {
            Tier::Quick => plan[*pi].quick,
            Tier::Thorough => plan[*pi].thorough,
        }
        .max(1);
        ((*i as f64 / n as f64) * 1e9) as u64
    });
    let work = Arc::new(work);
    let next = Arc::new(AtomicU64::new(0));
    let plan = Arc::new(plan);

    // determinism self-check (sequential, before the sweep)
    for item in plan.iter() {
        if !item.determinism_check {
            continue;
        }
        let cs = case_seed(opts.seed, item.family, 0);
        let mk = || {
            (item.run)(&CaseCtx {
                seed: opts.seed,
                property: opts.property,
                tier: opts.tier,
                family: item.family,
                index: 0,
                case_seed: cs,
                keep_events: true,
            })
        };
        let (a, b) = match std::panic::catch_unwind(std::panic::AssertUnwindSafe(|| (mk(), mk()))) {
            Ok(x) => x,
            Err(_) => {
                agg.lock().inconclusive.push(format!("determinism self-check of family {} panicked in the harness", item.family));
                continue;
            }
        };
        let (la, lb) = (render_log(&a), render_log(&b));
        if la != lb {
            let first = la.iter().zip(lb.iter()).position(|(x, y)| x != y).unwrap_or(la.len().min(lb.len()));
            agg.lock().inconclusive.push(format!(
                "determinism self-check failed for family {} (logs differ at event {}: {:?} vs {:?})",
                item.family,
                first,
                la.get(first),
                lb.get(first)
            ));
        } else {
            agg.lock().counters.inc("determinism_selfchecks_passed");
        }
    }

    let mut handles = Vec::new();
    for _ in 0..opts.jobs.max(1) {
        let agg = agg.clone();
        let stop = stop.clone();
        let work = work.clone();
        let next = next.clone();
        let plan = plan.clone();
        let property = opts.property;
        let tier = opts.tier;
        let seed = opts.seed;
        let budget = opts.budget_s;
        let replay_dir = opts.replay_dir.clone();
        let h = std::thread::Builder::new()
            .stack_size(32 << 20)
            .spawn(move || loop {
                if stop.load(Ordering::Relaxed) {
                    break;
                }
                if start.elapsed().as_secs_f64() > budget {
                    stop.store(true, Ordering::Relaxed);
                    break;
                }
                let k = next.fetch_add(1, Ordering::Relaxed) as usize;
                if k >= work.len() {
                    break;
                }
                let (pi, index) = work[k];
                let item = &plan[pi];
                let cs = case_seed(seed, item.family, index);
                let ctx = CaseCtx {
                    seed,
                    property,
                    tier,
                    family: item.family,
                    index,
                    case_seed: cs,
                    keep_events: false,
                };
                let rep = match std::panic::catch_unwind(std::panic::AssertUnwindSafe(|| (item.run)(&ctx))) {
                    Ok(r) => r,
                    Err(e) => {
                        let msg = if let Some(s) = e.downcast_ref::<String>() {
                            s.clone()
                        } else if let Some(s) = e.downcast_ref::<&str>() {
                            s.to_string()
                        } else {
                            "panic".into()
                        };
                        let mut r = CaseReport::new(item.family, index, cs);
                        r.inconclusive
                            .push(format!("harness panicked outside the simulated run: {msg}"));
                        r
                    }
                };
                let mut g = agg.lock();
                g.cases_run += 1;
                *g.per_family.entry(item.family.to_string()).or_insert(0) += 1;
                g.counters.merge(&rep.counters);
                g.hashes.insert(rep.trace_hash);
                if rep.nontrivial {
                    g.nontrivial_hashes.insert(rep.trace_hash);
                }
                for l in &rep.labels {
                    g.labels.insert(l.clone());
                }
                for s in &rep.inconclusive {
                    if g.inconclusive.len() < 50 {
                        g.inconclusive
                            .push(format!("{}:{}:{:#x}: {}", rep.family, rep.index, rep.case_seed, s));
                    }
                }
                if g.samples.len() < 3 || (rep.nontrivial && g.samples.len() < 6) {
                    g.samples.push(rep.sample_json());
                }
                if !rep.violations.is_empty() {
                    g.violating_cases += 1;
                    let mut path = String::new();
                    // write a replay file when this case shows a (rule, signature) not seen before
                    let fresh = rep.violations.iter().any(|v| {
                        !g.violations
                            .contains_key(&(v.property.to_string(), v.rule.to_string(), v.signature.clone()))
                    });
                    if fresh && g.replay_count < 200 {
                        g.replay_count += 1;
                        path = format!(
                            "{}/{}-{}-{}-{:x}.json",
                            replay_dir, property, rep.family, rep.index, rep.case_seed
                        );
                        let _ = std::fs::create_dir_all(&replay_dir);
                        let j = rep.replay_json(property, tier, seed, 400);
                        let _ = std::fs::write(&path, j.to_string());
                    }
                    for v in &rep.violations {
                        let key = (v.property.to_string(), v.rule.to_string(), v.signature.clone());
                        let ex = crate::jobj! {
                            "property" => v.property,
                            "rule" => v.rule,
                            "signature" => v.signature.clone(),
                            "detail" => v.detail.clone(),
                            "family" => rep.family,
                            "index" => rep.index,
                            "case_seed" => format!("{:#x}", rep.case_seed),
                            "at_us" => v.at,
                            "replay" => path.clone(),
                        };
                        let e = g.violations.entry(key).or_insert((0, ex));
                        e.0 += 1;
                    }
                }
            })
            .expect("spawn worker");
        handles.push(h);
    }
    for h in handles {
        let _ = h.join();
    }
    let g = agg.lock();
    let wall = start.elapsed().as_secs_f64();
    crate::jobj! {
        "property" => opts.property,
        "tier" => match opts.tier { Tier::Quick => "quick", Tier::Thorough => "thorough" },
        "seed" => opts.seed,
        "cases_planned" => planned,
        "cases_run" => g.cases_run,
        "budget_exhausted" => stop.load(Ordering::Relaxed),
        "per_family" => J::Obj(g.per_family.iter().map(|(k, v)| (k.clone(), J::from(*v))).collect()),
        "distinct_traces" => g.hashes.len(),
        "distinct_nontrivial" => g.nontrivial_hashes.len(),
        "counters" => J::Obj(g.counters.0.iter().map(|(k, v)| (k.clone(), J::from(*v))).collect()),
        "labels" => J::Arr(g.labels.iter().map(|s| J::from(s.clone())).collect()),
        "violations" => J::Arr(g.violations.values().map(|(n, ex)| { let mut e = ex.clone(); e.set("count", *n); e }).collect()),
        "violating_cases" => g.violating_cases,
        "inconclusive" => J::Arr(g.inconclusive.iter().map(|s| J::from(s.clone())).collect()),
        "samples" => J::Arr(g.samples.clone()),
        "wall_s" => wall,
    }
}
