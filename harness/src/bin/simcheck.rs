//! simcheck --property C01 --tier quick|thorough --seed N [--jobs 16] [--budget-s 90]
//!          [--out summary.json] [--replay family:index:case_seed [--dump-log]]
use std::process::ExitCode;

use uvh::{
    checks,
    events::render,
    runner::{self, CaseCtx, RunOpts},
    verdict::Tier,
};

fn arg(args: &[String], name: &str) -> Option<String> {
    args.iter().position(|a| a == name).and_then(|i| args.get(i + 1).cloned())
}

fn parse_u64(s: &str) -> u64 {
    if let Some(h) = s.strip_prefix("0x") {
        u64::from_str_radix(h, 16).expect("hex")
    } else {
        s.parse().expect("number")
    }
}

fn main() -> ExitCode {
    let args: Vec<String> = std::env::args().collect();
    let property = arg(&args, "--property").expect("--property");
    let tier = match arg(&args, "--tier").as_deref() {
        Some("thorough") => Tier::Thorough,
        _ => Tier::Quick,
    };
    let seed = arg(&args, "--seed").map(|s| parse_u64(&s)).unwrap_or(1);
    let jobs = arg(&args, "--jobs").map(|s| s.parse().unwrap()).unwrap_or(16);
    let budget_s = arg(&args, "--budget-s").map(|s| s.parse().unwrap()).unwrap_or(1e9);
    let scale = arg(&args, "--scale").map(|s| s.parse().unwrap()).unwrap_or(1.0);
    let out = arg(&args, "--out");
    let replay_dir = arg(&args, "--replay-dir").unwrap_or_else(|| "/verif/replays".into());
    let (pname, plan) = match checks::plan_for(&property) {
        Some(p) => p,
        None => {
            eprintln!("unknown property {property}");
            return ExitCode::from(2);
        }
    };
    if let Some(r) = arg(&args, "--replay") {
        let parts: Vec<&str> = r.split(':').collect();
        let (family, index, cs) = (parts[0], parse_u64(parts[1]), parse_u64(parts[2]));
        let item = plan.iter().find(|i| i.family == family).expect("family not in plan");
        let rep = (item.run)(&CaseCtx {
            seed,
            property: pname,
            tier,
            family: item.family,
            index,
            case_seed: cs,
            keep_events: true,
        });
        println!("config: {}", rep.desc);
        if args.iter().any(|a| a == "--dump-log") {
            for e in &rep.events {
                println!("{}", render(e));
            }
        }
        println!("counters: {:?}", rep.counters.0);
        for s in &rep.inconclusive {
            println!("INCONCLUSIVE: {s}");
        }
        for v in &rep.violations {
            println!(
                "VIOLATED property={} rule={} signature={} at={:?}: {}",
                v.property, v.rule, v.signature, v.at, v.detail
            );
        }
        return if rep.violations.is_empty() { ExitCode::SUCCESS } else { ExitCode::from(1) };
    }
    let summary = runner::run_plan(
        plan,
        &RunOpts {
            property: pname,
            tier,
            seed,
            jobs,
            budget_s,
            replay_dir,
            scale,
        },
    );
    let s = summary.to_string();
    match out {
        Some(p) => std::fs::write(p, &s).expect("write summary"),
        None => println!("{s}"),
    }
    ExitCode::SUCCESS
}
