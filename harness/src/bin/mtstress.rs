//! mtstress: the real library on a multi-threaded tokio runtime with the real clock, over the
//! in-memory network (no loss; jitter, duplication, reordering), application halves driven from
//! separate tasks so that user calls, the connection tasks and the socket dispatcher really run
//! on different threads. Built plain or with ThreadSanitizer (see check.py).
//!
//! Oracles: content at the read boundary (per-connection generator streams, token-identified),
//! completion without a stall (no byte delivered for 2 x 60 s of wall time while transfers are
//! open = a lost wake-up; reported only after the second quiet minute), no panic. TSan reports
//! are counted by the driver from the process' stderr / exit code.
//!
//! mtstress --seed N --threads 8 --pairs 4 --conns 6 --bytes 300000 --rounds 3 [--out file.json]
use std::{
    net::SocketAddr,
    sync::{
        atomic::{AtomicBool, AtomicU64, Ordering},
        Arc,
    },
    time::Duration,
};

use tokio::io::{AsyncReadExt, AsyncWriteExt};
use uvh::{
    app::{gen_check, gen_fill, stream_key},
    events::{Clock, Log, MS},
    fam::multi::{parse_token, token, TOKEN_LEN},
    prng::{mix2, Prng},
    sim::{v4, FaultPlan, Net, SimEnv, SimSocket, SimTransport, SockCfg},
};

fn arg(args: &[String], name: &str, default: u64) -> u64 {
    args.iter().position(|a| a == name).and_then(|i| args.get(i + 1)).map(|s| s.parse().expect("number")).unwrap_or(default)
}

#[derive(Default)]
struct Stats {
    bytes_read: AtomicU64,
    bytes_written: AtomicU64,
    reads: AtomicU64,
    writes: AtomicU64,
    write_pending_waits: AtomicU64,
    conns_done: AtomicU64,
    conns_started: AtomicU64,
    mismatches: AtomicU64,
    errors: AtomicU64,
    vsock_created: AtomicU64,
    vsock_dropped: AtomicU64,
    polls: AtomicU64,
    /// snapshots (taken under the TX locks) in which a writer is registered as waiting for space
    /// although the ring has room, for connections whose ring cannot grow
    waiting_writer_with_room: AtomicU64,
    lost_wakeups: AtomicU64,
    waiting_reader_with_data: AtomicU64,
    rx_snapshots_checked: AtomicU64,
    last_snaps: parking_lot::Mutex<std::collections::BTreeMap<String, Vec<String>>>,
    deaths_with_error: AtomicU64,
    first_death: parking_lot::Mutex<Option<String>>,
    waiting_dispatcher_with_data: AtomicU64,
    tx_snapshots_checked_dispatcher: AtomicU64,
    spin_pending_polls: AtomicU64,
    spin_room_after_full: AtomicU64,
    spin_wakeups_confirmed: AtomicU64,
    spin_flushes: AtomicU64,
    end_flushes_ok: AtomicU64,
    end_flushes_err: AtomicU64,
    final_flush_errors: AtomicU64,
    spin_empty_polls: AtomicU64,
    spin_data_after_empty: AtomicU64,
    tx_snapshots_checked: AtomicU64,
    threads_seen: parking_lot::Mutex<std::collections::BTreeSet<String>>,
    first_problem: parking_lot::Mutex<Option<String>>,
}

impl Stats {
    fn problem(&self, s: String) {
        let mut g = self.first_problem.lock();
        if g.is_none() {
            *g = Some(s);
        }
    }
}

fn make_socket(net: &Arc<Net>, clock: &Arc<Clock>, addr: SocketAddr, cfg: &SockCfg, seed: u64) -> Arc<SimSocket> {
    net.register(addr);
    let env = SimEnv::new(clock.clone(), mix2(seed, addr.port() as u64), Vec::new());
    let transport = SimTransport { addr, net: net.clone() };
    librqbit_utp::UtpSocket::new_with_opts(transport, env, cfg.to_opts(tokio_util::sync::CancellationToken::new())).expect("socket")
}

struct Flag(AtomicBool);
impl std::task::Wake for Flag {
    fn wake(self: Arc<Self>) {
        self.0.store(true, Ordering::SeqCst);
    }
    fn wake_by_ref(self: &Arc<Self>) {
        self.0.store(true, Ordering::SeqCst);
    }
}

/// A writer that polls the write half in a loop from its own OS thread, each time with a fresh
/// waker (spurious polls are allowed by the Future contract). Oracle: when a poll stores bytes
/// after an earlier poll found the ring full, the waker that earlier poll registered must be woken
/// (the connection task frees space and takes the waker under one lock, then wakes it): a waker that
/// is still silent two seconds after room was seen is a lost wake-up - a writer that had parked on
/// it would sleep next to free space. Only used with rings that cannot grow.
fn spin_writer(mut w: librqbit_utp::UtpStreamWriteHalf, wkey: u64, want_w: usize, chunk: usize, conn: u32, side: u8, st: Arc<Stats>, flush_calls: bool) -> (librqbit_utp::UtpStreamWriteHalf, bool) {
    use std::{pin::Pin, task::{Context, Poll, Waker}};
    use tokio::io::AsyncWrite;
    let mut off = 0usize;
    let mut buf = vec![0u8; chunk];
    let mut registered: Option<Arc<Flag>> = None;
    let mut unconfirmed: Vec<(Arc<Flag>, std::time::Instant)> = Vec::new();
    let mut spins = 0u64;
    let mut ok = true;
    'outer: while off < want_w {
        let n = chunk.min(want_w - off);
        gen_fill(wkey, off as u64, &mut buf[..n]);
        let mut done = 0usize;
        while done < n {
            let f = Arc::new(Flag(AtomicBool::new(false)));
            let waker = Waker::from(f.clone());
            let mut cx = Context::from_waker(&waker);
            match Pin::new(&mut w).poll_write(&mut cx, &buf[done..n]) {
                Poll::Ready(Ok(0)) => {
                    st.errors.fetch_add(1, Ordering::Relaxed);
                    st.problem(format!("conn {conn} side {side}: write returned 0"));
                    ok = false;
                    break 'outer;
                }
                Poll::Ready(Ok(k)) => {
                    done += k;
                    st.bytes_written.fetch_add(k as u64, Ordering::Relaxed);
                    st.writes.fetch_add(1, Ordering::Relaxed);
                    if let Some(prev) = registered.take() {
                        st.spin_room_after_full.fetch_add(1, Ordering::Relaxed);
                        if !prev.0.load(Ordering::SeqCst) {
                            unconfirmed.push((prev, std::time::Instant::now()));
                        }
                    }
                }
                Poll::Ready(Err(e)) => {
                    st.errors.fetch_add(1, Ordering::Relaxed);
                    st.problem(format!("conn {conn} side {side}: write failed after {} of {want_w}: {e}", off + done));
                    ok = false;
                    break 'outer;
                }
                Poll::Pending => {
                    st.spin_pending_polls.fetch_add(1, Ordering::Relaxed);
                    // the library either registered `f` (ring full) or woke it at once (its
                    // cooperative yield); both are covered by "must have been woken when room shows"
                    registered = Some(f);
                    spins += 1;
                    // a varying short pause, so that the connection task gets at the lock and the
                    // polls land at varying phases of its work
                    if spins % 64 == 0 {
                        std::thread::yield_now();
                    } else {
                        for _ in 0..(spins.wrapping_mul(0x9E37_79B9) >> 7) % 300 {
                            std::hint::spin_loop();
                        }
                    }
                }
            }
            unconfirmed.retain(|(f, since)| {
                if f.0.load(Ordering::SeqCst) {
                    st.spin_wakeups_confirmed.fetch_add(1, Ordering::Relaxed);
                    return false;
                }
                if since.elapsed() > Duration::from_secs(2) {
                    if st.lost_wakeups.fetch_add(1, Ordering::Relaxed) == 0 {
                        st.problem(format!(
                            "lost wake-up: conn {conn} side {side}: the ring was full, the writer's waker was registered, room appeared, and the waker was not woken within 2 s"
                        ));
                    }
                    return false;
                }
                true
            });
        }
        off += n;
        // request/response style: wait until everything written so far is acknowledged, then write
        // on at once - the next write lands while the connection task is still finishing the poll
        // that processed the last acknowledgement. Same wake-up oracle: flush is pending while the
        // ring holds bytes and registers the waker; the ring is drained under the same lock, which
        // takes that waker and wakes it.
        if flush_calls && (off / chunk.max(1)) % 2 == 0 {
            loop {
                let f = Arc::new(Flag(AtomicBool::new(false)));
                let waker = Waker::from(f.clone());
                let mut cx = Context::from_waker(&waker);
                match Pin::new(&mut w).poll_flush(&mut cx) {
                    Poll::Ready(Ok(())) => {
                        st.spin_flushes.fetch_add(1, Ordering::Relaxed);
                        if let Some(prev) = registered.take() {
                            st.spin_room_after_full.fetch_add(1, Ordering::Relaxed);
                            if !prev.0.load(Ordering::SeqCst) {
                                unconfirmed.push((prev, std::time::Instant::now()));
                            }
                        }
                        break;
                    }
                    Poll::Ready(Err(_)) if off >= want_w => {
                        // Everything was written; the peer, which closes once it has read it all,
                        // may close while this last flush is being polled. The connection task
                        // marks the stream closed and drops the acknowledged bytes from the ring
                        // in two separate critical sections of one poll, so a flush polled from
                        // another thread in between reports "socket died" although everything
                        // was delivered. No property promises a successful flush there (C03 is
                        // about the converse); counted, not judged.
                        st.final_flush_errors.fetch_add(1, Ordering::Relaxed);
                        break;
                    }
                    Poll::Ready(Err(e)) => {
                        st.errors.fetch_add(1, Ordering::Relaxed);
                        st.problem(format!("conn {conn} side {side}: flush failed after {off} of {want_w}: {e}"));
                        ok = false;
                        break 'outer;
                    }
                    Poll::Pending => {
                        st.spin_pending_polls.fetch_add(1, Ordering::Relaxed);
                        registered = Some(f);
                        spins += 1;
                        if spins % 64 == 0 {
                            std::thread::yield_now();
                        } else {
                            for _ in 0..(spins.wrapping_mul(0x9E37_79B9) >> 7) % 300 {
                                std::hint::spin_loop();
                            }
                        }
                    }
                }
            }
        }
    }
    // settle what is left
    let t = std::time::Instant::now();
    while !unconfirmed.is_empty() && t.elapsed() < Duration::from_secs(3) {
        unconfirmed.retain(|(f, since)| {
            if f.0.load(Ordering::SeqCst) {
                st.spin_wakeups_confirmed.fetch_add(1, Ordering::Relaxed);
                return false;
            }
            if since.elapsed() > Duration::from_secs(2) {
                if st.lost_wakeups.fetch_add(1, Ordering::Relaxed) == 0 {
                    st.problem(format!("lost wake-up: conn {conn} side {side}: a waker registered on a full ring was not woken within 2 s after room appeared"));
                }
                return false;
            }
            true
        });
        std::thread::sleep(Duration::from_millis(10));
    }
    (w, ok)
}

/// The reading twin of `spin_writer`, as a stress only: polls the read half in a loop with fresh
/// wakers from its own OS thread (content oracle on every byte). No wake-up oracle here: a read
/// that returns bytes re-registers its own waker when it drains the queue, so an earlier waker may
/// legitimately stay silent.
fn spin_reader(mut r: librqbit_utp::UtpStreamReadHalf, rkey: u64, want_r: usize, rbuf: usize, conn: u32, side: u8, st: Arc<Stats>) -> (librqbit_utp::UtpStreamReadHalf, bool) {
    use std::{pin::Pin, task::{Context, Poll, Waker}};
    use tokio::io::{AsyncRead, ReadBuf};
    let mut got = 0usize;
    let mut buf = vec![0u8; rbuf];
    let mut spins = 0u64;
    let mut ok = true;
    let mut was_empty = false;
    while got < want_r {
        let f = Arc::new(Flag(AtomicBool::new(false)));
        let waker = Waker::from(f.clone());
        let mut cx = Context::from_waker(&waker);
        let mut rb = ReadBuf::new(&mut buf);
        match Pin::new(&mut r).poll_read(&mut cx, &mut rb) {
            Poll::Ready(Ok(())) => {
                let n = rb.filled().len();
                if n == 0 {
                    st.errors.fetch_add(1, Ordering::Relaxed);
                    st.problem(format!("conn {conn} side {side}: EOF after {got} of {want_r}"));
                    ok = false;
                    break;
                }
                if let Some((o, want, have)) = gen_check(rkey, got as u64, rb.filled()) {
                    st.mismatches.fetch_add(1, Ordering::Relaxed);
                    st.problem(format!("conn {conn} side {side}: content mismatch at offset {o}: want {want} got {have}"));
                    ok = false;
                    break;
                }
                got += n;
                st.bytes_read.fetch_add(n as u64, Ordering::Relaxed);
                st.reads.fetch_add(1, Ordering::Relaxed);
                if was_empty {
                    st.spin_data_after_empty.fetch_add(1, Ordering::Relaxed);
                    was_empty = false;
                }
            }
            Poll::Ready(Err(e)) => {
                st.errors.fetch_add(1, Ordering::Relaxed);
                st.problem(format!("conn {conn} side {side}: read failed after {got} of {want_r}: {e}"));
                ok = false;
                break;
            }
            Poll::Pending => {
                st.spin_empty_polls.fetch_add(1, Ordering::Relaxed);
                was_empty = true;
                spins += 1;
                if spins % 64 == 0 {
                    std::thread::yield_now();
                } else {
                    for _ in 0..(spins.wrapping_mul(0x9E37_79B9) >> 7) % 300 {
                        std::hint::spin_loop();
                    }
                }
            }
        }
    }
    (r, ok)
}

async fn run_side(mut r: librqbit_utp::UtpStreamReadHalf, mut w: librqbit_utp::UtpStreamWriteHalf, seed: u64, conn: u32, side: u8, total: [usize; 2], chunk: usize, rbuf: usize, stats: Arc<Stats>, spin: bool, spin_read: bool, spin_flush: bool, flush_end: bool) -> bool {
    let wkey = stream_key(seed, conn, side);
    let rkey = stream_key(seed, conn, 1 - side);
    let want_w = total[side as usize];
    let want_r = total[1 - side as usize];
    let st = stats.clone();
    // writer and reader are separate tasks: they run on other worker threads than the connection task
    let st_spin = stats.clone();
    let wt = if spin {
        tokio::task::spawn_blocking(move || spin_writer(w, wkey, want_w, chunk, conn, side, st_spin, spin_flush))
    } else { tokio::spawn(async move {
        let mut off = 0usize;
        let mut buf = vec![0u8; chunk];
        while off < want_w {
            let n = chunk.min(want_w - off);
            gen_fill(wkey, off as u64, &mut buf[..n]);
            match w.write_all(&buf[..n]).await {
                Ok(()) => {
                    off += n;
                    st.bytes_written.fetch_add(n as u64, Ordering::Relaxed);
                    st.writes.fetch_add(1, Ordering::Relaxed);
                }
                Err(e) => {
                    st.errors.fetch_add(1, Ordering::Relaxed);
                    st.problem(format!("conn {conn} side {side}: write failed after {off} of {want_w}: {e}"));
                    return (w, false);
                }
            }
        }
        // C03: a flush that returns Ok says every byte written so far was acknowledged; the peer,
        // which keeps reading, must then obtain all of them (its reader counts and checks them)
        if flush_end {
            match w.flush().await {
                Ok(()) => {
                    st.end_flushes_ok.fetch_add(1, Ordering::Relaxed);
                }
                Err(_) => {
                    st.end_flushes_err.fetch_add(1, Ordering::Relaxed);
                }
            }
        }
        (w, true)
    }) };
    let st = stats.clone();
    let st_spin = stats.clone();
    let rt = if spin_read {
        tokio::task::spawn_blocking(move || spin_reader(r, rkey, want_r, rbuf, conn, side, st_spin))
    } else { tokio::spawn(async move {
        let mut got = 0usize;
        let mut buf = vec![0u8; rbuf];
        st.threads_seen.lock().insert(format!("{:?}", std::thread::current().id()));
        while got < want_r {
            match r.read(&mut buf).await {
                Ok(0) => {
                    st.errors.fetch_add(1, Ordering::Relaxed);
                    st.problem(format!("conn {conn} side {side}: EOF after {got} of {want_r}"));
                    return (r, false);
                }
                Ok(n) => {
                    if let Some((o, want, have)) = gen_check(rkey, got as u64, &buf[..n]) {
                        st.mismatches.fetch_add(1, Ordering::Relaxed);
                        st.problem(format!("conn {conn} side {side}: content mismatch at offset {o}: want {want} got {have}"));
                        return (r, false);
                    }
                    got += n;
                    st.bytes_read.fetch_add(n as u64, Ordering::Relaxed);
                    st.reads.fetch_add(1, Ordering::Relaxed);
                }
                Err(e) => {
                    st.errors.fetch_add(1, Ordering::Relaxed);
                    st.problem(format!("conn {conn} side {side}: read failed after {got} of {want_r}: {e}"));
                    return (r, false);
                }
            }
        }
        (r, true)
    }) };
    let (wr, rr) = tokio::join!(wt, rt);
    let ok = matches!((&wr, &rr), (Ok((_, true)), Ok((_, true))));
    if wr.is_err() || rr.is_err() {
        stats.problem(format!("conn {conn} side {side}: a driver task panicked"));
    }
    ok
}

fn main() -> std::process::ExitCode {
    let args: Vec<String> = std::env::args().collect();
    let seed = arg(&args, "--seed", 1);
    let threads = arg(&args, "--threads", 8) as usize;
    let pairs = arg(&args, "--pairs", 4) as usize;
    let conns = arg(&args, "--conns", 6) as usize;
    let bytes = arg(&args, "--bytes", 300_000) as usize;
    let rounds = arg(&args, "--rounds", 2) as usize;
    // 0 = mixed buffers; 1 = growth: tiny initial TX ring allowed to grow to 1 MiB, small writes, fast
    // readers (every growth step copies the ring while the writer, on another thread, keeps pushing);
    // 2 = tiny: TX ring of a few hundred bytes that cannot grow, writes of a few bytes (the writer
    // blocks on a full ring after nearly every ACK and depends on the connection task to wake it)
    // 3 = spin: as 2, writers / readers poll from their own OS threads with fresh wakers
    // 4 = ping: mixed buffers, the connecting side writes small messages from its own OS thread and
    //     flushes after every other one (write - wait for the ACK - write on at once)
    let profile = arg(&args, "--profile", 0);
    // 1 = the asynchronous writers end with flush().await (C03: what a successful flush promises)
    let flush_end = arg(&args, "--flush-end", 0) == 1;
    let out = args.iter().position(|a| a == "--out").and_then(|i| args.get(i + 1).cloned());
    let stats = Arc::new(Stats::default());
    let panicked = Arc::new(AtomicBool::new(false));
    {
        let p = panicked.clone();
        let st = stats.clone();
        let prev = std::panic::take_hook();
        std::panic::set_hook(Box::new(move |info| {
            p.store(true, Ordering::SeqCst);
            st.problem(format!("panic: {info}"));
            prev(info);
        }));
    }
    let check_waiting = profile == 2;
    let check_reader = profile != 3;
    // (profile 3 polls with fresh wakers all the time: a registered waker next to free space is then
    // the harness' doing between two of its polls, the snapshot rule does not apply)
    {
        let st = stats.clone();
        librqbit_utp::verif::set_global_sink(Some(Box::new(move |ev| {
            use librqbit_utp::verif::VerifEvent as V;
            match ev {
                V::VsockCreated { .. } => {
                    st.vsock_created.fetch_add(1, Ordering::Relaxed);
                }
                V::Death { id, error: Some(e) } => {
                    st.deaths_with_error.fetch_add(1, Ordering::Relaxed);
                    let mut g = st.first_death.lock();
                    if g.is_none() {
                        *g = Some(format!("{}->{}: {}", id.local, id.remote, e));
                    }
                }
                V::VsockDropped { .. } => {
                    st.vsock_dropped.fetch_add(1, Ordering::Relaxed);
                }
                V::PollEnd { id, snap, finished } => {
                    st.polls.fetch_add(1, Ordering::Relaxed);
                    if std::env::var_os("UVH_MT_DEBUG").is_some() {
                        let mut g = st.last_snaps.lock();
                        let v = g.entry(format!("{}->{}", id.local, id.remote)).or_default();
                        v.push(format!("state={} ring={} segs={} flight={} unseg={} remote_fin={:?} our_fin={:?} last_consumed={} seq_nr={} last_sent={} finished={:?} tx_closed={}", snap.state, snap.tx.ring_len, snap.segments.count, snap.flight_size, snap.unsegmented_data, snap.remote_fin, snap.our_fin, snap.last_consumed_remote_seq_nr, snap.seq_nr, snap.last_sent_seq_nr, finished, snap.tx.vsock_closed));
                        if v.len() > 6 { v.remove(0); }
                    }
                    // Writers here only ever wait for space (no flush / shutdown calls). The writer
                    // registers its waker under the lock when a push stored nothing, the connection
                    // task frees space and takes the waker under the same lock: a snapshot (same
                    // lock) must never show a registered writer next to free space. (Growing rings
                    // are left out: growth adds room without waking.)
                    // The connection task registers its own waker with the TX buffer only when it
                    // found the ring empty, under the lock the writer holds while it pushes and
                    // takes that waker: a snapshot (same locks) must never show the task registered
                    // as waiting for the writer next to bytes in the ring.
                    st.tx_snapshots_checked_dispatcher.fetch_add(1, Ordering::Relaxed);
                    if snap.tx.dispatcher_waker_set && snap.tx.ring_len > 0 && !snap.tx.vsock_closed {
                        if st.waiting_dispatcher_with_data.fetch_add(1, Ordering::Relaxed) == 0 {
                            st.problem(format!(
                                "lost wake-up: connection task of {}->{} registered as waiting for the writer with {} bytes in the ring (state {})",
                                id.local, id.remote, snap.tx.ring_len, snap.state
                            ));
                        }
                    }
                    // Reading side, same shape: the reader registers its waker only when it found
                    // the queue empty (under the lock); the connection task queues data and takes
                    // the waker before its poll ends. At the end of a poll a registered reader next
                    // to queued items never shows. (Not with readers that poll with fresh wakers
                    // all the time - profile 3.)
                    if check_reader {
                        st.rx_snapshots_checked.fetch_add(1, Ordering::Relaxed);
                        if snap.rx.reader_waker_set && snap.rx.queue_items > 0 && !snap.rx.reader_dropped {
                            if st.waiting_reader_with_data.fetch_add(1, Ordering::Relaxed) == 0 {
                                st.problem(format!(
                                    "lost wake-up: reader of {}->{} registered as waiting with {} items ({} bytes) queued (state {})",
                                    id.local, id.remote, snap.rx.queue_items, snap.rx.queue_len_bytes, snap.state
                                ));
                            }
                        }
                    }
                    if check_waiting {
                        st.tx_snapshots_checked.fetch_add(1, Ordering::Relaxed);
                        if snap.tx.writer_waker_set && snap.tx.ring_len < snap.tx.ring_capacity && !snap.tx.vsock_closed {
                            if st.waiting_writer_with_room.fetch_add(1, Ordering::Relaxed) == 0 {
                                st.problem(format!(
                                    "lost wake-up: writer of {}->{} registered as waiting for space with {} of {} ring bytes used (state {})",
                                    id.local, id.remote, snap.tx.ring_len, snap.tx.ring_capacity, snap.state
                                ));
                            }
                        }
                    }
                }
                _ => {}
            }
        })));
    }
    let sub = uvh::trace_capture::CaptureSubscriber::new();
    let warn_buf = sub.buffer();
    let _ = tracing::subscriber::set_global_default(sub);
    let rt = tokio::runtime::Builder::new_multi_thread().worker_threads(threads).enable_time().build().expect("runtime");
    let t0 = std::time::Instant::now();
    let st = stats.clone();
    let stalled = Arc::new(AtomicBool::new(false));
    let stalled2 = stalled.clone();
    let finished = Arc::new(AtomicBool::new(false));
    let fin2 = finished.clone();
    // progress watchdog on its own OS thread (it must not depend on the runtime it watches)
    let st_w = stats.clone();
    let wd = std::thread::spawn(move || {
        let mut last = 0u64;
        let mut quiet = 0u32;
        loop {
            // 5 s between looks at the counters, in slices so that the end of the run is noticed at once
            for _ in 0..50 {
                std::thread::sleep(Duration::from_millis(100));
                if fin2.load(Ordering::SeqCst) {
                    return;
                }
            }
            let now = st_w.bytes_read.load(Ordering::Relaxed) + st_w.conns_done.load(Ordering::Relaxed);
            if now == last {
                quiet += 1;
            } else {
                quiet = 0;
                last = now;
            }
            // 24 x 5 s = two quiet minutes
            if quiet >= 24 {
                stalled2.store(true, Ordering::SeqCst);
                return;
            }
        }
    });
    let res = rt.block_on(async move {
        let clock = Clock::new();
        let log = Log::new(clock.clone(), false);
        log.disable();
        let mut plan = FaultPlan::perfect(mix2(seed, 0x3757));
        plan.latency = (0, 2 * MS);
        plan.dup = 0.01;
        plan.reorder = 0.05;
        plan.reorder_extra = 3 * MS;
        let net = Net::new(log.clone(), plan);
        let mut all = Vec::new();
        let mut rng = Prng::new(mix2(seed, 0x57E5));
        for p in 0..pairs {
            let mut ca = SockCfg::default();
            let mut cb = SockCfg::default();
            // small TX buffers: writers block and need the connection task (another thread) to wake them
            ca.tx_buf_initial = Some(*rng.pick(&[600usize, 4000, 32768]));
            ca.tx_buf_max = Some(ca.tx_buf_initial.unwrap() * *rng.pick(&[1usize, 4]));
            cb.tx_buf_initial = Some(*rng.pick(&[600usize, 4000, 32768]));
            cb.tx_buf_max = Some(cb.tx_buf_initial.unwrap() * *rng.pick(&[1usize, 4]));
            ca.disable_nagle = rng.chance(0.5);
            cb.disable_nagle = rng.chance(0.5);
            match profile {
                1 => {
                    for c in [&mut ca, &mut cb] {
                        c.tx_buf_initial = Some(*rng.pick(&[128usize, 600, 2048, 8192]));
                        c.tx_buf_max = Some(1 << 20);
                    }
                }
                4 => {
                    // the wake-up oracle needs rings that cannot grow: growth adds room outside the
                    // critical section that takes the writer's waker, so a newer poll can replace
                    // the waker in between and the older one legitimately stays silent
                    for c in [&mut ca, &mut cb] {
                        c.tx_buf_max = c.tx_buf_initial;
                    }
                }
                2 | 3 => {
                    for c in [&mut ca, &mut cb] {
                        c.tx_buf_initial = Some(*rng.pick(&[200usize, 600, 1500]));
                        c.tx_buf_max = c.tx_buf_initial;
                        c.disable_nagle = true;
                    }
                }
                _ => {}
            }
            // No path-MTU probing: with the real clock on a loaded machine retransmission timers fire
            // spuriously, and a probe that "timed out" after it was delivered is re-cut (known C01
            // finding); that defect is judged in the simulated runs, here it would only mask races.
            ca.link_mtu = Some(576);
            cb.link_mtu = Some(576);
            ca.remote_inactivity_timeout = Some(Duration::from_secs(600));
            cb.remote_inactivity_timeout = Some(Duration::from_secs(600));
            let a = make_socket(&net, &clock, v4(20_000 + p as u16 * 3), &ca, seed);
            let b = make_socket(&net, &clock, v4(21_000 + p as u16 * 3), &cb, seed);
            let baddr = v4(21_000 + p as u16 * 3);
            // at most 4 connects may be outstanding per (socket, address) (MAX_CONNECTING_PER_ADDR)
            let gate = Arc::new(tokio::sync::Semaphore::new(4));
            for round in 0..rounds {
                for k in 0..conns {
                    let conn = (p * 10_000 + round * 100 + k) as u32;
                    let total = [rng.log_range(1, bytes as u64) as usize, rng.log_range(1, bytes as u64) as usize];
                    let chunk = *rng.pick(&[1usize, 17, 1000, 70_000]);
                    let chunk = if total[0] + total[1] > 50_000 { chunk.max(17) } else { chunk };
                    let rbuf = *rng.pick(&[3usize, 500, 65536]);
                    let rbuf = if total[0] + total[1] > 50_000 { rbuf.max(500) } else { rbuf };
                    let (total, chunk, rbuf) = match profile {
                        1 => ([rng.range(bytes as u64 / 2, bytes as u64) as usize, rng.range(bytes as u64 / 2, bytes as u64) as usize], *rng.pick(&[5usize, 17, 64, 300]), 65536),
                        2 | 3 => ([rng.range(bytes as u64 / 2, bytes as u64) as usize, rng.range(bytes as u64 / 2, bytes as u64) as usize], *rng.pick(&[1usize, 3, 17, 90]), 65536),
                        // ping: small messages, each followed by a flush on the connecting side
                        4 => ([rng.range(bytes as u64 / 2, bytes as u64) as usize, rng.range(bytes as u64 / 2, bytes as u64) as usize], *rng.pick(&[20usize, 100, 400, 1500]), 65536),
                        _ => (total, chunk, rbuf),
                    };
                    let delay = round as u64 * 50 + rng.below(30);
                    let (a2, b2, st2) = (a.clone(), b.clone(), st.clone());
                    let gate2 = gate.clone();
                    // acceptor side: accept one stream, identify it, run
                    let st3 = st.clone();
                    let acc = tokio::spawn(async move {
                        let s = match b2.accept().await {
                            Ok(s) => s,
                            Err(e) => {
                                st3.problem(format!("accept failed: {e}"));
                                return;
                            }
                        };
                        let (mut r, w) = s.split();
                        let mut tok = [0u8; TOKEN_LEN];
                        if r.read_exact(&mut tok).await.is_err() {
                            st3.problem("token read failed".into());
                            return;
                        }
                        let c = match parse_token(seed, &tok) {
                            Some(c) => c,
                            None => {
                                st3.mismatches.fetch_add(1, Ordering::Relaxed);
                                st3.problem(format!("corrupt token {:?}", tok));
                                return;
                            }
                        };
                        // plan of connection c is carried in the next 24 bytes
                        let mut hdr = [0u8; 24];
                        if r.read_exact(&mut hdr).await.is_err() {
                            st3.problem("plan read failed".into());
                            return;
                        }
                        let t0 = u64::from_le_bytes(hdr[0..8].try_into().unwrap()) as usize;
                        let t1 = u64::from_le_bytes(hdr[8..16].try_into().unwrap()) as usize;
                        let ch = u32::from_le_bytes(hdr[16..20].try_into().unwrap()) as usize;
                        let rb = u32::from_le_bytes(hdr[20..24].try_into().unwrap()) as usize;
                        let ok = run_side(r, w, seed, c, 1, [t0, t1], ch, rb, st3.clone(), false, profile == 3, false, flush_end).await;
                        if ok {
                            st3.conns_done.fetch_add(1, Ordering::Relaxed);
                        }
                    });
                    let con = tokio::spawn(async move {
                        tokio::time::sleep(Duration::from_millis(delay)).await;
                        st2.conns_started.fetch_add(1, Ordering::Relaxed);
                        let permit = gate2.acquire().await.expect("semaphore");
                        let s = a2.connect(baddr).await;
                        drop(permit);
                        let s = match s {
                            Ok(s) => s,
                            Err(e) => {
                                st2.problem(format!("connect failed: {e}"));
                                return;
                            }
                        };
                        let (r, mut w) = s.split();
                        let mut first = token(seed, conn).to_vec();
                        first.extend_from_slice(&(total[0] as u64).to_le_bytes());
                        first.extend_from_slice(&(total[1] as u64).to_le_bytes());
                        first.extend_from_slice(&(chunk as u32).to_le_bytes());
                        first.extend_from_slice(&(rbuf as u32).to_le_bytes());
                        if w.write_all(&first).await.is_err() {
                            st2.problem("token write failed".into());
                            return;
                        }
                        let ok = run_side(r, w, seed, conn, 0, total, chunk, rbuf, st2.clone(), profile == 3 || profile == 4, false, profile == 4, flush_end).await;
                        if ok {
                            st2.conns_done.fetch_add(1, Ordering::Relaxed);
                        }
                    });
                    all.push(acc);
                    all.push(con);
                }
            }
        }
        let n = all.len();
        for h in all {
            tokio::select! {
                _ = h => {}
                _ = async { loop { tokio::time::sleep(Duration::from_secs(1)).await; if stalled.load(Ordering::SeqCst) { break; } } } => { return (n, false); }
            }
        }
        (n, true)
    });
    finished.store(true, Ordering::SeqCst);
    let _ = wd.join();
    let (tasks, all_joined) = res;
    let wall = t0.elapsed().as_secs_f64();
    let expect = (pairs * rounds * conns * 2) as u64;
    let done = stats.conns_done.load(Ordering::Relaxed);
    let mism = stats.mismatches.load(Ordering::Relaxed);
    let errs = stats.errors.load(Ordering::Relaxed);
    let problem = stats.first_problem.lock().clone();
    let verdict = if panicked.load(Ordering::SeqCst) {
        "panic"
    } else if mism > 0 {
        "content-mismatch"
    } else if stats.waiting_writer_with_room.load(Ordering::Relaxed) > 0 || stats.lost_wakeups.load(Ordering::Relaxed) > 0 || stats.waiting_dispatcher_with_data.load(Ordering::Relaxed) > 0 || stats.waiting_reader_with_data.load(Ordering::Relaxed) > 0 {
        "lost-wakeup"
    } else if !all_joined {
        "stall"
    } else if errs > 0 || done != expect {
        "incomplete"
    } else {
        "held"
    };
    let problem_json = match &problem {
        Some(p) => format!("\"{}\"", p.replace('\\', "/").replace('"', "'").replace('\n', " ")),
        None => "null".to_string(),
    };
    let fields: Vec<(&str, String)> = vec![
        ("verdict", format!("\"{verdict}\"")),
        ("problem", problem_json),
        ("seed", seed.to_string()),
        ("threads", threads.to_string()),
        ("pairs", pairs.to_string()),
        ("conns_per_pair_per_round", conns.to_string()),
        ("rounds", rounds.to_string()),
        ("profile", profile.to_string()),
        ("tasks", tasks.to_string()),
        ("connection_sides_expected", expect.to_string()),
        ("connection_sides_completed", done.to_string()),
        ("bytes_read_and_checked", stats.bytes_read.load(Ordering::Relaxed).to_string()),
        ("bytes_written", stats.bytes_written.load(Ordering::Relaxed).to_string()),
        ("reads", stats.reads.load(Ordering::Relaxed).to_string()),
        ("writes", stats.writes.load(Ordering::Relaxed).to_string()),
        ("connection_objects_created", stats.vsock_created.load(Ordering::Relaxed).to_string()),
        ("connection_objects_dropped", stats.vsock_dropped.load(Ordering::Relaxed).to_string()),
        ("connection_task_polls", stats.polls.load(Ordering::Relaxed).to_string()),
        ("worker_threads_seen_by_readers", stats.threads_seen.lock().len().to_string()),
        ("mismatches", mism.to_string()),
        ("spin_polls_that_found_the_ring_full", stats.spin_pending_polls.load(Ordering::Relaxed).to_string()),
        ("spin_room_after_full_events", stats.spin_room_after_full.load(Ordering::Relaxed).to_string()),
        ("spin_wakeups_confirmed_late", stats.spin_wakeups_confirmed.load(Ordering::Relaxed).to_string()),
        ("spin_read_polls_that_found_nothing", stats.spin_empty_polls.load(Ordering::Relaxed).to_string()),
        ("spin_data_after_empty_events", stats.spin_data_after_empty.load(Ordering::Relaxed).to_string()),
        ("tx_snapshots_checked_for_a_sleeping_connection_task", stats.tx_snapshots_checked_dispatcher.load(Ordering::Relaxed).to_string()),
        ("snapshots_with_the_connection_task_waiting_next_to_data", stats.waiting_dispatcher_with_data.load(Ordering::Relaxed).to_string()),
 ("final_flushes_that_met_the_peers_close", stats.final_flush_errors.load(Ordering::Relaxed).to_string()),
        ("final_flushes_ok", stats.end_flushes_ok.load(Ordering::Relaxed).to_string()),
        ("final_flushes_err", stats.end_flushes_err.load(Ordering::Relaxed).to_string()),
        ("spin_flushes_completed", stats.spin_flushes.load(Ordering::Relaxed).to_string()),
        ("connection_tasks_ended_with_an_error", stats.deaths_with_error.load(Ordering::Relaxed).to_string()),
        ("first_connection_error", match stats.first_death.lock().clone() { Some(e) => format!("\"{}\"", e.replace('"', "'")), None => "null".to_string() }),
        ("rx_snapshots_checked_for_a_sleeping_reader", stats.rx_snapshots_checked.load(Ordering::Relaxed).to_string()),
        ("snapshots_with_a_waiting_reader_next_to_queued_data", stats.waiting_reader_with_data.load(Ordering::Relaxed).to_string()),
        ("lost_wakeups", stats.lost_wakeups.load(Ordering::Relaxed).to_string()),
        ("tx_snapshots_checked_for_lost_wakeups", stats.tx_snapshots_checked.load(Ordering::Relaxed).to_string()),
        ("snapshots_with_a_waiting_writer_next_to_free_space", stats.waiting_writer_with_room.load(Ordering::Relaxed).to_string()),
        ("errors", errs.to_string()),
        ("wall_s", format!("{wall:.1}")),
    ];
    let json = format!("{{{}}}", fields.iter().map(|(k, v)| format!("\"{k}\":{v}")).collect::<Vec<_>>().join(","));
    if std::env::var_os("UVH_MT_DEBUG").is_some() && problem.is_some() {
        for (k, v) in stats.last_snaps.lock().iter() {
            for l in v {
                eprintln!("SNAP {k}: {l}");
            }
        }
    }
    for w in warn_buf.lock().iter().take(20) {
        eprintln!("WARN: {w}");
    }
    println!("{json}");
    if let Some(o) = out {
        let _ = std::fs::write(o, &json);
    }
    let _ = stats.write_pending_waits.load(Ordering::Relaxed);
    let _ = stats.polls.load(Ordering::Relaxed);
    match verdict {
        "held" => std::process::ExitCode::from(0),
        "stall" | "incomplete" | "content-mismatch" | "panic" | "lost-wakeup" => std::process::ExitCode::from(1),
        _ => std::process::ExitCode::from(2),
    }
}
