//! miricase: a few small whole-stack / component cases in one single-threaded process, meant to be
//! interpreted by Miri (`cargo +nightly miri run --bin miricase -- <kind> <seed> <size>`), sharded
//! over processes by check.py. The same oracles as in the native runs apply; Miri adds undefined
//! behaviour, invalid use of the dependencies' unsafe code (ringbuf, bitvec, parking_lot, tokio)
//! and leaks as violations (non-zero exit of the interpreter).
//!
//! kinds: codec (C11 differential codec oracle, `size` strings), duplex (general fault family,
//! transfers up to `size` bytes, C01 boundary oracle), hostile (hostile scripted-peer walk, C10),
//! txgrow (TX ring growth / back-pressure script, C19 + content).
use std::process::ExitCode;

use uvh::{
    app::stream_key,
    fam::duplex::{self, Profile},
    mon,
    runner::CaseCtx,
    verdict::{CaseReport, Tier},
    view::WireView,
};

fn main() -> ExitCode {
    let args: Vec<String> = std::env::args().collect();
    let kind = args.get(1).map(|s| s.as_str()).unwrap_or("codec");
    let seed: u64 = args.get(2).map(|s| s.parse().expect("seed")).unwrap_or(1);
    let size: usize = args.get(3).map(|s| s.parse().expect("size")).unwrap_or(100);
    let ctx = CaseCtx { seed, property: "C11", tier: Tier::Quick, family: "miri", index: 0, case_seed: uvh::prng::mix2(seed, 0x3141), keep_events: false };
    let mut rep = CaseReport::new("miri", 0, ctx.case_seed);
    let mut datagrams = 0usize;
    let mut events = 0usize;
    match kind {
        "codec" => {
            rep = uvh::fam::direct::direct_wire_random_n(&ctx, size);
        }
        "duplex" => {
            let mut g = duplex::generate(ctx.case_seed, Profile::General, size);
            g.cfg.keep_snapshots = false;
            let run = duplex::run_duplex(ctx.case_seed, &g.cfg, g.plan);
            let view = WireView::build(&run.events);
            datagrams = view.pkts.len();
            events = run.events.len();
            mon::c10::check_no_panic_no_bug(&mut rep, &run.events, &run.panicked);
            if !view.conns.is_empty() {
                let w0 = mon::c01::check_wire_dir(&mut rep, &view, 0, true, stream_key(ctx.case_seed, 0, 0), "w0");
                let w1 = mon::c01::check_wire_dir(&mut rep, &view, 0, false, stream_key(ctx.case_seed, 0, 1), "w1");
                mon::c01::check_boundary(&mut rep, &run.events, 0, 0, &w0);
                mon::c01::check_boundary(&mut rep, &run.events, 0, 1, &w1);
            }
        }
        "hostile" => {
            use uvh::fam::hsscript as hs;
            let cfg = hs::generate_hostile(ctx.case_seed);
            let run = hs::run_hs(ctx.case_seed, &cfg, false);
            let view = WireView::build(&run.events);
            datagrams = view.pkts.len();
            events = run.events.len();
            mon::c10::check_no_panic_no_bug(&mut rep, &run.events, &run.panicked);
        }
        "txgrow" => {
            use uvh::fam::txscript as tx;
            let cfg = tx::generate(ctx.case_seed, tx::TxFocus::Buffer, size);
            let run = tx::run_tx(ctx.case_seed, &cfg);
            let view = WireView::build(&run.events);
            datagrams = view.pkts.len();
            events = run.events.len();
            mon::c10::check_no_panic_no_bug(&mut rep, &run.events, &run.panicked);
            if !view.conns.is_empty() {
                mon::c01::check_wire_dir(&mut rep, &view, 0, cfg.real_initiates, stream_key(ctx.case_seed, 0, 0), "tx");
            }
        }
        other => {
            eprintln!("unknown kind {other}");
            return ExitCode::from(2);
        }
    }
    // known findings of the native runs are not re-judged here: the Miri pass looks for UB
    let unexpected: Vec<_> = rep.violations.iter().filter(|v| !(v.signature.contains("probe-resegmented") || v.rule == "content-mismatch" || v.rule == "read-beyond-written")).collect();
    println!(
        "MIRICASE kind={kind} seed={seed} size={size} events={events} datagrams={datagrams} strings={} oracle_violations={} (content findings of the native runs not re-judged: {})",
        rep.counters.get("c11_strings_parsed"),
        unexpected.len(),
        rep.violations.len() - unexpected.len()
    );
    for v in &unexpected {
        println!("VIOLATED property={} rule={} signature={} detail={}", v.property, v.rule, v.signature, v.detail);
    }
    if unexpected.is_empty() {
        ExitCode::from(0)
    } else {
        ExitCode::from(1)
    }
}
