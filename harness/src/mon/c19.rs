//! C19 send-side buffering bound and back-pressure.
//!
//! * bytes accepted by write minus bytes cumulatively acknowledged to the endpoint never exceed
//!   the transmit buffer limit max(initial, maximum) - judged at every write return (boundary);
//! * hooked snapshots: ring length <= ring capacity <= that limit at the end of every poll;
//! * a write that is pending (buffer full) completes in the very step in which a processed ACK
//!   freed space; with a peer that has fallen silent for good it stays pending until the
//!   connection fails and then returns an error;
//! * across every growth step of the ring the bytes on the wire are still the generator's
//!   (C01 wire oracle, run by the caller on the same log).
use librqbit_utp::verif::VerifEvent as V;

use crate::{
    events::{ApiOp, Ev, Event, Us, MS},
    mon::sender::SenderModel,
    verdict::CaseReport,
};

pub const P: &str = "C19";

pub fn check(rep: &mut CaseReport, m: &SenderModel, events: &[Event], limit: usize, real_addr: std::net::SocketAddr) {
    if m.broken.is_some() {
        return;
    }
    // ACK processing times -> cumulative acknowledged bytes
    let mut ack_at: std::collections::BTreeMap<usize, u64> = Default::default();
    for a in &m.acks {
        if a.advanced {
            let b = m.table.range(..=a.ack_idx).next_back().map(|(_, (o, l))| o + *l as u64).unwrap_or(0);
            ack_at.insert(a.ev_idx, b);
        }
    }
    let recut = m.sends.iter().any(|s| !s.first_tx && m.table.get(&s.idx).map(|(_, l)| *l != s.len).unwrap_or(false));
    let mut accepted = 0u64;
    let mut acked = 0u64;
    let mut pending_write_since: Option<Us> = None;
    let mut owed: Option<Us> = None;
    let mut last_cap: Option<usize> = None;
    for (i, e) in events.iter().enumerate() {
        if let Some(b) = ack_at.get(&i) {
            if *b > acked {
                acked = *b;
                if pending_write_since.is_some() && owed.is_none() {
                    owed = Some(e.t);
                }
            }
            continue;
        }
        match &e.ev {
            Ev::Api { conn: 0, side: 0, op } => match op {
                ApiOp::WriteCall { .. } => pending_write_since = Some(e.t),
                ApiOp::WriteRet(r) => {
                    pending_write_since = None;
                    if let Some(t0) = owed.take() {
                        rep.counters.inc("c19_writer_wakeups_checked");
                        if e.t > t0 + MS {
                            rep.violate(
                                P,
                                "writer-woken-late",
                                "back-pressure".to_string(),
                                format!("an ACK freed transmit buffer space at t={t0} us while a write was pending; the write returned only at t={} us", e.t),
                                Some(t0),
                            );
                        }
                    }
                    if let Ok(n) = r {
                        accepted += *n as u64;
                        rep.counters.inc("c19_write_returns_checked");
                        if !recut && accepted.saturating_sub(acked) > limit as u64 {
                            rep.violate(
                                P,
                                "buffer-limit-exceeded",
                                "boundary".to_string(),
                                format!(
                                    "after the write return at t={} us {} bytes are accepted and {} acknowledged: {} buffered, the limit max(initial, maximum) is {}",
                                    e.t,
                                    accepted,
                                    acked,
                                    accepted - acked,
                                    limit
                                ),
                                Some(e.t),
                            );
                        }
                    }
                }
                _ => {}
            },
            Ev::Hook(V::PollEnd { id, snap, .. }) if id.local == real_addr => {
                rep.counters.inc("c19_snapshots_checked");
                if snap.tx.ring_len > snap.tx.ring_capacity || snap.tx.ring_capacity > limit.max(1) {
                    rep.violate(
                        P,
                        "ring-exceeds-limit",
                        "snapshot".to_string(),
                        format!("at t={} us the transmit ring holds {} bytes, capacity {}, configured limit {}", e.t, snap.tx.ring_len, snap.tx.ring_capacity, limit),
                        Some(e.t),
                    );
                }
                if let Some(c) = last_cap {
                    if c != snap.tx.ring_capacity {
                        rep.counters.inc("c19_growth_steps_seen");
                        if snap.tx.ring_capacity < c {
                            rep.violate(P, "ring-shrunk", "snapshot".to_string(), format!("ring capacity went from {c} to {}", snap.tx.ring_capacity), Some(e.t));
                        }
                    }
                }
                last_cap = Some(snap.tx.ring_capacity);
            }
            _ => {}
        }
    }
    if let Some(t0) = owed {
        let end = events.last().map(|e| e.t).unwrap_or(t0);
        if end > t0 + MS {
            rep.violate(
                P,
                "writer-woken-late",
                "back-pressure".to_string(),
                format!("an ACK freed transmit buffer space at t={t0} us while a write was pending; the write never returned"),
                Some(t0),
            );
        }
    }
}

/// Silent peer: the writer stays pending until the connection fails and then gets an error.
pub fn check_silent_peer(rep: &mut CaseReport, events: &[Event], real_addr: std::net::SocketAddr) {
    let silent_forever = events.iter().any(|e| matches!(&e.ev, Ev::Note(n) if n.starts_with("peer falls silent") && n.contains("18446744073709551615")));
    if !silent_forever {
        return;
    }
    let death = events.iter().find_map(|e| match &e.ev {
        Ev::Hook(V::Death { id, error: Some(_) }) if id.local == real_addr => Some(e.t),
        _ => None,
    });
    let dt = match death {
        Some(t) => t,
        None => return,
    };
    // a write that was pending at the death must return an error at that instant
    let mut pending: Option<Us> = None;
    for e in events {
        if let Ev::Api { conn: 0, side: 0, op } = &e.ev {
            match op {
                ApiOp::WriteCall { .. } => pending = Some(e.t),
                ApiOp::WriteRet(r) => {
                    if let Some(t0) = pending.take() {
                        if t0 <= dt && e.t >= dt {
                            rep.counters.inc("c19_silent_peer_writes_checked");
                            if r.is_ok() || e.t > dt + MS {
                                rep.violate(
                                    P,
                                    "pending-write-after-failure",
                                    "silent-peer".to_string(),
                                    format!("the connection failed at t={dt} us; the write pending since t={t0} us returned {:?} at t={} us", r, e.t),
                                    Some(e.t),
                                );
                            }
                        }
                    }
                }
                _ => {}
            }
        }
    }
}
