//! C15 on the whole stack: what a fast-recovery episode does to the slow-start threshold.
//!
//! Entering fast recovery reduces the congestion window once (threshold = 0.7 of the window, at
//! least two segments) and the episode runs under that reduced window; when the episode ends with
//! a full acknowledgement the threshold in force afterwards is the window the episode ran under:
//! a finite number. The hooked snapshots (taken at the end of every poll) show the threshold; the
//! rule judged here is the weak, always-true part: after a completed fast-recovery episode the
//! threshold is not "unbounded" any more. (Two stronger formulations - threshold after the exit
//! equals the threshold right after entry; what is outstanding during the episode stays below twice
//! what was outstanding before it - were tried and withdrawn: with one snapshot per poll an exit
//! and the next entry can fall into one poll, and the library's pipe estimate forgets segments
//! older than 3/4 RTT, so a long episode legitimately sends a reduced window's worth again and
//! again.)
use std::collections::BTreeMap;

use librqbit_utp::verif::VerifEvent as V;

use crate::{
    events::{Ev, Event},
    verdict::CaseReport,
};

const P: &str = "C15";

pub fn check_recovery_threshold(rep: &mut CaseReport, events: &[Event], real_addr: std::net::SocketAddr) {
    // uid -> (phase, ssthresh, mss) of the previous snapshot; episode: (ssthresh before, ssthresh at entry, mss at entry)
    let mut prev: BTreeMap<u64, (&'static str, usize, u16)> = BTreeMap::new();
    let mut episode: BTreeMap<u64, (usize, usize, u16)> = BTreeMap::new();
    for e in events {
        let (id, snap) = match &e.ev {
            Ev::Hook(V::PollEnd { id, snap, finished: None }) if id.local == real_addr => (id, snap),
            _ => continue,
        };
        let cur = (snap.recovery, snap.ssthresh, snap.min_ss);
        if let Some(p) = prev.get(&id.uid).copied() {
            match (p.0, cur.0) {
                ("counting-duplicates", "recovering") => {
                    rep.counters.inc("c15_fast_recovery_entries_seen");
                    episode.insert(id.uid, (p.1, cur.1, cur.2));
                }
                ("recovering", "counting-duplicates") => {
                    if let Some((before, at_entry, mss)) = episode.remove(&id.uid) {
                        if mss == cur.2 {
                            rep.counters.inc("c15_fast_recovery_exits_checked");
                            let _ = at_entry;
                            if cur.1 >= usize::MAX / 2 {
                                rep.violate(
                                    P,
                                    "threshold-after-recovery",
                                    "fast recovery exit".to_string(),
                                    format!(
                                        "the episode that ended at t={} us ran under a window of {} bytes (threshold right after entry; {} before the loss), the threshold in force after it is {} bytes",
                                        e.t, at_entry, before, cur.1
                                    ),
                                    Some(e.t),
                                );
                            }
                        } else {
                            rep.counters.inc("c15_fast_recovery_exits_with_a_segment_size_change_not_judged");
                        }
                    }
                }
                ("recovering", "recovering") => {}
                _ => {
                    episode.remove(&id.uid);
                }
            }
        }
        prev.insert(id.uid, cur);
    }
}
