//! C05: the sender obeys the peer's advertised window and slow-start growth.
//!
//! At every first transmission of a sequence number (the scripted peer's packets are handed to
//! the endpoint instantly, so "most recently advertised to it" is unambiguous; for several
//! packets handed over at the same instant the largest window of the batch is allowed):
//!   * outside a loss episode, bytes outstanding after the send <= that window;
//!   * after a processed zero window no first transmission until a non-zero window is processed;
//!   * before the first loss event, outstanding <= 2 * S + bytes acknowledged so far;
//!   * after a timeout retransmission (judged in the silent phase of the peer, where every
//!     retransmission is a timeout by construction) one data datagram per expiry and no new
//!     payload until an ACK of new data is processed.
use crate::{
    events::{Ev, Event},
    mon::sender::SenderModel,
    verdict::CaseReport,
};

pub const P: &str = "C05";

pub fn check(rep: &mut CaseReport, m: &SenderModel, events: &[Event]) {
    if let Some(b) = &m.broken {
        rep.counters.inc("c05_models_broken");
        rep.inconclusive.push(format!("sender model could not be built: {b}"));
        return;
    }
    // time from which the peer is silent (everything it had sent was processed instantly)
    let silent_from = events.iter().find_map(|e| match &e.ev {
        Ev::Note(n) if n.starts_with("peer falls silent") => Some(e.t),
        _ => None,
    });
    let silent_forever = events.iter().any(|e| matches!(&e.ev, Ev::Note(n) if n.contains("Some(18446744073709551615)")));
    if events.iter().any(|e| matches!(&e.ev, Ev::Note(n) if n.starts_with("peer noise"))) {
        rep.counters.inc("c05_silent_phases_with_non_acknowledging_packets");
    }
    let mut seen_retx_in_silence = false;
    let mut timeout_idx: Option<i64> = None;
    let mut last_ts_with_data: Option<(u64, u32)> = None;
    // size probes (first transmission larger than the proven segment size): their expiry is, by
    // design, not treated as a congestion timeout (the probe is taken back and normal sending
    // resumes), so it does not start the "single segment" regime
    let mut probes: std::collections::BTreeSet<i64> = Default::default();
    for s in &m.sends {
        if s.first_tx && !s.is_fin && s.len > s.seg_size {
            probes.insert(s.idx);
        }
        if s.is_fin {
            continue;
        }
        if s.first_tx && s.left {
            rep.counters.inc("c05_first_transmissions_checked");
            let w_allowed = s.wnd_batch_max.or(s.wnd_last);
            match w_allowed {
                None => {
                    rep.violate(
                        P,
                        "sent-before-any-window",
                        "window".to_string(),
                        format!("seq {} ({} bytes) was sent at t={} us before any window had been advertised to the endpoint", s.seq, s.len, s.t),
                        Some(s.t),
                    );
                }
                Some(0) => {
                    // new payload into a window known to be zero
                    let spontaneous = s.spontaneous;
                    rep.violate(
                        P,
                        "new-data-into-zero-window",
                        if spontaneous { "timer-driven (timeout path)".to_string() } else { "in-response-to-a-packet".to_string() },
                        format!(
                            "seq {} ({} bytes, never sent before) was transmitted at t={} us although the last window handed to the endpoint was 0 ({} bytes outstanding before)",
                            s.seq, s.len, s.t, s.outstanding_before
                        ),
                        Some(s.t),
                    );
                }
                Some(w) => {
                    // outside loss recovery: no duplicate / selective ACK since everything sent before
                    // the last one was covered - or, where the sender's own phase was recorded, the
                    // sender itself is not recovering (a selective ACK below the threshold, or one
                    // that arrives after recovery ended, puts nobody into recovery)
                    let idle = s.sender_phase == Some("counting-duplicates");
                    if !s.in_loss_episode || idle {
                        rep.counters.inc("c05_window_bound_checked");
                        if s.in_loss_episode {
                            rep.counters.inc("c05_window_bound_checked_with_sacks_around_but_sender_not_recovering");
                        }
                        if s.outstanding_after > w as u64 {
                            let spontaneous = s.spontaneous;
                            rep.violate(
                                P,
                                "window-exceeded",
                                if spontaneous && s.outstanding_before == 0 { "timer-driven (timeout path)".to_string() } else { "window".to_string() },
                                format!(
                                    "after the first transmission of seq {} ({} bytes) at t={} us {} bytes are outstanding, the window most recently advertised to the endpoint is {} (last {:?})",
                                    s.seq, s.len, s.t, s.outstanding_after, w, s.wnd_last
                                ),
                                Some(s.t),
                            );
                        }
                    }
                }
            }
            if !s.after_first_loss {
                rep.counters.inc("c05_slow_start_bound_checked");
                let bound = 2 * s.seg_size as u64 + s.acked_bytes;
                if s.outstanding_after > bound {
                    rep.violate(
                        P,
                        "slow-start-exceeded",
                        "slow-start".to_string(),
                        format!(
                            "before any loss event: {} bytes outstanding after sending seq {} at t={} us, but 2 x segment size ({}) + acknowledged bytes ({}) = {}",
                            s.outstanding_after, s.seq, s.t, s.seg_size, s.acked_bytes, bound
                        ),
                        Some(s.t),
                    );
                }
            }
        }
        // timeout behaviour in the silent phase
        if let Some(t0) = silent_from {
            if s.t > t0 && silent_forever && s.left {
                if !s.first_tx && !probes.contains(&s.idx) {
                    seen_retx_in_silence = true;
                }
                if seen_retx_in_silence {
                    rep.counters.inc("c05_timeout_sends_checked");
                    // nothing new is acknowledged in this phase (the peer's noise repeats its last
                    // ACK): every expiry retransmits the same, oldest unacknowledged segment
                    match timeout_idx {
                        None => timeout_idx = Some(s.idx),
                        Some(i) if i != s.idx && !s.first_tx && !probes.contains(&s.idx) => {
                            rep.violate(
                                P,
                                "other-segment-after-timeout",
                                "timeout".to_string(),
                                format!("after a retransmission timeout of segment index {i}, with nothing new acknowledged since, segment index {} (seq {}) was transmitted at t={} us", s.idx, s.seq, s.t),
                                Some(s.t),
                            );
                        }
                        _ => {}
                    }
                    if s.first_tx {
                        rep.violate(
                            P,
                            "new-data-after-timeout",
                            "timeout".to_string(),
                            format!("after a retransmission timeout, with no ACK since, new payload (seq {}) was sent at t={} us", s.seq, s.t),
                            Some(s.t),
                        );
                    }
                    match last_ts_with_data {
                        Some((t, n)) if t == s.t => {
                            last_ts_with_data = Some((t, n + 1));
                            if n + 1 == 2 {
                                rep.violate(
                                    P,
                                    "several-segments-per-timeout",
                                    "timeout".to_string(),
                                    format!("more than one data datagram was sent on the timer expiry at t={} us with no ACK since the timeout", s.t),
                                    Some(s.t),
                                );
                            }
                        }
                        _ => last_ts_with_data = Some((s.t, 1)),
                    }
                }
            }
        }
    }
}
