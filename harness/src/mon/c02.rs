//! C02 progress oracles.
//!
//! Fair-lossy part: on a network that drops no datagram identity more than a bounded number of
//! times, every accepted byte is read by the peer, flush/shutdown return, no stream operation
//! fails, all before a generous *virtual* deadline (a genuine hang jumps there instantly).
//! Promptness part (loss-free, fixed latency L): no wire silence longer than 2L + 40 ms + eps
//! while accepted bytes are undelivered and the peer reads greedily; a write / shutdown on an
//! idle connection reaches the wire in the same logical step; blocked readers are woken in
//! the step in which their data became in-order.
use crate::{
    app::ReadEnd,
    events::{ApiOp, Ev, Event, Us, MS},
    fam::duplex::{DuplexCfg, DuplexOutcome},
    sim::CaseRun,
    verdict::CaseReport,
    view::WireView,
    wire,
};

pub const P: &str = "C02";

/// Completion oracle for a duplex case on a fair network. All symptoms of one case are folded
/// into a single "incomplete" violation whose signature names the root cause found in the
/// history (`causes` is only evaluated for failing cases), or says "unexplained".
pub fn check_completion(
    rep: &mut CaseReport,
    cfg: &DuplexCfg,
    run: &CaseRun<DuplexOutcome>,
    causes: &dyn Fn() -> Vec<String>,
    symptoms: &dyn Fn() -> String,
) {
    rep.counters.inc("c02_completion_cases");
    let mut fails: Vec<(&'static str, String, Option<Us>)> = Vec::new();
    let t_end = Some(run.end_time);
    match &run.result {
        None => {
            if run.deadline_hit {
                let (mut acc, mut rd) = ([0u64; 2], [0u64; 2]);
                for e in &run.events {
                    if let Ev::Api { side, op, .. } = &e.ev {
                        match op {
                            ApiOp::WriteRet(Ok(n)) => acc[*side as usize] += *n as u64,
                            ApiOp::ReadRet(Ok(n)) => rd[*side as usize] += *n as u64,
                            _ => {}
                        }
                    }
                }
                // A connection that is still moving at the deadline is slow, not stalled (e.g. tiny
                // segments under heavy loss with the timeout backed off to its 60 s cap): that is
                // recorded, but it is no verdict. A stall is "no byte read for the last 30 virtual
                // minutes", far beyond what timers of a live connection allow (60 s cap x 5 retries).
                let last_progress = run
                    .events
                    .iter()
                    .rev()
                    .find(|e| matches!(&e.ev, Ev::Api { op: ApiOp::ReadRet(Ok(n)), .. } if *n > 0))
                    .map(|e| e.t)
                    .unwrap_or(0);
                if run.end_time.saturating_sub(last_progress) < 1800 * 1_000_000 {
                    rep.counters.inc("c02_slow_but_progressing_at_deadline");
                    return;
                }
                let mut any = false;
                for s in 0..2usize {
                    let total = cfg.w[s].total as u64;
                    if rd[1 - s] < total {
                        any = true;
                        fails.push((
                            "stall",
                            format!(
                                "virtual deadline reached: side {s} wrote {} of {} bytes, peer read {}",
                                acc[s], total, rd[1 - s]
                            ),
                            t_end,
                        ));
                    }
                }
                if !any {
                    fails.push((
                        "stall-in-close",
                        "virtual deadline reached although all bytes were delivered (shutdown / EOF never completed)".into(),
                        t_end,
                    ));
                }
            }
        }
        Some(out) => {
            if let Some(e) = &out.connect_err {
                fails.push(("connect-failed", format!("connect failed: {e}"), t_end));
            } else if let Some(e) = &out.accept_err {
                fails.push(("connect-failed", format!("accept failed: {e}"), t_end));
            } else {
                for s in 0..2usize {
                    let total = cfg.w[s].total;
                    if let Some(w) = &out.w[s] {
                        if w.accepted != total {
                            fails.push((
                                "write-error",
                                format!("side {s} writer failed after {} of {} bytes: {:?}", w.accepted, total, w.error),
                                Some(w.finished_at),
                            ));
                        } else if let Some(e) = &w.error {
                            // all bytes were accepted; the error came from flush/shutdown. After the
                            // peer's FIN that is the documented consequence of "no half-close".
                            let peer_done = matches!(out.r[s].as_ref().map(|r| &r.end), Some(ReadEnd::Eof));
                            let delivered = out.r[1 - s].as_ref().map(|r| r.read) == Some(total);
                            if peer_done {
                                rep.counters.inc("c02_close_errors_after_peer_fin_tolerated");
                            } else if delivered {
                                // every byte reached the peer application; only the closing exchange
                                // failed (e.g. the peer's FIN/ACK was lost and the peer gave up after
                                // its 1 s final-chance timer): shutdown returned, honestly, an error
                                rep.counters.inc("c02_unclean_close_after_full_delivery");
                            } else {
                                fails.push((
                                    "close-error",
                                    format!("side {s}: flush/shutdown failed ({e}) although the peer had not closed"),
                                    Some(w.finished_at),
                                ));
                            }
                        }
                    }
                    if let Some(r) = &out.r[1 - s] {
                        match &r.end {
                            ReadEnd::Eof => {
                                if r.read != total {
                                    fails.push((
                                        "short-read",
                                        format!("peer of side {s} got EOF after {} of {} bytes", r.read, total),
                                        Some(r.finished_at),
                                    ));
                                } else {
                                    rep.counters.inc("c02_directions_completed");
                                }
                            }
                            ReadEnd::Error(e) => {
                                if r.read == total {
                                    // everything was delivered; the close handshake itself did not
                                    // complete cleanly (lost closing packets + the 1 s final-chance
                                    // timer): the reader is honestly told so. Delivery is complete.
                                    rep.counters.inc("c02_directions_completed");
                                    rep.counters.inc("c02_unclean_close_after_full_delivery");
                                } else {
                                    fails.push((
                                        "read-error",
                                        format!("peer of side {s} failed after {} of {} bytes: {e}", r.read, total),
                                        Some(r.finished_at),
                                    ))
                                }
                            }
                            ReadEnd::Stopped => {}
                        }
                    }
                }
            }
        }
    }
    if fails.is_empty() {
        return;
    }
    let cs = causes();
    let signature = match cs.first() {
        Some(c) => format!("cause={c}"),
        None => format!("unexplained {} {}", fails[0].0, symptoms()),
    };
    let detail = fails
        .iter()
        .map(|(k, d, _)| format!("[{k}] {d}"))
        .collect::<Vec<_>>()
        .join("; ");
    let at = fails.iter().filter_map(|f| f.2).min();
    rep.violate(P, "incomplete", signature, format!("{detail} (causes found: {:?})", cs), at);
}

/// Sum of the time the reader of direction `wside` spent with undelivered bytes outstanding.
pub struct DirTimeline {
    /// (time, accepted so far, read so far) at every change
    pub points: Vec<(Us, u64, u64)>,
}

pub fn dir_timeline(events: &[Event], conn: u32, wside: u8) -> DirTimeline {
    let rside = 1 - wside;
    let (mut acc, mut rd) = (0u64, 0u64);
    let mut points = vec![(0, 0, 0)];
    for e in events {
        if let Ev::Api { conn: c, side, op } = &e.ev {
            if *c != conn {
                continue;
            }
            match op {
                ApiOp::WriteRet(Ok(n)) if *side == wside => {
                    acc += *n as u64;
                    points.push((e.t, acc, rd));
                }
                ApiOp::ReadRet(Ok(n)) if *side == rside => {
                    rd += *n as u64;
                    points.push((e.t, acc, rd));
                }
                _ => {}
            }
        }
    }
    DirTimeline { points }
}

/// Promptness oracle (a): maximal wire silence while bytes are undelivered.
/// `greedy_from[side]`: time from which the reader on `side` reads greedily (u64::MAX = never).
pub fn check_silence(
    rep: &mut CaseReport,
    events: &[Event],
    view: &WireView,
    latency: Us,
    greedy_from: [Us; 2],
    end_time: Us,
) {
    // One known mechanism: a sender that transmitted into a zero window through the timeout
    // path sits in timeout back-off and resumes only when the backed-off timer fires.
    let cause = |wside: u8, t: Us| -> &'static str {
        if !view.conns.is_empty() && crate::mon::diag::sender_in_zero_window_backoff(view, 0, wside == 0, t) {
            " cause=sender-in-timeout-backoff-after-zero-window"
        } else if !view.conns.is_empty() && crate::mon::diag::silence_ended_by_segment_larger_than_window(view, 0, wside == 0, t) {
            " cause=unsent-segment-cut-for-a-larger-window"
        } else {
            ""
        }
    };
    let bound = 2 * latency + 40 * MS + 3 * MS;
    // busy intervals: every datagram from send until its (last) arrival
    let mut busy: Vec<(Us, Us)> = Vec::new();
    for p in &view.pkts {
        if !p.left_sender() {
            continue;
        }
        let end = p.arrivals.iter().copied().max().unwrap_or(p.t);
        busy.push((p.t, end));
    }
    busy.sort();
    // merge
    let mut merged: Vec<(Us, Us)> = Vec::new();
    for (a, b) in busy {
        match merged.last_mut() {
            Some(l) if a <= l.1 => l.1 = l.1.max(b),
            _ => merged.push((a, b)),
        }
    }
    // silent gaps
    let mut gaps: Vec<(Us, Us)> = Vec::new();
    let mut prev_end = 0;
    for (a, b) in &merged {
        if *a > prev_end {
            gaps.push((prev_end, *a));
        }
        prev_end = *b;
    }
    if end_time > prev_end {
        gaps.push((prev_end, end_time));
    }
    for wside in 0..2u8 {
        let rside = 1 - wside;
        let tl = dir_timeline(events, 0, wside);
        let gfrom = greedy_from[rside as usize];
        // intervals during which bytes are undelivered
        for w in tl.points.windows(2) {
            let (t0, acc, rd) = w[0];
            let t1 = w[1].0;
            if acc <= rd {
                continue;
            }
            let lo = t0.max(gfrom);
            if lo >= t1 {
                continue;
            }
            rep.counters.add("c02_undelivered_time_checked_us", t1 - lo);
            for (ga, gb) in &gaps {
                let a = (*ga).max(lo);
                let b = (*gb).min(t1);
                if b > a && b - a > bound {
                    rep.violate(
                        P,
                        "wire-silent",
                        format!("silence{}", cause(wside, a)),
                        format!(
                            "no datagram in flight or being sent for {} us (bound {} us) from t={} us while {} accepted bytes were undelivered and the peer was reading greedily",
                            b - a,
                            bound,
                            a,
                            acc - rd
                        ),
                        Some(a),
                    );
                }
            }
        }
        // tail: after the last point, if undelivered bytes remain until end_time
        if let Some(&(t0, acc, rd)) = tl.points.last() {
            if acc > rd {
                let lo = t0.max(gfrom);
                for (ga, gb) in &gaps {
                    let a = (*ga).max(lo);
                    let b = (*gb).min(end_time);
                    if b > a && b - a > bound {
                        rep.violate(
                            P,
                            "wire-silent",
                            format!("silence{}", cause(wside, a)),
                            format!(
                                "no datagram in flight or being sent for {} us (bound {} us) from t={} us while {} accepted bytes were undelivered",
                                b - a, bound, a, acc - rd
                            ),
                            Some(a),
                        );
                    }
                }
            }
        }
    }
}

/// Promptness oracle (c): when shutdown is called and everything written before has been
/// acknowledged (idle connection), the FIN is on the wire within the same logical step.
/// Oracle (b): a write accepted while the connection is idle is on the wire in the same step.
/// "Idle" is decided from what the endpoint itself can know: every data packet it sent is
/// covered by an ACK it has *received*, nothing of the connection is in flight in either
/// direction, all bytes accepted before have been transmitted, and (for writes) the last window
/// it received is open.
pub fn check_idle_actions(rep: &mut CaseReport, events: &[Event], view: &WireView) {
    if view.conns.is_empty() {
        return;
    }
    let conn = &view.conns[0];
    // map send-event index -> packet
    let mut pkt_at: std::collections::BTreeMap<usize, usize> = std::collections::BTreeMap::new();
    let mut pkt_by_id: std::collections::BTreeMap<u64, usize> = std::collections::BTreeMap::new();
    for (k, p) in view.pkts.iter().enumerate() {
        if p.conn == Some(0) {
            pkt_at.insert(p.idx, k);
            pkt_by_id.insert(p.id, k);
        }
    }
    #[derive(Default)]
    struct Side {
        highest_data: Option<u16>,
        fin_sent: bool,
        sent_bytes: u64,
        seen: std::collections::BTreeSet<u16>,
        acked_upto: Option<u16>,
        last_wnd: Option<u32>,
        accepted: u64,
    }
    let mut st = [Side::default(), Side::default()];
    let mut outstanding: i64 = 0;
    let addr_side = |a: std::net::SocketAddr| if a == conn.initiator { 0usize } else { 1usize };
    for (i, e) in events.iter().enumerate() {
        match &e.ev {
            Ev::Send { fate, .. } => {
                if let Some(&k) = pkt_at.get(&i) {
                    let p = &view.pkts[k];
                    if let crate::events::Fate::Deliver(d) = fate {
                        outstanding += d.len() as i64;
                    }
                    let s = if p.from_initiator { 0 } else { 1 };
                    if let Some(pk) = &p.pkt {
                        if pk.ty == wire::ST_DATA {
                            st[s].highest_data = Some(match st[s].highest_data {
                                Some(h) if wire::seq_lt(pk.seq, h) => h,
                                _ => pk.seq,
                            });
                            if st[s].seen.insert(pk.seq) {
                                st[s].sent_bytes += pk.payload.len() as u64;
                            }
                        } else if pk.ty == wire::ST_FIN {
                            st[s].fin_sent = true;
                        }
                    }
                }
            }
            Ev::Recv { id, dst } => {
                if let Some(&k) = pkt_by_id.get(id) {
                    outstanding -= 1;
                    let p = &view.pkts[k];
                    let s = addr_side(*dst);
                    if let Some(pk) = &p.pkt {
                        if pk.ty != wire::ST_SYN {
                            st[s].acked_upto = Some(match st[s].acked_upto {
                                Some(h) if wire::seq_lt(pk.ack, h) => h,
                                _ => pk.ack,
                            });
                            st[s].last_wnd = Some(pk.wnd);
                        }
                    }
                }
            }
            Ev::Api { conn: 0, side, op } => {
                let s = *side as usize;
                let is_shutdown = matches!(op, ApiOp::ShutdownCall);
                let is_write = matches!(op, ApiOp::WriteRet(Ok(n)) if *n > 0);
                let acc_before = st[s].accepted;
                if let ApiOp::WriteRet(Ok(n)) = op {
                    st[s].accepted += *n as u64;
                }
                if !is_shutdown && !is_write {
                    continue;
                }
                let x = &st[s];
                if x.fin_sent || outstanding > 0 {
                    continue;
                }
                let all_acked = match (x.highest_data, x.acked_upto) {
                    (None, _) => true,
                    (Some(h), Some(a)) => wire::seq_le(h, a),
                    (Some(_), None) => false,
                };
                if !all_acked || x.sent_bytes < acc_before {
                    continue;
                }
                if is_write && x.last_wnd.unwrap_or(0) == 0 {
                    continue;
                }
                // the peer must not be in a closing state either (its FIN ends both directions)
                if st[1 - s].fin_sent {
                    continue;
                }
                let t = e.t;
                let want = if is_write { wire::ST_DATA } else { wire::ST_FIN };
                let mut found: Option<Us> = None;
                for (j, e2) in events.iter().enumerate().skip(i + 1) {
                    if e2.t > t + MS && found.is_none() && !is_shutdown {
                        break;
                    }
                    if let Some(&k) = pkt_at.get(&j) {
                        let p = &view.pkts[k];
                        let from_s = if p.from_initiator { 0 } else { 1 };
                        if from_s == s && matches!(&p.pkt, Some(pk) if pk.ty == want) {
                            found = Some(p.t);
                            break;
                        }
                    }
                    if e2.t > t + 120 * 1_000_000 {
                        break;
                    }
                }
                if is_write {
                    rep.counters.inc("c02_idle_writes_checked");
                    if !matches!(found, Some(ft) if ft <= t + MS) {
                        rep.violate(
                            P,
                            "idle-write-not-sent",
                            format!("side{s}"),
                            format!("write accepted at t={t} us on an idle connection but no ST_DATA was put on the wire in that step"),
                            Some(t),
                        );
                    }
                } else {
                    rep.counters.inc("c02_idle_shutdowns_checked");
                    if !matches!(found, Some(ft) if ft <= t + MS) {
                        rep.violate(
                            P,
                            "idle-shutdown-fin-late",
                            format!("side{s}"),
                            format!(
                                "shutdown called at t={t} us on an idle connection; FIN on the wire at {:?} us (expected in the same step)",
                                found
                            ),
                            Some(t),
                        );
                    }
                }
            }
            _ => {}
        }
    }
}

/// Promptness oracle (d): a reader with a pending read is woken in the step in which data
/// became in-order at its endpoint (RxData hook with advanced >= 1).
pub fn check_reader_wakeups(rep: &mut CaseReport, events: &[Event], addr_of_side: [std::net::SocketAddr; 2]) {
    use librqbit_utp::verif::VerifEvent as V;
    for side in 0..2u8 {
        let mut pending_since: Option<Us> = None;
        let mut owed: Option<Us> = None; // data became readable at this time while a read was pending
        for e in events {
            match &e.ev {
                Ev::Api { side: s, op, .. } if *s == side => match op {
                    ApiOp::ReadCall { .. } => {
                        pending_since = Some(e.t);
                    }
                    ApiOp::ReadRet(_) => {
                        if let Some(t0) = owed.take() {
                            rep.counters.inc("c02_reader_wakeups_checked");
                            if e.t > t0 + MS {
                                rep.violate(
                                    P,
                                    "reader-woken-late",
                                    format!("side{side}"),
                                    format!("data became in-order at t={t0} us with a read pending; the read returned at t={} us", e.t),
                                    Some(t0),
                                );
                            }
                        }
                        pending_since = None;
                    }
                    _ => {}
                },
                Ev::Hook(V::RxData { id, outcome, advanced, .. })
                    if id.local == addr_of_side[side as usize] && *outcome == "consumed" && *advanced >= 1 =>
                {
                    if pending_since.is_some() && owed.is_none() {
                        owed = Some(e.t);
                    }
                }
                _ => {}
            }
        }
        if let Some(t0) = owed {
            rep.violate(
                P,
                "reader-woken-late",
                format!("side{side}"),
                format!("data became in-order at t={t0} us with a read pending; the read never returned"),
                Some(t0),
            );
        }
        // End of stream is a condition change too: a read that is pending when the peer's FIN is
        // accepted (handed over in sequence: at or after the last payload became in-order) returns
        // in that step.
        let mut fin_dgrams: std::collections::BTreeSet<u64> = Default::default();
        let mut last_data: Us = 0;
        let mut fin_ready: Option<Us> = None;
        let mut pending_since: Option<Us> = None;
        for e in events {
            match &e.ev {
                Ev::Send { id, dst, pkt: Some(p), .. } if *dst == addr_of_side[side as usize] && p.ty == crate::wire::ST_FIN => {
                    fin_dgrams.insert(*id);
                }
                Ev::Hook(V::RxData { id, outcome, advanced, .. }) if id.local == addr_of_side[side as usize] && *outcome == "consumed" && *advanced >= 1 => {
                    last_data = e.t;
                    // a FIN seen before this payload was out of sequence and was dropped
                    fin_ready = None;
                }
                Ev::Recv { id, dst } if *dst == addr_of_side[side as usize] && fin_dgrams.contains(id) => {
                    if fin_ready.is_none() {
                        fin_ready = Some(e.t);
                    }
                }
                Ev::Api { side: s, op, .. } if *s == side => match op {
                    ApiOp::ReadCall { .. } => pending_since = Some(e.t),
                    ApiOp::ReadRet(r) => {
                        if let (Ok(0), Some(tp), Some(tf)) = (r, pending_since, fin_ready) {
                            // judged only when the read was already pending when the FIN came in,
                            // and nothing out of order was outstanding (the FIN was in sequence)
                            if tp <= tf && last_data <= tf {
                                rep.counters.inc("c02_eof_wakeups_checked");
                                if e.t > tf + MS {
                                    rep.violate(
                                        P,
                                        "reader-woken-late",
                                        format!("side{side} eof"),
                                        format!("the peer's FIN was handed over at t={tf} us with a read pending since {tp} us; end of stream was reported at t={} us", e.t),
                                        Some(tf),
                                    );
                                }
                            }
                        }
                        pending_since = None;
                    }
                    _ => {}
                },
                _ => {}
            }
        }
    }
}
