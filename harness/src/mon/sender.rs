//! Sender-side model reconstructed from the wire, used by the monitors of C05, C06, C14, C18,
//! C19: for every data packet the real endpoint emits, what it knew at that moment (the ACKs and
//! window it had been handed), what was outstanding, whether a loss episode was open.
use std::collections::{BTreeMap, BTreeSet};

use crate::{
    events::{Ev, Event, Us},
    view::WireView,
    wire,
};

#[derive(Clone, Debug)]
pub struct SendRec {
    pub ev_idx: usize,
    pub t: Us,
    /// index of the sequence number (0 = first data packet); for a FIN: its index
    pub idx: i64,
    pub seq: u16,
    pub is_fin: bool,
    pub len: usize,
    pub first_tx: bool,
    /// 1 for the first transmission, 2 for the first retransmission, ...
    pub nth_tx: u32,
    /// did the datagram leave the sender (as opposed to EMSGSIZE / pending)?
    pub left: bool,
    /// window of the last peer packet handed to the sender before this send (None: none yet)
    pub wnd_last: Option<u32>,
    /// largest window among the peer packets handed over at this same instant (batch allowance)
    pub wnd_batch_max: Option<u32>,
    /// bytes sent and not covered by any processed cumulative / selective ACK, after this send
    pub outstanding_after: u64,
    pub outstanding_before: u64,
    /// bytes cumulatively acknowledged (processed) so far
    pub acked_bytes: u64,
    /// proven segment size at that moment: max(protocol minimum, every payload size acknowledged
    /// to the sender or received by it)
    pub seg_size: usize,
    /// a loss episode is open (it starts at the first duplicate / selective ACK or retransmission
    /// and ends when an ACK covering everything sent before that point is processed)
    pub in_loss_episode: bool,
    /// a loss event has happened at some point before (or at) this send
    pub after_first_loss: bool,
    /// a peer packet was handed to the sender at this same instant, before this send
    pub stimulus_in_step: bool,
    /// neither a peer packet nor an application write at this instant: the send is timer-driven
    pub spontaneous: bool,
    /// bytes accepted by write() before this send
    pub accepted_bytes: u64,
    /// all data sequence numbers below this one had been transmitted before
    pub in_order: bool,
    /// the sequence number was already covered by a processed cumulative or selective ACK
    pub already_acked: bool,
    /// newest (highest) sequence number at the time of sending
    pub is_newest: bool,
    /// time of the previous transmission of the same sequence number
    pub prev_tx_t: Option<Us>,
    /// time the last ACK that advanced the cumulative acknowledgement was processed
    pub last_progress_t: Option<Us>,
    /// the sender's own recovery phase at the end of the poll that emitted this datagram (hooked
    /// snapshot; None when snapshots were not recorded). Incoming packets are processed before
    /// anything is sent in a poll, so this is the phase the datagram was sent in.
    pub sender_phase: Option<&'static str>,
}

#[derive(Clone, Debug)]
pub struct AckRec {
    pub ev_idx: usize,
    pub t: Us,
    pub ty: u8,
    pub ack_idx: i64,
    pub wnd: u32,
    pub sacked: Vec<i64>,
    pub has_sack_ext: bool,
    /// the cumulative acknowledgement advanced
    pub advanced: bool,
    /// same cumulative ACK as the highest seen, pure ST_STATE, same window as the previous ACK,
    /// while data was outstanding (what a sender counts as a duplicate ACK)
    pub is_dup: bool,
    pub plen: usize,
}

#[derive(Default)]
pub struct SenderModel {
    pub first_seq: u16,
    pub sends: Vec<SendRec>,
    pub acks: Vec<AckRec>,
    /// idx -> (offset, len as last transmitted)
    pub table: BTreeMap<i64, (u64, usize)>,
    pub fin_idx: Option<i64>,
    pub broken: Option<String>,
}

/// Build the model for the data the *real* endpoint at `real_is_initiator` sends on connection 0.
pub fn build(events: &[Event], view: &WireView, real_is_initiator: bool, min_seg: usize) -> Option<SenderModel> {
    let conn = view.conns.first()?;
    let first = conn.first_data_seq(real_is_initiator)?;
    let mut m = SenderModel {
        first_seq: first,
        ..Default::default()
    };
    // lookup: event index -> packet index for sends of the real endpoint, recv index -> packet for peer packets
    let mut my_send: BTreeMap<usize, usize> = BTreeMap::new();
    for &pi in conn.dir(real_is_initiator) {
        my_send.insert(view.pkts[pi].idx, pi);
    }
    let mut peer_recv: BTreeMap<usize, usize> = BTreeMap::new();
    for &pi in conn.dir(!real_is_initiator) {
        if let Some((_, ri)) = view.pkts[pi].recvs.first() {
            peer_recv.insert(*ri, pi);
        }
    }
    let idx_of = |seq: u16| wire::seq_diff(seq, first) as i64;
    let mut max_idx: i64 = -1;
    let mut cum_acked: i64 = -1;
    let mut sacked: BTreeSet<i64> = BTreeSet::new();
    let mut tx_count: BTreeMap<i64, (u32, Us)> = BTreeMap::new();
    let mut last_wnd: Option<u32> = None;
    let mut batch: (Us, Option<u32>) = (0, None);
    let mut last_stim_t: Option<Us> = None;
    let mut last_write_t: Option<Us> = None;
    let mut seg_size = min_seg;
    let mut loss_episode_until: Option<i64> = None; // episode ends when cum_acked >= this
    let mut after_first_loss = false;
    let mut accepted: u64 = 0;
    let mut last_ack_wnd: Option<(i64, u32)> = None;
    let mut last_progress_t: Option<Us> = None;
    let outstanding = |table: &BTreeMap<i64, (u64, usize)>, cum: i64, sacked: &BTreeSet<i64>, upto: i64| -> u64 {
        if upto < cum + 1 {
            return 0;
        }
        table
            .range(cum + 1..=upto)
            .filter(|(i, _)| !sacked.contains(i))
            .map(|(_, (_, l))| *l as u64)
            .sum()
    };
    // index of the latest "retransmission timer found expired" hook event not yet used up by a send
    let mut timer_fired: Option<usize> = None;
    for (i, e) in events.iter().enumerate() {
        if let Ev::Hook(librqbit_utp::verif::VerifEvent::RetransmitTimerExpired { .. }) = &e.ev {
            timer_fired = Some(i);
            continue;
        }
        if let Ev::Api { conn: 0, side: 0, op } = &e.ev {
            match op {
                crate::events::ApiOp::WriteRet(Ok(n)) => {
                    accepted += *n as u64;
                    last_write_t = Some(e.t);
                }
                crate::events::ApiOp::ShutdownCall | crate::events::ApiOp::DropWriter | crate::events::ApiOp::DropReader => {
                    last_write_t = Some(e.t);
                }
                _ => {}
            }
            continue;
        }
        if let Some(&pi) = peer_recv.get(&i) {
            let p = &view.pkts[pi];
            let pk = match &p.pkt {
                Some(k) => k,
                None => continue,
            };
            if pk.ty == wire::ST_SYN {
                continue;
            }
            let a = idx_of(pk.ack);
            let advanced = a > cum_acked && a <= max_idx.max(m.fin_idx.unwrap_or(-1));
            let had_outstanding = outstanding(&m.table, cum_acked, &sacked, max_idx) > 0;
            let is_dup = !advanced
                && a == cum_acked
                && pk.ty == wire::ST_STATE
                && had_outstanding
                && matches!(last_ack_wnd, Some((la, lw)) if la == a && lw == pk.wnd);
            let mut s_list = Vec::new();
            for s in pk.sacked_seqs(64) {
                let si = idx_of(s);
                if si > a && si <= max_idx {
                    s_list.push(si);
                }
            }
            if advanced {
                // payload sizes acknowledged raise the proven segment size
                for (_, (_, l)) in m.table.range(cum_acked + 1..=a) {
                    seg_size = seg_size.max(*l);
                }
                cum_acked = a;
                sacked.retain(|x| *x > a);
                last_progress_t = Some(e.t);
            }
            for si in &s_list {
                if let Some((_, l)) = m.table.get(si) {
                    seg_size = seg_size.max(*l);
                }
                sacked.insert(*si);
            }
            if !pk.payload.is_empty() {
                seg_size = seg_size.max(pk.payload.len());
            }
            // loss events as the sender sees them
            // an episode ends when everything sent before it began is acknowledged ...
            if let Some(u) = loss_episode_until {
                if cum_acked >= u {
                    loss_episode_until = None;
                }
            }
            // ... and the same packet can open the next one (it reports a new hole)
            if (is_dup || pk.sack().is_some()) && had_outstanding {
                // a possible loss episode for the window rule (recovery may transmit on its own
                // accounting); a loss *event* is only what the sender acts on: a retransmission
                // (the sender may enter recovery at any of these packets, with everything sent so
                // far as its recovery point: the episode lasts until the newest of them is covered)
                if max_idx > cum_acked {
                    loss_episode_until = Some(loss_episode_until.map(|u| u.max(max_idx)).unwrap_or(max_idx));
                }
            }
            // the SYN-ACK is consumed by the socket, not by the connection: it is no reference
            // for duplicate counting
            let is_synack = real_is_initiator && m.acks.is_empty() && pk.ty == wire::ST_STATE;
            if !is_synack {
                last_ack_wnd = Some((a, pk.wnd));
            }
            last_wnd = Some(pk.wnd);
            if batch.0 == e.t {
                batch.1 = Some(batch.1.map_or(pk.wnd, |b: u32| b.max(pk.wnd)));
            } else {
                batch = (e.t, Some(pk.wnd));
            }
            last_stim_t = Some(e.t);
            m.acks.push(AckRec {
                ev_idx: i,
                t: e.t,
                ty: pk.ty,
                ack_idx: a,
                wnd: pk.wnd,
                sacked: s_list,
                has_sack_ext: pk.sack().is_some(),
                advanced,
                is_dup,
                plen: pk.payload.len(),
            });
            continue;
        }
        if let Some(&pi) = my_send.get(&i) {
            let p = &view.pkts[pi];
            if p.scripted {
                continue;
            }
            let pk = match &p.pkt {
                Some(k) => k,
                None => continue,
            };
            if pk.ty != wire::ST_DATA && pk.ty != wire::ST_FIN {
                continue;
            }
            let idx = idx_of(pk.seq);
            let is_fin = pk.ty == wire::ST_FIN;
            if is_fin {
                if m.fin_idx.is_none() {
                    m.fin_idx = Some(idx);
                }
            } else if let Some(f) = m.fin_idx {
                if idx >= f {
                    // data at or beyond the endpoint's own FIN is not part of the stream any more
                    continue;
                }
            }
            let (mut n_before, prev_t) = tx_count.get(&idx).map(|(n, t)| (*n, Some(*t))).unwrap_or((0, None));
            let first_tx = n_before == 0;
            let mut recut_reset = false;
            let before = outstanding(&m.table, cum_acked, &sacked, max_idx);
            let in_order = is_fin || idx <= max_idx + 1;
            if !is_fin {
                if first_tx {
                    if idx != max_idx + 1 {
                        m.broken.get_or_insert(format!("first transmission of index {idx} after highest {max_idx}"));
                    }
                    let off = if idx <= 0 {
                        0
                    } else {
                        m.table.get(&(idx - 1)).map(|(o, l)| o + *l as u64).unwrap_or(0)
                    };
                    m.table.insert(idx, (off, pk.payload.len()));
                    if idx > max_idx {
                        max_idx = idx;
                    }
                } else if let Some(e2) = m.table.get_mut(&idx) {
                    // a re-cut probe changes the length of the newest segment: it is a new segment
                    // under the old sequence number, its transmission count starts again
                    if e2.1 != pk.payload.len() {
                        e2.1 = pk.payload.len();
                        recut_reset = true;
                    }
                }
            }
            if recut_reset {
                n_before = 0;
            }
            let already_acked = idx <= cum_acked || sacked.contains(&idx);
            // Timer-driven: the send path found the retransmission timer expired in this poll, and
            // this is the datagram it emitted for it (the timeout path sends exactly one). Exact,
            // from the hook - a packet or a write at the same instant does not blur it.
            let _ = (last_stim_t, last_write_t);
            let spontaneous = match timer_fired {
                Some(ti) if events[ti].t == e.t && !is_fin => {
                    timer_fired = None;
                    true
                }
                Some(ti) if events[ti].t == e.t => {
                    timer_fired = None;
                    true
                }
                _ => false,
            };
            if spontaneous && !is_fin {
                // a data packet sent on a timer is the timeout path: a loss event for the sender
                after_first_loss = true;
            }
            if !first_tx && !already_acked {
                // a retransmission is a loss event
                after_first_loss = true;
                if loss_episode_until.is_none() {
                    loss_episode_until = Some(max_idx);
                }
            }
            if p.left_sender() {
                tx_count.insert(idx, (n_before + 1, e.t));
            }
            let after = outstanding(&m.table, cum_acked, &sacked, max_idx);
            let acked_bytes = if cum_acked < 0 {
                0
            } else {
                m.table.get(&cum_acked).map(|(o, l)| o + *l as u64).unwrap_or(0)
            };
            m.sends.push(SendRec {
                ev_idx: i,
                t: e.t,
                idx,
                seq: pk.seq,
                is_fin,
                len: pk.payload.len(),
                first_tx,
                nth_tx: n_before + 1,
                left: p.left_sender(),
                wnd_last: last_wnd,
                wnd_batch_max: if batch.0 == e.t { batch.1 } else { last_wnd },
                outstanding_after: after,
                outstanding_before: before,
                acked_bytes,
                seg_size,
                in_loss_episode: loss_episode_until.is_some(),
                after_first_loss,
                stimulus_in_step: last_stim_t == Some(e.t),
                spontaneous,
                accepted_bytes: accepted,
                in_order,
                already_acked,
                is_newest: idx >= max_idx,
                prev_tx_t: prev_t,
                last_progress_t,
                sender_phase: None,
            });
        }
    }
    // the recovery phase at the end of the emitting poll, where snapshots were recorded
    let local = view.conns.first().and_then(|c| c.dir(real_is_initiator).first().map(|pi| view.pkts[*pi].src));
    if let Some(local) = local {
        let ends: Vec<(usize, Us, &'static str)> = events
            .iter()
            .enumerate()
            .filter_map(|(i, e)| match &e.ev {
                Ev::Hook(librqbit_utp::verif::VerifEvent::PollEnd { id, snap, .. }) if id.local == local => Some((i, e.t, snap.recovery)),
                _ => None,
            })
            .collect();
        if !ends.is_empty() {
            for s in m.sends.iter_mut() {
                let k = ends.partition_point(|(i, _, _)| *i < s.ev_idx);
                if let Some((_, t, ph)) = ends.get(k) {
                    if *t == s.t {
                        s.sender_phase = Some(*ph);
                    }
                }
            }
        }
    }
    Some(m)
}
