//! C10: arbitrary datagrams never crash, wedge or cross-contaminate the socket.
//!
//! Oracles over one hostile `multi` case (attacker aims at connection 0's identifiers and sprays
//! malformed / foreign datagrams at every socket):
//!  * panic        - no task panicked;
//!  * bug-error    - no connection ended with, no API call returned and no WARN line carried one
//!                   of the library's internal "bug" errors;
//!  * bystander    - every other connection keeps its byte stream intact (C12 content/demux
//!                   rules) and, on a loss-free network, completes;
//!  * service      - connects issued after the attack are accepted and carry their streams;
//!  * bounded      - what a connection buffers (user queue, reassembly slots, TX ring, segment
//!                   list, inbound channel) stays within its configured sizes (hooked snapshots).
use std::{collections::BTreeMap, net::SocketAddr};

use librqbit_utp::verif::VerifEvent as V;

use crate::{
    events::{ApiOp, Ev, Event},
    sim::SockCfg,
    verdict::CaseReport,
};

const P: &str = "C10";
/// The dispatcher reads datagrams into a 16 KiB buffer: no payload can be larger.
pub const MAX_DATAGRAM: usize = 16384;

fn normalise(msg: &str) -> String {
    // strip numbers so that one defect has one signature
    let mut out = String::new();
    let mut last_digit = false;
    for ch in msg.chars() {
        if ch.is_ascii_digit() {
            if !last_digit {
                out.push('N');
            }
            last_digit = true;
        } else {
            out.push(ch);
            last_digit = false;
        }
    }
    out.chars().take(160).collect()
}

fn is_bug(msg: &str) -> bool {
    let m = msg.to_ascii_lowercase();
    m.contains("bug:") || m.contains("bug in ") || m.contains("unreachable")
}

/// Panics and internal-bug errors anywhere in the log. Usable by any family.
pub fn check_no_panic_no_bug(rep: &mut CaseReport, events: &[Event], panicked: &Option<String>) {
    if let Some(p) = panicked {
        rep.violate(P, "panic", normalise(p), format!("the run panicked: {p}"), None);
    }
    for e in events {
        match &e.ev {
            Ev::Panic(p) => rep.violate(P, "panic", normalise(p), format!("a task panicked: {p}"), Some(e.t)),
            Ev::Hook(V::Death { id, error: Some(err) }) if is_bug(err) => {
                rep.violate(P, "bug-error", normalise(err), format!("connection {}<-{} (recv id {}) ended with: {err}", id.local, id.remote, id.conn_id_recv), Some(e.t));
            }
            Ev::Warn(w) if is_bug(w) => rep.violate(P, "bug-error", normalise(w), format!("WARN line: {w}"), Some(e.t)),
            Ev::Api { conn, side, op } => {
                let err = match op {
                    ApiOp::ConnectRet(Err(e)) | ApiOp::WriteRet(Err(e)) | ApiOp::ReadRet(Err(e)) | ApiOp::FlushRet(Err(e)) | ApiOp::ShutdownRet(Err(e)) => Some(e),
                    ApiOp::AcceptRet(Err(e)) => Some(e),
                    _ => None,
                };
                if let Some(err) = err {
                    if is_bug(err) {
                        rep.violate(P, "bug-error", normalise(err), format!("conn {conn} side {side}: API call returned: {err}"), Some(e.t));
                    }
                }
            }
            _ => {}
        }
    }
    rep.counters.inc("c10_logs_scanned_for_panic_and_bug");
}

/// Buffer bounds from hooked snapshots.
pub fn check_bounded(rep: &mut CaseReport, events: &[Event], cfgs: &BTreeMap<SocketAddr, SockCfg>) {
    let mut polls = 0u64;
    for e in events {
        let (id, snap) = match &e.ev {
            Ev::Hook(V::PollEnd { id, snap, .. }) | Ev::Hook(V::PollStart { id, snap }) => (id, snap),
            _ => continue,
        };
        polls += 1;
        let cfg = match cfgs.get(&id.local) {
            Some(c) => c,
            None => continue,
        };
        let rx_buf = cfg.rx_buf.unwrap_or(1024 * 1024);
        let tx_max = cfg.tx_buf_max.unwrap_or(1024 * 1024).max(cfg.tx_buf_initial.unwrap_or(32 * 1024));
        let who = format!("{}<-{} recv id {}", id.local, id.remote, id.conn_id_recv);
        rep.counters.max("max_c10_user_rx_queue_bytes", snap.rx.queue_len_bytes as u64);
        rep.counters.max("max_c10_reassembly_bytes", snap.rx.ooq_len_bytes as u64);
        rep.counters.max("max_c10_inbound_channel_len", snap.inbound_channel_len as u64);
        // "configured sizes times the maximum datagram size": the queue is limited in bytes while it
        // fills; when the connection ends, what the reassembly slots hold in order is moved over
        // regardless (it was acknowledged), so the slots' worst case is part of the bound
        if snap.rx.queue_len_bytes > rx_buf + (snap.rx.ooq_capacity + 1) * MAX_DATAGRAM {
            rep.violate(P, "bounded", "user receive queue beyond the receive buffer size plus slots x maximum datagram size", format!("{who}: {} bytes queued, rx buffer {rx_buf}, {} slots", snap.rx.queue_len_bytes, snap.rx.ooq_capacity), Some(e.t));
        }
        if snap.rx.ooq_len > snap.rx.ooq_capacity {
            rep.violate(P, "bounded", "more reassembly slots in use than the queue has", format!("{who}: {} of {}", snap.rx.ooq_len, snap.rx.ooq_capacity), Some(e.t));
        }
        if snap.rx.ooq_len_bytes > snap.rx.ooq_capacity * MAX_DATAGRAM {
            rep.violate(P, "bounded", "reassembly queue holds more than slots x maximum datagram size", format!("{who}: {} bytes in {} slots", snap.rx.ooq_len_bytes, snap.rx.ooq_capacity), Some(e.t));
        }
        if snap.rx.ooq_capacity > rx_buf + 1 {
            rep.violate(P, "bounded", "reassembly queue capacity beyond the receive buffer size", format!("{who}: capacity {} slots, rx buffer {rx_buf}", snap.rx.ooq_capacity), Some(e.t));
        }
        if snap.tx.ring_len > snap.tx.ring_capacity || snap.tx.ring_capacity > tx_max {
            rep.violate(P, "bounded", "TX ring beyond its configured maximum", format!("{who}: len {} capacity {} max {tx_max}", snap.tx.ring_len, snap.tx.ring_capacity), Some(e.t));
        }
        if snap.segments.count > snap.tx.ring_len + 1 || snap.segments.len_bytes > snap.tx.ring_len {
            rep.violate(P, "bounded", "more segments / segmented bytes than bytes in the TX ring", format!("{who}: {} segments {} bytes, ring {}", snap.segments.count, snap.segments.len_bytes, snap.tx.ring_len), Some(e.t));
        }
        // the inbound channel is drained at every poll: at the end of a poll that did not stop
        // early it holds nothing; in general it cannot hold more than was sent to the socket
        if let Ev::Hook(V::PollEnd { .. }) = &e.ev {
            if snap.inbound_channel_len > 4096 {
                rep.violate(P, "bounded", "inbound channel keeps growing", format!("{who}: {} messages queued at the end of a poll", snap.inbound_channel_len), Some(e.t));
            }
        }
    }
    rep.counters.add("c10_snapshots_checked_for_bounds", polls);
}
