//! C03 honest completion.
//!
//! (1) a flush/shutdown that returned Ok covers bytes that were all acknowledged to that
//!     endpoint before the return (wire), and - when the network is cut at that very instant -
//!     a peer application that keeps reading still obtains every one of those bytes;
//! (2) a reader that sees Ok(0) has read exactly the bytes of all sequence numbers below the
//!     peer's FIN, and everything the peer's writer accepted if the peer's shutdown returned Ok;
//! (3) once a connection task has ended, pending stream operations complete in the same logical
//!     step, later ones return immediately, and none reports success except reads of buffered
//!     bytes / a true EOF, and flush/shutdown when nothing unacknowledged remains;
//! (4) when the peer vanishes with data outstanding the local task ends within the inactivity
//!     limit (+ slack) after the peer was last heard.
use std::net::SocketAddr;

use librqbit_utp::verif::VerifEvent as V;

use crate::{
    events::{ApiOp, Ev, Event, Us, MS, SEC},
    verdict::CaseReport,
    view::{dir_table, DirTable, WireView},
    wire,
};

pub const P: &str = "C03";

pub struct Ctx<'a> {
    pub events: &'a [Event],
    pub view: &'a WireView,
    pub addr: [SocketAddr; 2],
    pub tables: [DirTable; 2],
    /// known cause of stream corruption in direction w (see C01): oracles comparing byte counts
    /// attribute their failure to it
    pub corrupt_cause: [&'static str; 2],
}

impl<'a> Ctx<'a> {
    pub fn new(events: &'a [Event], view: &'a WireView, addr: [SocketAddr; 2]) -> Option<Ctx<'a>> {
        if view.conns.is_empty() {
            return None;
        }
        Some(Ctx {
            events,
            view,
            addr,
            tables: [dir_table(view, 0, true), dir_table(view, 0, false)],
            corrupt_cause: ["", ""],
        })
    }
}

/// Oracle (1), wire part, and the bookkeeping for the cut part.
/// Returns, per side, the number of bytes covered by the latest successful flush/shutdown.
pub fn check_ok_means_acked(rep: &mut CaseReport, c: &Ctx) -> [u64; 2] {
    let conn = &c.view.conns[0];
    let mut covered = [0u64; 2];
    for side in 0..2usize {
        let from_init = side == 0;
        let table = &c.tables[side];
        if table.broken {
            continue;
        }
        // time-ordered: acks received by this side (from the peer's packets)
        let mut acked_bytes: u64 = 0;
        let mut accepted: u64 = 0;
        let mut pending_call: Option<(u64, &'static str)> = None;
        let mut recv_of: std::collections::BTreeMap<usize, usize> = std::collections::BTreeMap::new();
        for &pi in conn.dir(!from_init) {
            for (_, ri) in &c.view.pkts[pi].recvs {
                recv_of.insert(*ri, pi);
            }
        }
        for (i, e) in c.events.iter().enumerate() {
            if let Some(pi) = recv_of.get(&i) {
                if let Some(pk) = &c.view.pkts[*pi].pkt {
                    if pk.ty != wire::ST_SYN {
                        let b = table.bytes_acked_by(pk.ack);
                        if b > acked_bytes {
                            acked_bytes = b;
                        }
                        // selectively acknowledged bytes do not count: only a contiguous prefix
                        // can be removed from the transmit buffer
                    }
                }
                continue;
            }
            if let Ev::Api { conn: 0, side: s, op } = &e.ev {
                if *s as usize != side {
                    continue;
                }
                match op {
                    ApiOp::WriteRet(Ok(n)) => accepted += *n as u64,
                    ApiOp::FlushCall => pending_call = Some((accepted, "flush")),
                    ApiOp::ShutdownCall => pending_call = Some((accepted, "shutdown")),
                    ApiOp::FlushRet(Ok(())) | ApiOp::ShutdownRet(Ok(())) => {
                        if let Some((acc, what)) = pending_call.take() {
                            rep.counters.inc("c03_ok_returns_checked");
                            covered[side] = covered[side].max(acc);
                            if acked_bytes < acc && !table.recut {
                                rep.violate(
                                    P,
                                    "ok-before-acked",
                                    format!("{what}"),
                                    format!(
                                        "side {side}: {what} returned Ok covering {acc} accepted bytes, but the acknowledgements it had received cover only {acked_bytes}"
                                    ),
                                    Some(e.t),
                                );
                            }
                        }
                    }
                    ApiOp::FlushRet(Err(_)) | ApiOp::ShutdownRet(Err(_)) => {
                        pending_call = None;
                    }
                    _ => {}
                }
            }
        }
    }
    covered
}

/// Oracle (1), delivery part, any network: what a successful flush / shutdown covered reaches a
/// peer application that reads until its stream ends (end of stream or error), whatever the
/// network did. Not judged when the reader's own side was aborted by its application.
pub fn check_ok_bytes_delivered(rep: &mut CaseReport, c: &Ctx, covered: [u64; 2], reader_keeps_reading: [bool; 2]) {
    for side in 0..2usize {
        let rside = 1 - side;
        if covered[side] == 0 || !reader_keeps_reading[rside] {
            continue;
        }
        let mut read = 0u64;
        let mut ended: Option<(Us, String)> = None;
        for e in c.events {
            if let Ev::Api { conn: 0, side: s, op } = &e.ev {
                if *s as usize != rside {
                    continue;
                }
                match op {
                    ApiOp::ReadRet(Ok(0)) => ended = ended.or(Some((e.t, "end of stream".into()))),
                    ApiOp::ReadRet(Ok(n)) => read += *n as u64,
                    ApiOp::ReadRet(Err(err)) => ended = ended.or(Some((e.t, format!("error: {err}")))),
                    _ => {}
                }
            }
        }
        let (t_end, how) = match ended {
            Some(x) => x,
            None => continue,
        };
        rep.counters.inc("c03_ok_coverage_vs_peer_reads_checked");
        if read < covered[side] {
            let cause = c.corrupt_cause[side];
            rep.violate(
                P,
                "ok-bytes-not-delivered",
                format!("general{cause}"),
                format!(
                    "side {side} was told Ok (flush/shutdown) for {} bytes; the peer application read until its stream ended ({how}) and got only {read}",
                    covered[side]
                ),
                Some(t_end),
            );
        }
    }
}

/// Oracle (1), cut part: the network was cut when side `side` got Ok; the peer keeps reading.
pub fn check_cut_delivery(rep: &mut CaseReport, c: &Ctx, side: usize, covered: u64, peer_read: u64, peer_end: &str) {
    rep.counters.inc("c03_cut_cases_checked");
    if peer_read < covered {
        let cause = c.corrupt_cause[side];
        rep.violate(
            P,
            "acked-bytes-not-delivered",
            format!("cut-at-ok{cause}"),
            format!(
                "side {side} was told Ok for {covered} bytes and the network was cut at that instant; the peer application, which kept reading, got only {peer_read} bytes before {peer_end}"
            ),
            None,
        );
    }
}

/// Oracle (2).
pub fn check_eof(rep: &mut CaseReport, c: &Ctx) {
    for rside in 0..2usize {
        let wside = 1 - rside;
        let table = &c.tables[wside];
        let mut read: u64 = 0;
        let mut w_accepted: u64 = 0;
        let mut w_shutdown_ok_at: Option<Us> = None;
        let mut w_acc_at_shutdown_call: u64 = 0;
        for e in c.events {
            if let Ev::Api { conn: 0, side, op } = &e.ev {
                let s = *side as usize;
                match op {
                    ApiOp::WriteRet(Ok(n)) if s == wside => w_accepted += *n as u64,
                    ApiOp::ShutdownCall if s == wside => w_acc_at_shutdown_call = w_accepted,
                    ApiOp::ShutdownRet(Ok(())) if s == wside => w_shutdown_ok_at = Some(e.t),
                    ApiOp::ReadRet(Ok(n)) if s == rside && *n > 0 => read += *n as u64,
                    ApiOp::ReadRet(Ok(0)) if s == rside => {
                        rep.counters.inc("c03_eofs_checked");
                        let cause = c.corrupt_cause[wside];
                        if table.fin_idx.is_none() {
                            rep.violate(
                                P,
                                "eof-without-fin",
                                "eof".to_string(),
                                format!("side {rside} read EOF after {read} bytes but the peer never emitted a FIN"),
                                Some(e.t),
                            );
                        } else if !table.broken && !table.recut && read != table.bytes_below_fin() {
                            rep.violate(
                                P,
                                "eof-misplaced",
                                format!("eof{cause}"),
                                format!(
                                    "side {rside} read EOF after {read} bytes, but the sequence numbers below the peer's FIN carry {} bytes",
                                    table.bytes_below_fin()
                                ),
                                Some(e.t),
                            );
                        }
                        break;
                    }
                    _ => {}
                }
            }
        }
        // the writer was told its shutdown succeeded, the reader saw a clean EOF: nothing may be missing
        let eof_seen = c.events.iter().any(|e| matches!(&e.ev, Ev::Api { conn: 0, side, op: ApiOp::ReadRet(Ok(0)) } if *side as usize == rside));
        if eof_seen && w_shutdown_ok_at.is_some() {
            rep.counters.inc("c03_eof_vs_shutdown_ok_checked");
            if read != w_acc_at_shutdown_call {
                let cause = c.corrupt_cause[wside];
                rep.violate(
                    P,
                    "silent-truncation",
                    format!("eof-vs-shutdown-ok{cause}"),
                    format!(
                        "side {wside}'s shutdown returned Ok after {w_acc_at_shutdown_call} accepted bytes; side {rside} read {read} bytes and then a clean EOF"
                    ),
                    None,
                );
            }
        }
    }
}

/// Oracle (3).
pub fn check_after_death(rep: &mut CaseReport, c: &Ctx) {
    let conn = &c.view.conns[0];
    for side in 0..2usize {
        let from_init = side == 0;
        // first death of this side's connection
        // (a cancelled task ends without running its death path: its drop is the end)
        let death = c.events.iter().enumerate().find_map(|(i, e)| match &e.ev {
            Ev::Hook(V::Death { id, error }) if id.local == c.addr[side] => Some((i, e.t, error.clone())),
            Ev::Hook(V::VsockDropped { id, .. }) if id.local == c.addr[side] => {
                Some((i, e.t, Some("connection object dropped".to_string())))
            }
            _ => None,
        });
        let (di, dt, derr) = match death {
            Some(x) => x,
            None => continue,
        };
        rep.counters.inc("c03_deaths_checked");
        // what had been acknowledged / received before the death
        let table = &c.tables[side];
        let mut acked_bytes = 0u64;
        let mut peer_fin_received = false;
        for &pi in conn.dir(!from_init) {
            let p = &c.view.pkts[pi];
            if let Some(pk) = &p.pkt {
                if p.recvs.iter().any(|(_, ri)| *ri < di) {
                    if pk.ty != wire::ST_SYN {
                        acked_bytes = acked_bytes.max(table.bytes_acked_by(pk.ack));
                    }
                    if pk.ty == wire::ST_FIN {
                        peer_fin_received = true;
                    }
                }
            }
        }
        let mut accepted = 0u64;
        let mut open_call: Option<(&'static str, Us, usize)> = None;
        for (i, e) in c.events.iter().enumerate() {
            let op = match &e.ev {
                Ev::Api { conn: 0, side: s, op } if *s as usize == side => op,
                Ev::Note(n) if n == "teardown" => break,
                _ => continue,
            };
            let call = match op {
                ApiOp::WriteCall { .. } => Some("write"),
                ApiOp::ReadCall { .. } => Some("read"),
                ApiOp::FlushCall => Some("flush"),
                ApiOp::ShutdownCall => Some("shutdown"),
                _ => None,
            };
            if let Some(k) = call {
                // one reader and one writer driver per side: track them separately
                if k == "read" {
                    // handled through its own return below
                }
                open_call = Some((k, e.t, i));
                if i > di {
                    // a call made after the death: its return is checked below
                }
                continue;
            }
            let (kind, ok): (&str, Option<bool>) = match op {
                ApiOp::WriteRet(r) => {
                    if let Ok(n) = r {
                        if i < di {
                            accepted += *n as u64;
                        }
                    }
                    ("write", Some(r.is_ok()))
                }
                ApiOp::ReadRet(r) => ("read", Some(r.is_ok())),
                ApiOp::FlushRet(r) => ("flush", Some(r.is_ok())),
                ApiOp::ShutdownRet(r) => ("shutdown", Some(r.is_ok())),
                _ => ("", None),
            };
            if ok.is_none() || i < di {
                continue;
            }
            // a return after the death
            let (call_t, call_i) = c.events[..i]
                .iter()
                .enumerate()
                .rev()
                .find_map(|(j, e2)| match &e2.ev {
                    Ev::Api { conn: 0, side: s, op: o2 } if *s as usize == side => {
                        let m = match (kind, o2) {
                            ("write", ApiOp::WriteCall { .. }) => true,
                            ("read", ApiOp::ReadCall { .. }) => true,
                            ("flush", ApiOp::FlushCall) => true,
                            ("shutdown", ApiOp::ShutdownCall) => true,
                            _ => false,
                        };
                        if m {
                            Some((e2.t, j))
                        } else {
                            None
                        }
                    }
                    _ => None,
                })
                .unwrap_or((e.t, i));
            rep.counters.inc("c03_returns_after_death_checked");
            let deadline = if call_i < di { dt } else { call_t };
            if e.t > deadline + MS {
                rep.violate(
                    P,
                    "return-late-after-death",
                    format!("{kind}"),
                    format!(
                        "side {side}: connection ended at t={dt} us ({:?}); a {kind} {} returned only at t={} us",
                        derr,
                        if call_i < di { "pending at that moment" } else { "issued afterwards" },
                        e.t
                    ),
                    Some(e.t),
                );
            }
            // success after the end
            match op {
                ApiOp::WriteRet(Ok(n)) if *n > 0 && call_i > di => {
                    rep.violate(
                        P,
                        "success-after-death",
                        "write".to_string(),
                        format!("side {side}: write accepted {n} bytes after the connection had ended at t={dt} us ({:?})", derr),
                        Some(e.t),
                    );
                }
                ApiOp::ReadRet(Ok(0)) => {
                    if !peer_fin_received {
                        rep.violate(
                            P,
                            "success-after-death",
                            "read-eof".to_string(),
                            format!("side {side}: read returned a clean EOF after the connection ended ({:?}) although no FIN of the peer had been received", derr),
                            Some(e.t),
                        );
                    }
                }
                ApiOp::FlushRet(Ok(())) | ApiOp::ShutdownRet(Ok(())) => {
                    if acked_bytes < accepted && !table.recut && !table.broken {
                        rep.violate(
                            P,
                            "success-after-death",
                            format!("{kind}"),
                            format!(
                                "side {side}: {kind} returned Ok after the connection ended ({:?}) with {accepted} bytes accepted but only {acked_bytes} acknowledged",
                                derr
                            ),
                            Some(e.t),
                        );
                    }
                }
                _ => {}
            }
        }
        let _ = open_call;
        // operations still pending at the end of the run although the connection ended
        let mut pend: std::collections::BTreeMap<&'static str, (Us, usize)> = Default::default();
        let mut end_t = dt;
        for (i, e) in c.events.iter().enumerate() {
            match &e.ev {
                Ev::Note(n) if n == "teardown" => {
                    end_t = e.t;
                    break;
                }
                Ev::Api { conn: 0, side: s, op } if *s as usize == side => match op {
                    ApiOp::WriteCall { .. } => {
                        pend.insert("write", (e.t, i));
                    }
                    ApiOp::ReadCall { .. } => {
                        pend.insert("read", (e.t, i));
                    }
                    ApiOp::FlushCall => {
                        pend.insert("flush", (e.t, i));
                    }
                    ApiOp::ShutdownCall => {
                        pend.insert("shutdown", (e.t, i));
                    }
                    ApiOp::WriteRet(_) => {
                        pend.remove("write");
                    }
                    ApiOp::ReadRet(_) => {
                        pend.remove("read");
                    }
                    ApiOp::FlushRet(_) => {
                        pend.remove("flush");
                    }
                    ApiOp::ShutdownRet(_) => {
                        pend.remove("shutdown");
                    }
                    _ => {}
                },
                _ => {}
            }
        }
        if end_t > dt + MS {
            for (k, (t0, _)) in pend {
                rep.violate(
                    P,
                    "pending-forever-after-death",
                    k.to_string(),
                    format!("side {side}: the connection ended at t={dt} us ({:?}) but a {k} issued at t={t0} us was still pending at t={end_t} us", derr),
                    Some(dt),
                );
            }
        }
    }
}

/// Oracle (4): the peer of side `side` vanished at `t_vanish` while `side` had unacknowledged
/// data; its connection task must end within the inactivity limit + slack.
pub fn check_vanish(rep: &mut CaseReport, c: &Ctx, side: usize, t_vanish: Us, inactivity: Us, end_time: Us) {
    let conn = &c.view.conns[0];
    let from_init = side == 0;
    // last datagram from the peer handed to this side
    let mut last_rx = 0;
    for &pi in conn.dir(!from_init) {
        if let Some((t, _)) = c.view.pkts[pi].recvs.last() {
            last_rx = last_rx.max(*t);
        }
    }
    // did this side have data outstanding (sent, unacknowledged) when the peer vanished?
    let table = &c.tables[side];
    let mut acked = 0u64;
    for &pi in conn.dir(!from_init) {
        let p = &c.view.pkts[pi];
        if let (Some(pk), true) = (&p.pkt, !p.recvs.is_empty()) {
            if pk.ty != wire::ST_SYN {
                acked = acked.max(table.bytes_acked_by(pk.ack));
            }
        }
    }
    let mut sent = 0u64;
    let mut first_unacked_send: Option<Us> = None;
    for &pi in conn.dir(from_init) {
        let p = &c.view.pkts[pi];
        if let Some(pk) = &p.pkt {
            if pk.ty == wire::ST_DATA && p.left_sender() {
                let idx = table.idx_of(pk.seq);
                if let Some((off, len)) = table.entries.get(&idx) {
                    let end = off + *len as u64;
                    sent = sent.max(end);
                    if end > acked && first_unacked_send.is_none() {
                        first_unacked_send = Some(p.t);
                    }
                }
            }
        }
    }
    if sent <= acked || table.broken {
        rep.counters.inc("c03_vanish_nothing_outstanding");
        return;
    }
    rep.counters.inc("c03_vanish_cases_checked");
    let death = c.events.iter().find_map(|e| match &e.ev {
        Ev::Hook(V::Death { id, .. }) if id.local == c.addr[side] => Some(e.t),
        _ => None,
    });
    let start = last_rx.max(first_unacked_send.unwrap_or(0)).max(t_vanish.min(last_rx.max(1)));
    let bound = start + inactivity + 5 * SEC;
    match death {
        Some(t) if t <= bound => {}
        Some(t) => rep.violate(
            P,
            "abort-late",
            "peer-vanished".to_string(),
            format!("side {side}: peer last heard at t={last_rx} us, data outstanding since t={:?}; the connection ended only at t={t} us (bound {bound})", first_unacked_send),
            Some(t),
        ),
        None => {
            if end_time > bound {
                rep.violate(
                    P,
                    "abort-never",
                    "peer-vanished".to_string(),
                    format!("side {side}: peer last heard at t={last_rx} us with data outstanding; the connection had not ended by t={end_time} us (bound {bound})"),
                    Some(bound),
                );
            }
        }
    }
}
