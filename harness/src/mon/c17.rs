//! C17 handshake and teardown conformance: trace rules on the wire.
//!
//! (a) the accepted side answers the SYN with ST_STATE acknowledging the SYN's seq_nr, repeats
//!     it while nothing arrives, at most the configured number of times, then the accepted
//!     stream fails;
//! (b) a FIN sent on the endpoint's own initiative carries last data seq_nr + 1, appears only
//!     after every accepted byte was transmitted at least once, is retransmitted on timeout
//!     while unacknowledged and the connection lives, and no ST_DATA with a higher sequence
//!     number follows it;
//! (c) a peer FIN is honoured only in sequence: no emitted ack_nr ever covers a sequence number
//!     beyond the contiguous prefix (an out-of-sequence FIN included); once an in-sequence FIN
//!     was handed over, every later packet acknowledges it and the endpoint's own FIN follows
//!     (in that step when nothing is left to send);
//! (d) a RESET handed to a live connection ends it at once and nothing more is emitted; the
//!     streams report an error unless the endpoint's FIN had already been answered.
use std::collections::{BTreeMap, BTreeSet};

use librqbit_utp::verif::VerifEvent as V;

use crate::{
    events::{ApiOp, Ev, Event, Us, MS},
    verdict::CaseReport,
    view::WireView,
    wire,
};

pub const P: &str = "C17";

pub struct Params {
    pub real_is_initiator: bool,
    pub real_addr: std::net::SocketAddr,
    pub max_retransmissions: usize,
    pub silent_initiator: bool,
}

pub fn check(rep: &mut CaseReport, events: &[Event], view: &WireView, p: &Params) {
    let conn = match view.conns.first() {
        Some(c) => c,
        None => return,
    };
    let blocked = crate::mon::diag::blocked_intervals(events, p.real_addr);
    if !blocked.is_empty() {
        rep.counters.add("c17_transport_blockages_seen", blocked.len() as u64);
    }
    let my_pkts: Vec<usize> = conn.dir(p.real_is_initiator).iter().copied().filter(|pi| !view.pkts[*pi].scripted && view.pkts[*pi].left_sender()).collect();
    // (a) SYN-ACK
    if !p.real_is_initiator {
        if let Some(&pi) = my_pkts.first() {
            rep.counters.inc("c17_synacks_checked");
            let wp = &view.pkts[pi];
            if let Some(k) = &wp.pkt {
                if k.ty != wire::ST_STATE || k.ack != conn.syn_seq {
                    rep.violate(
                        P,
                        "synack-wrong",
                        "handshake".to_string(),
                        format!("the accepted side's first packet is {} with ack_nr {} (the SYN's seq_nr is {})", wire::type_name(k.ty), k.ack, conn.syn_seq),
                        Some(wp.t),
                    );
                }
            }
        }
        if p.silent_initiator {
            let states: Vec<&crate::view::WirePkt> = my_pkts.iter().map(|pi| &view.pkts[*pi]).filter(|w| matches!(&w.pkt, Some(k) if k.ty == wire::ST_STATE)).collect();
            rep.counters.inc("c17_silent_initiator_cases");
            if states.len() > p.max_retransmissions || states.is_empty() {
                rep.violate(
                    P,
                    "synack-repeat-count",
                    "handshake".to_string(),
                    format!("the SYN-ACK was transmitted {} times to a silent initiator; the configured count is {}", states.len(), p.max_retransmissions),
                    states.last().map(|w| w.t),
                );
            }
            for w in states.windows(2) {
                let g = w[1].t - w[0].t;
                if g + 3 * MS < 200 * MS || g > 203 * MS {
                    rep.violate(P, "synack-repeat-interval", "handshake".to_string(), format!("SYN-ACK repeated after {g} us (expected 200 ms)"), Some(w[1].t));
                }
            }
            let death = events.iter().find_map(|e| match &e.ev {
                Ev::Hook(V::Death { id, error }) if id.local == p.real_addr => Some((e.t, error.clone())),
                _ => None,
            });
            match death {
                Some((t, Some(_))) => {
                    let due = states.last().map(|w| w.t + 200 * MS).unwrap_or(0);
                    if t > due + 3 * MS {
                        rep.violate(P, "synack-give-up-late", "handshake".to_string(), format!("the accepted connection failed at t={t} us, expected at t={due} us"), Some(t));
                    }
                }
                other => rep.violate(P, "synack-no-failure", "handshake".to_string(), format!("the accepted connection did not fail although the initiator never spoke ({:?})", other), None),
            }
            let read_err = events.iter().any(|e| matches!(&e.ev, Ev::Api { op: ApiOp::ReadRet(Err(_)), .. }));
            if !read_err {
                rep.violate(P, "synack-no-failure", "stream".to_string(), "the accepted stream's pending read did not fail".to_string(), None);
            }
            return;
        }
    }
    let my_first = match conn.first_data_seq(p.real_is_initiator) {
        Some(s) => s,
        None => return,
    };
    let peer_first = match conn.first_data_seq(!p.real_is_initiator) {
        Some(s) => s,
        None => return,
    };
    let my_idx = |seq: u16| wire::seq_diff(seq, my_first) as i64;
    let peer_idx = |seq: u16| wire::seq_diff(seq, peer_first) as i64;
    let mut my_send: BTreeMap<usize, usize> = BTreeMap::new();
    for &pi in &my_pkts {
        my_send.insert(view.pkts[pi].idx, pi);
    }
    let mut peer_recv: BTreeMap<usize, usize> = BTreeMap::new();
    for &pi in conn.dir(!p.real_is_initiator) {
        for (_, ri) in &view.pkts[pi].recvs {
            peer_recv.insert(*ri, pi);
        }
    }
    // receive side model (for the peer FIN rules)
    let mut stored: BTreeSet<i64> = BTreeSet::new();
    let mut contiguous: i64 = -1;
    let mut peer_fin_accepted: Option<(usize, Us, i64)> = None; // (event idx, time, fin idx)
    // send side
    let mut accepted: u64 = 0;
    let mut first_tx_bytes: u64 = 0;
    let mut unsent_at_peer_fin = false;
    let mut seen_data: BTreeSet<i64> = BTreeSet::new();
    let mut max_data_idx: i64 = -1;
    let mut my_fin: Option<(usize, Us, i64, bool)> = None; // (event idx, time, idx, own initiative)
    let mut my_fin_retx: Vec<Us> = Vec::new();
    let mut my_fin_acked_at: Option<Us> = None;
    let mut data_acked_idx: i64 = -1;
    let mut data_acked_at_fin: i64 = -1;
    let mut dead_at: Option<(usize, Us, Option<String>)> = None;
    let mut reset_at: Option<(usize, Us, bool)> = None; // (idx, t, handshake answered)
    let mut any_timeout_before_fin = false;
    let mut last_stim_t: Option<Us> = None;
    // upper bound of the retransmission timeout in force: the estimator never exceeds
    // max sample + 4 x max sample (and starts at 300 ms)
    let mut data_sent_at: BTreeMap<i64, (Us, u32)> = BTreeMap::new();
    let mut max_rtt_sample: Us = 0;
    for (i, e) in events.iter().enumerate() {
        if let Some(&pi) = peer_recv.get(&i) {
            last_stim_t = Some(e.t);
            let pk = match &view.pkts[pi].pkt {
                Some(k) => k,
                None => continue,
            };
            if dead_at.is_some() {
                continue;
            }
            let mut ack_ignored = false;
            match pk.ty {
                wire::ST_FIN => {
                    let fi = peer_idx(pk.seq);
                    if peer_fin_accepted.is_none() && fi == contiguous + 1 {
                        peer_fin_accepted = Some((i, e.t, fi));
                        // what was still to be transmitted for the first time at that moment
                        unsent_at_peer_fin = first_tx_bytes < accepted;
                        stored.retain(|x| *x < fi);
                        contiguous = fi;
                        rep.counters.inc("c17_peer_fins_in_sequence");
                    } else if peer_fin_accepted.is_none() {
                        rep.counters.inc("c17_peer_fins_out_of_sequence");
                        // dropped whole: what it acknowledges is learnt from a later packet
                        ack_ignored = true;
                    }
                }
                wire::ST_RESET => {
                    if reset_at.is_none() {
                        let answered = match (my_fin, peer_fin_accepted) {
                            (Some((_, _, fidx, _)), Some(_)) => my_idx(pk.ack) == fidx,
                            _ => false,
                        };
                        reset_at = Some((i, e.t, answered));
                        rep.counters.inc("c17_resets_on_live_connection");
                    }
                }
                wire::ST_SYN => {
                    rep.counters.inc("c17_duplicate_syns_seen");
                }
                _ => {}
            }
            if pk.ty != wire::ST_SYN && pk.ty != wire::ST_RESET && !ack_ignored {
                let a = my_idx(pk.ack);
                if a > data_acked_idx {
                    for (_, (t0, n)) in data_sent_at.range(data_acked_idx + 1..=a) {
                        if *n == 1 {
                            max_rtt_sample = max_rtt_sample.max(e.t - *t0);
                        }
                    }
                    data_acked_idx = a;
                }
                if let Some((_, _, fidx, _)) = my_fin {
                    if a >= fidx && my_fin_acked_at.is_none() {
                        my_fin_acked_at = Some(e.t);
                    }
                }
            }
            continue;
        }
        match &e.ev {
            Ev::Hook(V::RxData { id, seq_nr, outcome, .. }) if id.local == p.real_addr => {
                if *outcome == "consumed" && peer_fin_accepted.is_none() {
                    stored.insert(peer_idx(*seq_nr));
                    while stored.contains(&(contiguous + 1)) {
                        contiguous += 1;
                    }
                }
            }
            Ev::Hook(V::Death { id, error }) if id.local == p.real_addr => {
                if dead_at.is_none() {
                    dead_at = Some((i, e.t, error.clone()));
                }
            }
            Ev::Hook(V::VsockDropped { id, .. }) if id.local == p.real_addr => {
                if dead_at.is_none() {
                    dead_at = Some((i, e.t, Some("dropped".into())));
                }
            }
            Ev::Api { conn: 0, side: 0, op: ApiOp::WriteRet(Ok(n)) } => accepted += *n as u64,
            Ev::Send { .. } => {
                let pi = match my_send.get(&i) {
                    Some(x) => *x,
                    None => continue,
                };
                let wp = &view.pkts[pi];
                let pk = match &wp.pkt {
                    Some(k) => k,
                    None => continue,
                };
                if pk.ty == wire::ST_SYN {
                    continue;
                }
                // a datagram the transport refused never left
                if !wp.left_sender() {
                    rep.counters.inc("c17_emission_attempts_refused_by_the_transport");
                    continue;
                }
                rep.counters.inc("c17_emitted_packets_checked");
                // (d) nothing after a processed RESET
                if let Some((ri, rt, _)) = reset_at {
                    if i > ri {
                        rep.violate(
                            P,
                            "emission-after-reset",
                            wire::type_name(pk.ty).to_string(),
                            format!("a RESET was handed to the connection at t={rt} us; it emitted a {} packet at t={} us", wire::type_name(pk.ty), e.t),
                            Some(e.t),
                        );
                    }
                }
                // (c) acknowledgement never beyond the contiguous prefix (out-of-sequence FINs are not honoured)
                let a = peer_idx(pk.ack);
                // (a peer that keeps sending data after its own FIN is outside the rule: what the
                // endpoint does with such data is not judged)
                if a > contiguous && peer_fin_accepted.is_none() {
                    rep.violate(
                        P,
                        "ack-covers-out-of-sequence",
                        "peer-fin".to_string(),
                        format!("packet emitted at t={} us acknowledges index {a} of the peer's sequence space, the contiguous prefix (incl. an in-sequence FIN) ends at {contiguous}", e.t),
                        Some(e.t),
                    );
                }
                if let Some((fi, ft, fidx)) = peer_fin_accepted {
                    if i > fi && a < fidx && pk.ty != wire::ST_RESET {
                        rep.violate(
                            P,
                            "peer-fin-not-acknowledged",
                            "peer-fin".to_string(),
                            format!("the peer's in-sequence FIN was handed over at t={ft} us; the {} emitted at t={} us acknowledges only index {a} (FIN index {fidx})", wire::type_name(pk.ty), e.t),
                            Some(e.t),
                        );
                    }
                }
                match pk.ty {
                    wire::ST_DATA => {
                        let di = my_idx(pk.seq);
                        let ent = data_sent_at.entry(di).or_insert((e.t, 0));
                        ent.1 += 1;
                        if seen_data.insert(di) {
                            first_tx_bytes += pk.payload.len() as u64;
                            if di > max_data_idx {
                                max_data_idx = di;
                            }
                            // (b4) no new payload after an own-initiative FIN
                            if let Some((_, ft, fidx, true)) = my_fin {
                                if di >= fidx {
                                    rep.violate(
                                        P,
                                        "data-after-own-fin",
                                        "own-fin".to_string(),
                                        format!("the endpoint sent its FIN (index {fidx}) at t={ft} us on its own initiative; at t={} us it first-transmitted ST_DATA with index {di}", e.t),
                                        Some(e.t),
                                    );
                                }
                            }
                        } else if last_stim_t != Some(e.t) && my_fin.is_none() {
                            any_timeout_before_fin = true;
                        }
                    }
                    wire::ST_FIN => {
                        let fidx = my_idx(pk.seq);
                        match my_fin {
                            None => {
                                // death-path FINs (error end) are not closes on the endpoint's initiative
                                let on_death = matches!(dead_at, Some((_, dt, Some(_))) if dt == e.t);
                                let own = peer_fin_accepted.is_none() && !on_death;
                                my_fin = Some((i, e.t, fidx, own));
                                // what was acknowledged at that moment (not at the end of the run)
                                data_acked_at_fin = data_acked_idx;
                                if own {
                                    rep.counters.inc("c17_own_fins_checked");
                                    if fidx != max_data_idx + 1 {
                                        rep.violate(
                                            P,
                                            "fin-seq-wrong",
                                            "own-fin".to_string(),
                                            format!("FIN sent at t={} us has sequence index {fidx}; the last data segment has index {max_data_idx}", e.t),
                                            Some(e.t),
                                        );
                                    }
                                    if first_tx_bytes < accepted {
                                        rep.violate(
                                            P,
                                            "fin-before-all-data-sent",
                                            "own-fin".to_string(),
                                            format!("FIN sent at t={} us although only {first_tx_bytes} of {accepted} accepted bytes had been transmitted", e.t),
                                            Some(e.t),
                                        );
                                    }
                                } else if !on_death {
                                    rep.counters.inc("c17_answering_fins_seen");
                                }
                            }
                            Some(_) => my_fin_retx.push(e.t),
                        }
                    }
                    _ => {}
                }
            }
            _ => {}
        }
    }
    // (c) the endpoint's own FIN follows an in-sequence peer FIN (same step when nothing is unsent)
    if let Some((fi, ft, _)) = peer_fin_accepted {
        let alive = dead_at.as_ref().map(|(di, _, _)| *di > fi).unwrap_or(true);
        let nothing_unsent = first_tx_bytes >= accepted && !unsent_at_peer_fin;
        if alive && nothing_unsent && reset_at.map(|(ri, _, _)| ri > fi).unwrap_or(true) {
            rep.counters.inc("c17_fin_answers_checked");
            match my_fin {
                // (with the transport blocked at that moment: as soon as it takes datagrams again)
                Some((_, t, _, _)) if t <= crate::mon::diag::unblocked_at(&blocked, ft) + MS => {}
                Some((mi, _, _, _)) if mi < fi => {} // already closing
                other => rep.violate(
                    P,
                    "peer-fin-not-answered",
                    "peer-fin".to_string(),
                    format!("the peer's in-sequence FIN was handed over at t={ft} us with nothing left to send; the endpoint's own FIN: {:?}", other.map(|x| x.1)),
                    Some(ft),
                ),
            }
        }
    }
    // (b3) FIN retransmission while unacknowledged
    if let Some((_, ft, fidx, own)) = my_fin {
        let all_data_acked_at_fin = data_acked_at_fin >= fidx - 1 || max_data_idx < 0;
        let rto_upper = (300 * MS).max(5 * max_rtt_sample) + 20 * MS;
        // time the transport spent refusing datagrams does not count
        let blocked_time: Us = blocked.iter().filter(|(s0, _)| *s0 >= ft && *s0 <= ft + rto_upper + 2_000_000).map(|(s0, u)| u - s0).sum();
        let window_end = ft + rto_upper + blocked_time;
        let acked_in_time = my_fin_acked_at.map(|t| t <= window_end).unwrap_or(false);
        let died_in_time = dead_at.as_ref().map(|(_, t, _)| *t <= window_end).unwrap_or(false);
        let reset_in_time = reset_at.map(|(_, t, _)| t <= window_end).unwrap_or(false);
        let end_t = events.last().map(|e| e.t).unwrap_or(0);
        if own && all_data_acked_at_fin && !any_timeout_before_fin && !acked_in_time && !died_in_time && !reset_in_time && end_t > window_end {
            rep.counters.inc("c17_fin_retransmissions_checked");
            if !my_fin_retx.iter().any(|t| *t <= window_end) {
                rep.violate(
                    P,
                    "fin-not-retransmitted",
                    "own-fin".to_string(),
                    format!("the FIN sent at t={ft} us stayed unacknowledged and the connection alive, but it was not retransmitted within {rto_upper} us (upper bound of the timeout in force)"),
                    Some(window_end),
                );
            }
        }
    }
    // (d) RESET ends the connection at once, with an error unless the close handshake was answered
    if let Some((ri, rt, answered)) = reset_at {
        match &dead_at {
            Some((di, dt, err)) if *di > ri => {
                if *dt > rt + MS {
                    rep.violate(P, "reset-not-immediate", "reset".to_string(), format!("RESET handed over at t={rt} us, the connection ended at t={dt} us"), Some(*dt));
                }
                let is_err = err.is_some();
                if !answered && !is_err {
                    rep.violate(P, "reset-without-error", "reset".to_string(), format!("RESET at t={rt} us ended the connection without an error although the close handshake had not been answered"), Some(*dt));
                }
            }
            Some(_) => {}
            None => rep.violate(P, "reset-ignored", "reset".to_string(), format!("RESET handed to a live connection at t={rt} us did not end it"), Some(rt)),
        }
    }
}

/// Coverage labels: (state, packet type) and (state, application action) pairs seen, from snapshots.
pub fn coverage_labels(rep: &mut CaseReport, events: &[Event], view: &WireView, real_addr: std::net::SocketAddr) {
    let mut state: &'static str = "none";
    let mut recv_ev: BTreeMap<usize, u8> = BTreeMap::new();
    for p in &view.pkts {
        if p.scripted {
            if let (Some(k), Some((_, ri))) = (&p.pkt, p.recvs.first()) {
                recv_ev.insert(*ri, k.ty);
            }
        }
    }
    let mut labels: BTreeSet<String> = BTreeSet::new();
    for (i, e) in events.iter().enumerate() {
        if let Some(ty) = recv_ev.get(&i) {
            labels.insert(format!("{state}|{}", wire::type_name(*ty)));
        }
        match &e.ev {
            Ev::Hook(V::PollEnd { id, snap, .. }) if id.local == real_addr => state = snap.state,
            Ev::Hook(V::VsockDropped { id, .. }) if id.local == real_addr => state = "gone",
            Ev::Api { conn: 0, side: 0, op } => {
                let a = match op {
                    ApiOp::WriteCall { .. } => Some("write"),
                    ApiOp::ShutdownCall => Some("shutdown"),
                    ApiOp::DropReader => Some("drop-reader"),
                    ApiOp::DropWriter => Some("drop-writer"),
                    ApiOp::ReadCall { .. } => Some("read"),
                    _ => None,
                };
                if let Some(a) = a {
                    labels.insert(format!("{state}|app:{a}"));
                }
            }
            _ => {}
        }
    }
    rep.labels.extend(labels);
}
