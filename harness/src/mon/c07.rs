//! C07 acknowledgement timeliness, judged on the real (receiving) endpoint's emissions against
//! the scripted arrival pattern (one stimulus per logical step, so "immediately" is "in the step
//! in which the packet was handed over", i.e. at the same virtual instant).
//!
//!   * every in-order data packet accepted at t is covered by an emitted ack_nr by t + 40 ms + eps;
//!   * immediately when: the unacknowledged bytes reach twice the endpoint's own segment size, the
//!     packet is out of order or fills a gap (or arrives while data is parked out of order), it is
//!     a duplicate, it is an in-sequence FIN, or an application read re-opens a zero window;
//!   * silence: with nothing handed over, no application activity and nothing owed for a
//!     second, nothing is emitted.
use std::collections::{BTreeMap, BTreeSet};

use librqbit_utp::verif::VerifEvent as V;

use crate::{
    events::{ApiOp, Ev, Event, Us, MS, SEC},
    verdict::CaseReport,
    view::WireView,
    wire,
};

pub const P: &str = "C07";
const EPS: Us = 3 * MS;
const ACK_DELAY: Us = 40 * MS;

pub struct Params {
    pub real_is_initiator: bool,
    pub min_payload: usize,
    pub capacity: usize,
    pub real_addr: std::net::SocketAddr,
}

pub fn check(rep: &mut CaseReport, events: &[Event], view: &WireView, p: &Params) {
    let conn = match view.conns.first() {
        Some(c) => c,
        None => return,
    };
    let first = match conn.first_data_seq(!p.real_is_initiator) {
        Some(s) => s,
        None => return,
    };
    let idx_of = |seq: u16| wire::seq_diff(seq, first) as i64;
    let mut my_send: BTreeMap<usize, usize> = BTreeMap::new();
    for &pi in conn.dir(p.real_is_initiator) {
        my_send.insert(view.pkts[pi].idx, pi);
    }
    let mut peer_recv: BTreeMap<usize, usize> = BTreeMap::new();
    for &pi in conn.dir(!p.real_is_initiator) {
        for (_, ri) in &view.pkts[pi].recvs {
            peer_recv.insert(*ri, pi);
        }
    }
    let mut stored: BTreeSet<i64> = BTreeSet::new();
    let mut stored_len: BTreeMap<i64, usize> = BTreeMap::new();
    let mut contiguous: i64 = -1;
    let mut seg = p.min_payload;
    let mut unacked: u64 = 0;
    // obligations
    let mut delayed: Vec<(Us, i64, Us)> = Vec::new(); // (deadline, index to cover, arrival time)
    let mut immediate: Option<(Us, usize, &'static str)> = None; // (time, event index of the stimulus, why)
    let mut last_activity: Us = 0;
    let mut closing = false;
    let mut last_emitted_wnd: Option<u32> = None;
    let mut stored_bytes_total: u64 = 0;
    let mut read_bytes: u64 = 0;
    let mut pending_arrival: Option<(i64, usize, Us, usize)> = None; // (idx, len, t, ev) waiting for its RxData outcome
    let mut my_max_payload_acked = 0usize;
    let mut fin_at: Option<i64> = None; // index of the peer's FIN once it was taken in sequence
    // the transport may refuse datagrams for a while (full send buffer): what is owed at an instant
    // inside such an interval is owed at its end
    let blocked = crate::mon::diag::blocked_intervals(events, p.real_addr);
    if !blocked.is_empty() {
        rep.counters.add("c07_transport_blockages_seen", blocked.len() as u64);
    }
    let settle_immediate = |rep: &mut CaseReport, immediate: &mut Option<(Us, usize, &'static str)>, now: Us| {
        if let Some((t, ev, why)) = *immediate {
            let free_at = crate::mon::diag::unblocked_at(&blocked, t);
            if free_at > t {
                *immediate = Some((free_at, ev, why));
                return;
            }
            if now > t {
                rep.violate(
                    P,
                    "immediate-ack-missing",
                    why.to_string(),
                    format!("{why} at t={t} us: no acknowledgement was emitted in that step"),
                    Some(t),
                );
                *immediate = None;
            }
        }
    };
    for (i, e) in events.iter().enumerate() {
        settle_immediate(rep, &mut immediate, e.t);
        // delayed obligations that are overdue
        delayed.retain(|(dl, idx, at)| {
            if e.t > *dl && e.t > crate::mon::diag::unblocked_at(&blocked, dl.saturating_sub(EPS)) + EPS {
                rep.violate(
                    P,
                    "delayed-ack-late",
                    "in-order".to_string(),
                    format!("the in-order data packet (index {idx}) accepted at t={at} us was not covered by any emitted ack_nr by t={dl} us (40 ms + tolerance)"),
                    Some(*dl),
                );
                false
            } else {
                true
            }
        });
        if closing {
            continue;
        }
        if let Some(&pi) = peer_recv.get(&i) {
            last_activity = e.t;
            let pk = match &view.pkts[pi].pkt {
                Some(k) => k,
                None => continue,
            };
            let idx = idx_of(pk.seq);
            match pk.ty {
                wire::ST_DATA if fin_at.map_or(false, |f| idx > f) => {
                        // numbered after the end of the stream: no data of this connection
                        rep.counters.inc("c07_data_beyond_the_fin_seen");
                        pending_arrival = None;
                }
                wire::ST_DATA => {
                    if idx <= contiguous || stored.contains(&idx) {
                        rep.counters.inc("c07_duplicates_seen");
                        immediate = Some((e.t, i, "a duplicate data packet arrived"));
                        pending_arrival = None;
                    } else {
                        // the verdict depends on what the reassembler does with it (RxData follows)
                        pending_arrival = Some((idx, pk.payload.len(), e.t, i));
                        seg = seg.max(pk.payload.len());
                    }
                }
                wire::ST_FIN => {
                    if fin_at == Some(idx) {
                        rep.counters.inc("c07_duplicate_fins_seen");
                        immediate = Some((e.t, i, "another copy of the accepted FIN arrived"));
                    } else if fin_at.is_none() && idx == contiguous + 1 {
                        rep.counters.inc("c07_fins_seen");
                        immediate = Some((e.t, i, "an in-sequence FIN arrived"));
                        fin_at = Some(idx);
                        contiguous = idx;
                        closing_after_emission(&mut closing);
                    }
                }
                wire::ST_STATE => {
                    // ACKs of the endpoint's own data: acknowledged payload sizes raise its segment size
                    let _ = &mut my_max_payload_acked;
                }
                _ => {}
            }
            continue;
        }
        match &e.ev {
            Ev::Hook(V::RxData { id, seq_nr, len, outcome, advanced }) if id.local == p.real_addr => {
                let idx = idx_of(*seq_nr);
                let ooo_before = stored.range(contiguous + 1..).next().is_some();
                if *outcome == "consumed" {
                    if stored.insert(idx) {
                        stored_len.insert(idx, *len);
                        stored_bytes_total += *len as u64;
                    }
                    let before = contiguous;
                    while stored.contains(&(contiguous + 1)) {
                        contiguous += 1;
                    }
                    let adv_bytes: u64 = if contiguous > before { stored_len.range(before + 1..=contiguous).map(|(_, l)| *l as u64).sum() } else { 0 };
                    unacked += adv_bytes;
                }
                // a read re-opened the window earlier in this very step, and this payload closes it
                // again before the endpoint could announce anything: nothing is owed
                if let Some((ti, _, why)) = immediate {
                    if ti == e.t && why == "an application read re-opened a zero window" {
                        let deq = dequeued(read_bytes, &stored_len, contiguous);
                        let free = (p.capacity as u64).saturating_sub(stored_bytes_total.saturating_sub(deq));
                        if free < seg as u64 {
                            immediate = None;
                            rep.counters.inc("c07_window_reopenings_closed_again_in_the_same_step");
                        }
                    }
                }
                let ooo_after = stored.range(contiguous + 1..).next().is_some();
                if let Some((pidx, _, t, ev)) = pending_arrival.take() {
                    if pidx == idx {
                        if ooo_before || ooo_after {
                            rep.counters.inc("c07_out_of_order_or_gap_fill_seen");
                            immediate = Some((t, ev, "a data packet arrived out of order / filled a gap"));
                        } else if *outcome == "consumed" && *advanced >= 1 {
                            rep.counters.inc("c07_in_order_packets_seen");
                            if unacked >= 2 * seg as u64 {
                                rep.counters.inc("c07_threshold_crossings_seen");
                                immediate = Some((t, ev, "unacknowledged bytes reached twice the segment size"));
                            } else {
                                // (the 40 ms run from the moment the endpoint takes the packet in;
                                // with the transport blocked at hand-over that is the end of the
                                // blockage: the endpoint processes nothing while it cannot send)
                                let base = crate::mon::diag::unblocked_at(&blocked, t);
                                delayed.push((base + ACK_DELAY + EPS, idx, t));
                            }
                        }
                    }
                }
            }
            Ev::Hook(V::Death { id, .. }) | Ev::Hook(V::VsockDropped { id, .. }) if id.local == p.real_addr => {
                closing = true;
                delayed.clear();
                immediate = None;
            }
            Ev::Api { conn: 0, side: 0, op } => {
                match op {
                    ApiOp::ReadRet(Ok(k)) if *k > 0 => {
                        read_bytes += *k as u64;
                        last_activity = e.t;
                        // re-opening a zero window
                        // (once the peer's FIN was taken nothing more can come: the window is moot)
                        if last_emitted_wnd == Some(0) && fin_at.is_none() {
                            let deq = dequeued(read_bytes, &stored_len, contiguous);
                            let free = (p.capacity as u64).saturating_sub(stored_bytes_total.saturating_sub(deq));
                            if free >= seg as u64 && immediate.is_none() {
                                rep.counters.inc("c07_window_reopenings_seen");
                                immediate = Some((e.t, i, "an application read re-opened a zero window"));
                            }
                        }
                    }
                    ApiOp::ReadRet(_) | ApiOp::WriteRet(_) | ApiOp::WriteCall { .. } => last_activity = e.t,
                    // closing the sending direction does not end the duties of the receiving one
                    ApiOp::DropWriter | ApiOp::ShutdownCall => {
                        rep.counters.inc("c07_local_closes_seen");
                        last_activity = e.t;
                    }
                    ApiOp::DropReader => {
                        closing = true;
                        delayed.clear();
                        immediate = None;
                    }
                    _ => {}
                }
            }
            Ev::Send { .. } => {
                let pi = match my_send.get(&i) {
                    Some(x) => *x,
                    None => continue,
                };
                let wp = &view.pkts[pi];
                if wp.scripted {
                    continue;
                }
                // a datagram the transport refused never left: the peer was told nothing
                if !wp.left_sender() {
                    rep.counters.inc("c07_emission_attempts_refused_by_the_transport");
                    continue;
                }
                let pk = match &wp.pkt {
                    Some(k) => k,
                    None => continue,
                };
                if pk.ty == wire::ST_SYN {
                    continue;
                }
                rep.counters.inc("c07_emissions_seen");
                let a = idx_of(pk.ack);
                // an emission meets the immediate obligation of this step
                if let Some((t, ev, why)) = immediate {
                    // (lateness is judged by settle_immediate before every event; an emission that
                    // gets here after the stimulus is in time - with the transport blocked on and
                    // off the moment owed may lie later than this emission)
                    let _ = t;
                    if i > ev {
                        if why.contains("zero window") && pk.wnd == 0 {
                            // must announce the re-opened window
                        } else {
                            rep.counters.inc("c07_immediate_acks_checked");
                            immediate = None;
                        }
                    }
                }
                let before = delayed.len();
                delayed.retain(|(_, idx, _)| *idx > a);
                rep.counters.add("c07_delayed_acks_checked", (before - delayed.len()) as u64);
                // silence
                let provoked = e.t.saturating_sub(last_activity) < SEC || before > 0 || pk.ty == wire::ST_DATA || pk.ty == wire::ST_FIN;
                if !provoked {
                    rep.violate(
                        P,
                        "emission-in-silence",
                        wire::type_name(pk.ty).to_string(),
                        format!(
                            "a {} packet was emitted at t={} us although nothing had been handed to the endpoint, no application call had completed and nothing was owed since t={} us",
                            wire::type_name(pk.ty),
                            e.t,
                            last_activity
                        ),
                        Some(e.t),
                    );
                } else if e.t.saturating_sub(last_activity) >= SEC {
                    rep.counters.inc("c07_idle_emissions_justified");
                }
                unacked = 0;
                last_emitted_wnd = Some(pk.wnd);
                if pk.ty == wire::ST_FIN {
                    rep.counters.inc("c07_own_fins_seen");
                }
            }
            _ => {}
        }
    }
    // idle stretches observed
    let mut last = 0;
    for e in events {
        let act = match &e.ev {
            Ev::Send { .. } | Ev::Recv { .. } => true,
            Ev::Api { .. } => true,
            _ => false,
        };
        if act {
            if e.t - last >= SEC {
                rep.counters.inc("c07_idle_stretches_observed");
            }
            last = e.t;
        }
    }
}

fn closing_after_emission(_c: &mut bool) {}

fn dequeued(read: u64, stored_len: &BTreeMap<i64, usize>, contiguous: i64) -> u64 {
    if read == 0 {
        return 0;
    }
    let mut off = 0u64;
    for (_, l) in stored_len.range(..=contiguous) {
        let end = off + *l as u64;
        if read <= end {
            return end;
        }
        off = end;
    }
    off
}
