pub mod c01;
pub mod c02;
pub mod c03;
pub mod c05;
pub mod c06;
pub mod c11;
pub mod diag;
pub mod sender;
