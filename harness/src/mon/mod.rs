pub mod c01;
