//! C08: every connection terminates, frees its slot, and is silent afterwards.
//!
//! Oracles over one `lifecycle` case (hooks: VsockCreated / VsockDropped / Death / SocketTables;
//! boundary: API log; wire):
//!  * terminates   - once the application let go of a stream (both halves dropped, or shutdown
//!                   returned Ok) or the connection failed, the connection object is dropped within
//!                   the bound (inactivity limit + retransmission back-off + slack, virtual time);
//!  * table        - a dispatcher table entry always belongs to a live connection object, and at
//!                   the end of every round's bounded wait the table is empty;
//!  * reopen       - after the bounded wait the socket opens `max_live_vsocks` fresh connections
//!                   again (boundary form of "its share of the limit is released");
//!  * silent       - no datagram bearing a connection's identifiers leaves the socket after its
//!                   object was dropped;
//!  * cancel       - after the cancellation token fires every connection object of the socket is
//!                   gone within two steps, every held half and the socket's accept/connect report
//!                   errors, and the socket emits nothing more.
use std::{collections::BTreeMap, net::SocketAddr};

use librqbit_utp::verif::VerifEvent as V;

use crate::{
    events::{ApiOp, Ev, Event, Us, MS},
    fam::lifecycle::{ids_of, peer_addr, subject_addr, LifeCfg, LifeOutcome},
    mon::diag::{vsock_lives, VsockLife},
    verdict::CaseReport,
};

const P: &str = "C08";

fn note_time(events: &[Event], text: &str) -> Option<Us> {
    events.iter().find_map(|e| match &e.ev {
        Ev::Note(n) if n == text => Some(e.t),
        _ => None,
    })
}

pub fn check(rep: &mut CaseReport, events: &[Event], cfg: &LifeCfg, out: Option<&LifeOutcome>, case_seed: u64, end_time: Us, lossy: bool) {

    let lives = vsock_lives(events);
    let (sa, pa) = (subject_addr(), peer_addr());
    let teardown = note_time(events, "teardown").unwrap_or(end_time);

    // ---- per connection and side: let-go time ----
    // (conn, side) -> (drop reader, drop writer, shutdown ok)
    let mut api: BTreeMap<(u32, u8), (Option<Us>, Option<Us>, Option<Us>)> = BTreeMap::new();
    for e in events {
        if let Ev::Api { conn, side, op } = &e.ev {
            if *conn >= 1_000_000 {
                continue;
            }
            let a = api.entry((*conn, *side)).or_default();
            match op {
                ApiOp::DropReader => a.0 = a.0.or(Some(e.t)),
                ApiOp::DropWriter => a.1 = a.1.or(Some(e.t)),
                ApiOp::ShutdownRet(Ok(())) => a.2 = a.2.or(Some(e.t)),
                _ => {}
            }
        }
    }
    let established: Vec<u32> = out.map(|o| o.established.clone()).unwrap_or_default();
    let cancelled_at = out.and_then(|o| o.cancelled_at);
    let mut judged = 0u64;
    for conn in &established {
        let (init, c) = match ids_of(events, case_seed, *conn) {
            Some(x) => x,
            None => continue,
        };
        let open_t = note_time(events, &format!("conn {conn} open")).unwrap_or(u64::MAX);
        for side in 0..2u8 {
            let local = if side == 0 { sa } else { pa };
            let recv_id = if init == local { c } else { c.wrapping_add(1) };
            // the connection object: latest one with that key created before the harness saw it open
            let life: Option<&VsockLife> = lives.iter().filter(|l| l.id.local == local && l.id.conn_id_recv == recv_id && l.created <= open_t).max_by_key(|l| l.created);
            let life = match life {
                Some(l) => l,
                None => continue,
            };
            let a = api.get(&(*conn, side)).copied().unwrap_or_default();
            let both_dropped = match (a.0, a.1) {
                (Some(r), Some(w)) => Some(r.max(w)),
                _ => None,
            };
            let letgo = match (both_dropped, a.2) {
                (Some(x), Some(y)) => Some(x.min(y)),
                (x, y) => x.or(y),
            };
            let letgo = match letgo {
                Some(t) => t,
                None => continue,
            };
            if let Some(tc) = cancelled_at {
                if side == 0 && letgo >= tc {
                    // judged by the cancel rule
                    continue;
                }
            }
            judged += 1;
            let deadline = letgo + cfg.bound;
            match life.dropped {
                Some(td) if td <= deadline => {
                    rep.counters.max("max_c08_ms_from_letgo_to_task_end", td.saturating_sub(letgo) / MS);
                }
                Some(td) if td >= teardown => {
                    if deadline <= teardown {
                        rep.violate(P, "terminates", format!("connection object still alive {} s after the application let go (side {side})", cfg.bound / 1_000_000), format!("conn {conn} side {side} uid {}: let go at {letgo} us, still alive when the run was torn down at {teardown} us", life.id.uid), Some(deadline));
                    } else {
                        rep.inconclusive.push(format!("conn {conn} side {side}: the run ended before the bound was over"));
                    }
                }
                Some(td) => {
                    rep.violate(P, "terminates", format!("connection object outlived the bound after the application let go (side {side})"), format!("conn {conn} side {side} uid {}: let go at {letgo} us, dropped at {td} us, bound {} us", life.id.uid, cfg.bound), Some(td));
                }
                None => {
                    if deadline <= teardown {
                        rep.violate(P, "terminates", format!("connection object never dropped after the application let go (side {side})"), format!("conn {conn} side {side} uid {}: let go at {letgo} us", life.id.uid), Some(deadline));
                    } else {
                        rep.inconclusive.push(format!("conn {conn} side {side}: the run ended before the bound was over"));
                    }
                }
            }
        }
    }
    rep.counters.add("c08_connection_ends_judged", judged);

    // a failed connection's task ends with the failure
    for e in events {
        if let Ev::Hook(V::Death { id, error: Some(_) }) = &e.ev {
            rep.counters.inc("c08_failed_connections_seen");
            let l = lives.iter().find(|l| l.id.uid == id.uid);
            match l.and_then(|l| l.dropped) {
                Some(td) if td <= e.t + 2 * MS => {}
                other => rep.violate(P, "terminates", "a failed connection's object was not dropped with the failure", format!("uid {} failed at {} us, dropped {:?}", id.uid, e.t, other), Some(e.t)),
            }
        }
    }

    // ---- table ----
    let mut last_table: BTreeMap<SocketAddr, (Us, Vec<(SocketAddr, u16)>)> = BTreeMap::new();
    let mut tables = 0u64;
    let mut round_checks = 0u64;
    for e in events {
        match &e.ev {
            Ev::Hook(V::SocketTables { local, streams, limit, .. }) => {
                tables += 1;
                if streams.len() > *limit {
                    rep.violate(P, "table", "more table entries than max_live_vsocks", format!("{local}: {} entries, limit {limit}", streams.len()), Some(e.t));
                }
                for (rem, rid) in streams {
                    let alive = lives.iter().any(|l| l.id.local == *local && l.id.remote == *rem && l.id.conn_id_recv == *rid && l.created <= e.t && l.dropped.map(|d| d + 2 * MS >= e.t).unwrap_or(true));
                    if !alive {
                        rep.violate(P, "table", "a table entry outlived its connection object", format!("{local}: entry ({rem}, {rid}) at {} us has no live connection object", e.t), Some(e.t));
                    }
                }
                last_table.insert(*local, (e.t, streams.clone()));
            }
            Ev::Note(n) if (n.starts_with("round ") && n.ends_with(" done")) || n == "final wait over" => {
                for local in [sa, pa] {
                    if cancelled_at.is_some() && n == "final wait over" && local == sa {
                        continue;
                    }
                    if let Some((t, s)) = last_table.get(&local) {
                        round_checks += 1;
                        if !s.is_empty() {
                            rep.violate(P, "table", "table not empty after every stream was let go and the bound passed", format!("{local} at '{n}' ({} us): last table observation at {t} us still lists {:?}", e.t, s), Some(e.t));
                        }
                    }
                }
                // and no connection object is left either
                for l in &lives {
                    if l.created < e.t && l.dropped.map(|d| d > e.t).unwrap_or(true) && !(cancelled_at.is_some() && n == "final wait over") {
                        rep.violate(P, "terminates", "a connection object is alive after every stream was let go and the bound passed", format!("uid {} ({}<-{} recv id {}) alive at '{n}'", l.id.uid, l.id.local, l.id.remote, l.id.conn_id_recv), Some(e.t));
                    }
                }
            }
            _ => {}
        }
    }
    rep.counters.add("c08_table_observations", tables);
    rep.counters.add("c08_empty_table_checks", round_checks);

    // ---- reopen ----
    if let Some(o) = out {
        for (conn, why) in &o.failed_to_open {
            let refused = why.contains("too many active");
            // a SYN parked at the accepting socket because its table was full when the connect was abandoned
            let t_fail = events.iter().find_map(|e| match &e.ev {
                Ev::Api { conn: c, op: ApiOp::ConnectRet(Err(_)), .. } if c == conn => Some(e.t),
                _ => None,
            });
            let parked = t_fail
                .map(|tf| {
                    let mut last: BTreeMap<SocketAddr, (usize, usize, usize)> = BTreeMap::new();
                    for e in events {
                        if e.t > tf {
                            break;
                        }
                        if let Ev::Hook(V::SocketTables { local, streams, limit, cached_syns, .. }) = &e.ev {
                            last.insert(*local, (streams.len(), *limit, *cached_syns));
                        }
                    }
                    last.values().any(|(n, lim, syns)| *syns > 0 && n >= lim)
                })
                .unwrap_or(false);
            if refused || parked {
                rep.violate(P, "reopen", format!("could not open a connection although every earlier stream was let go and the bound passed: {}", if refused { "too many active connections" } else { "SYN left waiting for a free slot" }), format!("conn {conn}: {why}"), t_fail);
            } else {
                // e.g. loss, or the peer's fresh connection id collides with a live one (C12: such a connect fails)
                let _ = lossy;
                rep.counters.inc("c08_open_failures_for_other_reasons_not_judged");
            }
        }
        rep.counters.add("c08_connections_opened", o.established.len() as u64);
        rep.counters.add("c08_rounds_completed", o.round_done.len() as u64);
    }

    // ---- silent ----
    let mut silent_checked = 0u64;
    for l in &lives {
        let td = match l.dropped {
            Some(t) if t < teardown => t,
            _ => continue,
        };
        silent_checked += 1;
        for e in events {
            if e.t <= td {
                continue;
            }
            if let Ev::Send { src, dst, pkt: Some(p), scripted: false, .. } = &e.ev {
                if *src == l.id.local && *dst == l.id.remote && p.conn_id == l.id.conn_id_send && p.ty != crate::wire::ST_SYN {
                    // unless a newer connection object legitimately uses the same identifiers
                    let reused = lives.iter().any(|m| m.id.uid != l.id.uid && m.id.local == l.id.local && m.id.remote == l.id.remote && m.id.conn_id_send == l.id.conn_id_send && m.created <= e.t && m.dropped.map(|d| d >= e.t).unwrap_or(true));
                    if !reused {
                        rep.violate(P, "silent", "a datagram with a connection's identifiers was emitted after its object was dropped", format!("uid {} dropped at {td} us; {} -> {} id {} type {} sent at {} us", l.id.uid, src, dst, p.conn_id, p.ty, e.t), Some(e.t));
                        break;
                    }
                }
            }
        }
    }
    rep.counters.add("c08_ended_connections_checked_for_silence", silent_checked);

    // ---- cancel ----
    if let (Some(tc), Some(o)) = (cancelled_at, out) {
        rep.counters.inc("c08_cancellations");
        let t2 = note_time(events, "cancel: two steps later").unwrap_or(tc + 2 * MS);
        let mut live_at_cancel = 0u64;
        for l in &lives {
            if l.id.local != sa || l.created > tc {
                continue;
            }
            if l.dropped.map(|d| d >= tc).unwrap_or(true) {
                live_at_cancel += 1;
                if !l.dropped.map(|d| d <= t2).unwrap_or(false) {
                    rep.violate(P, "cancel", "a connection task survived the cancellation token", format!("uid {} alive at cancel ({tc} us), dropped {:?}", l.id.uid, l.dropped), Some(t2));
                }
            }
        }
        rep.counters.add("c08_connections_live_at_cancel", live_at_cancel);
        // subject-side connection objects of the held connections
        // (state names at the time the object was dropped = at cancel)
        let mut state_at_drop: BTreeMap<u64, &'static str> = BTreeMap::new();
        for e in events {
            if let Ev::Hook(V::VsockDropped { id, snap }) = &e.ev {
                state_at_drop.insert(id.uid, snap.state);
            }
        }
        let alive_at_cancel = |conn: u32| -> bool {
            let (init, c) = match ids_of(events, case_seed, conn) {
                Some(x) => x,
                None => return false,
            };
            let recv_id = if init == sa { c } else { c.wrapping_add(1) };
            // alive, and the peer had not closed yet (after the peer's FIN, EOF is the right answer)
            lives.iter().any(|l| {
                l.id.local == sa
                    && l.id.conn_id_recv == recv_id
                    && l.created <= tc
                    && l.dropped.map(|d| d >= tc).unwrap_or(true)
                    && !matches!(state_at_drop.get(&l.id.uid).copied(), Some("last-ack") | Some("closed"))
            })
        };
        for (what, r) in &o.after_cancel {
            if let Some(rest) = what.strip_prefix("conn ") {
                let conn: u32 = rest.split(' ').next().and_then(|x| x.parse().ok()).unwrap_or(u32::MAX);
                if !alive_at_cancel(conn) {
                    // ended earlier (e.g. closed by the peer): EOF / its own error is right
                    rep.counters.inc("c08_held_connections_already_ended_before_cancel");
                    continue;
                }
            }
            rep.counters.inc("c08_operations_after_cancel_checked");
            match r {
                Err(e) if e.starts_with("harness:") => rep.violate(P, "cancel", format!("an operation after cancel did not return: {}", what.split(' ').last().unwrap_or("")), format!("{what}: {e}"), Some(tc)),
                Err(_) => {}
                Ok(v) => rep.violate(P, "cancel", format!("an operation after cancel reported success: {}", what.split(' ').last().unwrap_or("")), format!("{what}: Ok({v})"), Some(tc)),
            }
        }
        for e in events {
            if e.t > t2 {
                if let Ev::Send { src, scripted: false, pkt, .. } = &e.ev {
                    if *src == sa {
                        rep.violate(P, "cancel", "the socket emitted a datagram after its cancellation", format!("at {} us: {:?}", e.t, pkt.as_ref().map(|p| (p.ty, p.conn_id))), Some(e.t));
                        break;
                    }
                }
            }
        }
    }
}
