//! Root-cause detectors: short, stable labels describing *why* a connection failed to make
//! progress, computed from the recorded history. Known findings are keyed on these labels, so
//! that one known failure mechanism never hides a different one: a failing case whose history
//! shows none of the known mechanisms is reported as "unexplained" with its symptoms.
use crate::{
    events::{Ev, Event, Fate, Us},
    view::WireView,
    wire,
};

/// Time of the first connection death (error end) in the log, if any.
pub fn first_death(events: &[Event]) -> Option<(Us, String)> {
    for e in events {
        if let Ev::Hook(librqbit_utp::verif::VerifEvent::Death { error: Some(err), .. }) = &e.ev {
            return Some((e.t, err.clone()));
        }
    }
    None
}

pub fn death_errors(events: &[Event]) -> Vec<String> {
    let mut deaths: Vec<String> = Vec::new();
    for e in events {
        if let Ev::Hook(librqbit_utp::verif::VerifEvent::Death { error: Some(err), .. }) = &e.ev {
            let short = err.split(':').next().unwrap_or("").trim().to_string();
            if !deaths.contains(&short) {
                deaths.push(short);
            }
        }
    }
    deaths
}

/// Zero-window stall: at time `t_fail` the last packet the sender of direction `from_init`
/// had received advertised a zero window, and every later packet of the receiver that
/// advertised a larger window was dropped by the network. (There is no persist timer: the
/// sender waits for a window update that the receiver sends exactly once.)
pub fn zero_window_update_lost(view: &WireView, ci: usize, from_init: bool, t_fail: Us) -> bool {
    let conn = &view.conns[ci];
    let peers = conn.dir(!from_init);
    let mut last: Option<(usize, u32)> = None; // (position in peers, wnd)
    for (k, &pi) in peers.iter().enumerate() {
        let p = &view.pkts[pi];
        if let (Some(pk), Some((t, _))) = (&p.pkt, p.recvs.first()) {
            if *t < t_fail && pk.ty != wire::ST_SYN {
                match last {
                    Some((k0, _)) if k0 > k => {}
                    _ => last = Some((k, pk.wnd)),
                }
            }
        }
    }
    let (k_last, wnd) = match last {
        Some(x) => x,
        None => return false,
    };
    if wnd != 0 {
        return false;
    }
    let mut reopen_sent = false;
    for &pi in &peers[k_last + 1..] {
        let p = &view.pkts[pi];
        if p.t >= t_fail {
            break;
        }
        // (a datagram the transport refused never existed on the wire)
        if !p.left_sender() {
            continue;
        }
        if let Some(pk) = &p.pkt {
            if pk.wnd > 0 && pk.ty != wire::ST_FIN {
                reopen_sent = true;
                if !matches!(p.fate, Fate::Drop(_)) {
                    return false; // it is still on its way / was delivered: not this mechanism
                }
            }
        }
    }
    reopen_sent
}

/// Same family, by reordering instead of loss: the last packet the sender was handed before
/// `t_fail` advertises a zero window, but it is *older* than a window-opening packet the sender
/// had been handed before (the network swapped them; both carry the same acknowledgement number,
/// so nothing in the packets tells the sender which is newer). The receiver announced the open
/// window once, the sender ends up believing the window is closed, nothing is in flight, and
/// there is no zero-window probing to find out.
pub fn zero_window_update_overtaken(view: &WireView, ci: usize, from_init: bool, t_fail: Us) -> bool {
    let conn = &view.conns[ci];
    // (time handed to the sender, position in send order, window, ack)
    let mut handed: Vec<(Us, usize, usize, u32, u16)> = Vec::new();
    for (k, &pi) in conn.dir(!from_init).iter().enumerate() {
        let p = &view.pkts[pi];
        if let Some(pk) = &p.pkt {
            if pk.ty == wire::ST_SYN {
                continue;
            }
            for (t, ri) in &p.recvs {
                if *t < t_fail {
                    handed.push((*t, *ri, k, pk.wnd, pk.ack));
                }
            }
        }
    }
    handed.sort();
    // a packet whose acknowledgement number is older than one handed over before it is recognisably
    // stale; the library does not take its window (fix 1f9394c), so it does not count here either
    let mut kept: Vec<(Us, usize, usize, u32, u16)> = Vec::new();
    let mut max_ack: Option<u16> = None;
    for h in &handed {
        match max_ack {
            Some(m) if wire::seq_lt(h.4, m) => continue,
            _ => {}
        }
        max_ack = Some(h.4);
        kept.push(*h);
    }
    let handed = kept;
    let last = match handed.last() {
        Some(x) => *x,
        None => return false,
    };
    if last.3 != 0 {
        return false;
    }
    // an earlier-handed packet that was sent later and opens the window, same acknowledgement
    handed[..handed.len() - 1].iter().any(|h| h.2 > last.2 && h.3 > 0 && h.4 == last.4)
}

/// The sender of direction `from_init` has transmitted data into a window it knew to be zero
/// (the timeout path does that) and has not had new data acknowledged since: it sits in
/// timeout back-off and will only resume when the backed-off timer fires, even if the window
/// re-opened in the meantime. Returns true if that is the sender's situation at time `t`.
pub fn sender_in_zero_window_backoff(view: &WireView, ci: usize, from_init: bool, t: Us) -> bool {
    let conn = &view.conns[ci];
    // merge both directions in log order
    let mut idxs: Vec<(usize, bool)> = conn
        .dir(from_init)
        .iter()
        .map(|i| (*i, true))
        .chain(conn.dir(!from_init).iter().map(|i| (*i, false)))
        .collect();
    idxs.sort();
    let mut last_wnd: Option<u32> = None;
    let mut highest_ack: Option<u16> = None;
    let mut backoff = false;
    // events are (send by me) and (receive by me of a peer packet); order by time of effect
    let mut evs: Vec<(Us, usize, bool)> = Vec::new(); // (time, pkt index, is_my_send)
    for (pi, mine) in idxs {
        let p = &view.pkts[pi];
        if mine {
            evs.push((p.t, pi, true));
        } else if let Some((rt, _)) = p.recvs.first() {
            evs.push((*rt, pi, false));
        }
    }
    evs.sort();
    for (et, pi, mine) in evs {
        if et > t {
            break;
        }
        let p = &view.pkts[pi];
        let pk = match &p.pkt {
            Some(k) => k,
            None => continue,
        };
        if mine {
            if pk.ty == wire::ST_DATA && last_wnd == Some(0) && p.left_sender() {
                backoff = true;
            }
        } else {
            if pk.ty == wire::ST_SYN {
                continue;
            }
            let advanced = match highest_ack {
                Some(h) => wire::seq_lt(h, pk.ack),
                None => true,
            };
            if advanced {
                if highest_ack.is_some() && last_wnd != Some(0) && pk.wnd > 0 {
                    // new data acknowledged while the window is open: timeout mode is over
                    backoff = false;
                }
                highest_ack = Some(pk.ack);
            }
            last_wnd = Some(pk.wnd);
        }
    }
    backoff
}

/// The connection was ended by "max number of retransmissions reached" although the sender's
/// transmissions were going into a window it knew to be zero (the timeout path transmits into a
/// zero window and counts every such transmission as a retransmission of the segment).
pub fn retransmissions_exhausted_into_zero_window(events: &[Event], view: &WireView, ci: usize) -> bool {
    for e in events {
        if let Ev::Hook(librqbit_utp::verif::VerifEvent::Death { id, error: Some(err) }) = &e.ev {
            if err.contains("max number of retransmissions") {
                let conn = &view.conns[ci];
                let from_init = id.local == conn.initiator;
                return sender_in_zero_window_backoff(view, ci, from_init, e.t);
            }
        }
    }
    false
}

/// The receiver refused data the sender was entitled to send: ST_DATA offered to the reassembler
/// came back "unavailable" (no slot) although the sender had never been told a zero window.
/// The reassembly queue is sized in packets (buffer / initial segment size), so a peer sending
/// smaller segments exhausts the slots long before the advertised byte window.
pub fn reassembler_refused_data(events: &[Event], view: &WireView, ci: usize) -> bool {
    let conn = &view.conns[ci];
    let mut refused_at: [Option<Us>; 2] = [None, None]; // index 0: receiver is the acceptor (data from initiator)
    let mut n = [0u32; 2];
    for e in events {
        if let Ev::Hook(librqbit_utp::verif::VerifEvent::RxData { id, outcome, .. }) = &e.ev {
            if *outcome == "unavailable" {
                let k = if id.local == conn.acceptor { 0 } else { 1 };
                n[k] += 1;
                if refused_at[k].is_none() {
                    refused_at[k] = Some(e.t);
                }
            }
        }
    }
    for k in 0..2 {
        if let Some(t) = refused_at[k] {
            // the sender of that direction: initiator for k == 0
            let from_init = k == 0;
            // had the sender seen a zero window before the first refusal?
            let mut saw_zero = false;
            for &pi in conn.dir(!from_init) {
                let p = &view.pkts[pi];
                if let (Some(pk), Some((rt, _))) = (&p.pkt, p.recvs.first()) {
                    if *rt <= t && pk.ty != wire::ST_SYN && pk.wnd == 0 {
                        saw_zero = true;
                    }
                }
            }
            if !saw_zero && n[k] >= 3 {
                return true;
            }
            // later in a connection that did meet a zero window at some point: refusals that happen
            // while the window the sender was last told is open (the refused packets were sent
            // within an advertised, non-zero window)
            let mut told: Vec<(Us, u32)> = Vec::new();
            for &pi in conn.dir(!from_init) {
                let p = &view.pkts[pi];
                if let (Some(pk), Some((rt, _))) = (&p.pkt, p.recvs.first()) {
                    if pk.ty != wire::ST_SYN {
                        told.push((*rt, pk.wnd));
                    }
                }
            }
            told.sort();
            let receiver = if k == 0 { conn.acceptor } else { conn.initiator };
            let mut open_refusals = 0u32;
            for e in events {
                if let Ev::Hook(librqbit_utp::verif::VerifEvent::RxData { id, outcome, .. }) = &e.ev {
                    if *outcome == "unavailable" && id.local == receiver {
                        let i = told.partition_point(|(rt, _)| *rt <= e.t);
                        if i > 0 && told[i - 1].1 > 0 {
                            open_refusals += 1;
                        }
                    }
                }
            }
            if open_refusals >= 3 {
                return true;
            }
        }
    }
    false
}

/// Symptom summary used for unexplained failures.
pub fn symptoms(events: &[Event]) -> String {
    let d = death_errors(events);
    if d.is_empty() {
        "no-connection-death".into()
    } else {
        format!("deaths=[{}]", d.join(","))
    }
}

// ---------------------------------------------------------------------------------------------
// Multi-connection cases: which wire connection is API connection k, and per-connection causes
// ---------------------------------------------------------------------------------------------

/// Lifetime of one connection object, from the hooks.
#[derive(Clone, Debug)]
pub struct VsockLife {
    pub id: librqbit_utp::verif::VsockId,
    pub created: Us,
    pub dropped: Option<Us>,
}

pub fn vsock_lives(events: &[Event]) -> Vec<VsockLife> {
    use librqbit_utp::verif::VerifEvent as V;
    let mut out: Vec<VsockLife> = Vec::new();
    for e in events {
        match &e.ev {
            Ev::Hook(V::VsockCreated { id }) => out.push(VsockLife { id: id.clone(), created: e.t, dropped: None }),
            Ev::Hook(V::VsockDropped { id, .. }) => {
                if let Some(l) = out.iter_mut().rev().find(|l| l.id.uid == id.uid) {
                    l.dropped = Some(e.t);
                }
            }
            _ => {}
        }
    }
    out
}

/// API connection number -> index of the wire connection whose initiator's first payload is that
/// connection's token (multi family).
pub fn token_map(view: &WireView, case_seed: u64) -> std::collections::BTreeMap<u32, usize> {
    let mut m = std::collections::BTreeMap::new();
    for (ci, c) in view.conns.iter().enumerate() {
        for &pi in &c.from_initiator {
            if let Some(p) = &view.pkts[pi].pkt {
                if p.ty == wire::ST_DATA && p.payload.len() >= crate::fam::multi::TOKEN_LEN {
                    if let Some(k) = crate::fam::multi::parse_token(case_seed, &p.payload[..crate::fam::multi::TOKEN_LEN]) {
                        m.entry(k).or_insert(ci);
                    }
                    break;
                }
            }
        }
    }
    m
}

/// The sender `src` re-sent a sequence number of (dst, id) with a different length after the
/// receiving socket had been handed an earlier version - and both versions came from the one
/// connection object on `src` that sends to (dst, id) (so this is a re-cut by one sender, not two
/// connections sharing an id).
pub fn recut_after_delivery(view: &WireView, lives: &[VsockLife], src: std::net::SocketAddr, dst: std::net::SocketAddr, id: u16) -> Option<Us> {
    let unique_sender_at = |t: Us| lives.iter().filter(|l| l.id.local == src && l.id.remote == dst && l.id.conn_id_send == id && l.created <= t && l.dropped.map(|d| d >= t).unwrap_or(true)).count() == 1;
    // seq -> (len, earliest recv of any version, send time of first version)
    let mut seen: std::collections::BTreeMap<u16, (usize, Option<Us>, Us)> = std::collections::BTreeMap::new();
    for wp in &view.pkts {
        if wp.scripted || wp.src != src || wp.dst != dst {
            continue;
        }
        let p = match &wp.pkt {
            Some(p) if p.ty == wire::ST_DATA && p.conn_id == id => p,
            _ => continue,
        };
        let recv_t = wp.recvs.first().map(|r| r.0);
        match seen.get_mut(&p.seq) {
            None => {
                seen.insert(p.seq, (p.payload.len(), recv_t, wp.t));
            }
            Some((len, first_recv, t0)) => {
                if *len != p.payload.len() {
                    if let Some(r) = *first_recv {
                        // (only the known mechanism: everything before the probe acknowledged to the sender)
                        let acked = view
                            .pkts
                            .iter()
                            .filter(|q| !q.scripted && q.src == dst && q.dst == src)
                            .filter_map(|q| {
                                let pk = q.pkt.as_ref()?;
                                let t = q.recvs.first()?.0;
                                if t <= wp.t && pk.ty != wire::ST_SYN && (pk.conn_id == id.wrapping_sub(1) || pk.conn_id == id.wrapping_add(1)) && wire::seq_diff(pk.ack, p.seq.wrapping_sub(1)) >= 0 && wire::seq_diff(pk.ack, p.seq.wrapping_sub(1)) < 1000 {
                                    Some(())
                                } else {
                                    None
                                }
                            })
                            .next()
                            .is_some();
                        // (the earlier version may also reach the receiver after the re-cut was sent - a
                        // straggler - and meet the pieces of the new version there: same mechanism)
                        let _ = r;
                        if acked && view.probe_expired_within(src, dst, id, *t0, wp.t) && unique_sender_at(*t0) && unique_sender_at(wp.t) {
                            return Some(wp.t);
                        }
                    }
                    *len = p.payload.len();
                }
                *first_recv = match (*first_recv, recv_t) {
                    (Some(a), Some(b)) => Some(a.min(b)),
                    (a, b) => a.or(b),
                };
            }
        }
    }
    None
}

/// Known root causes for API connection `conn`, reader on `side` (multi family): only the
/// same-connection MTU-probe re-cut applies there (buffers are default-sized, readers greedy).
pub fn multi_cause(view: &WireView, lives: &[VsockLife], tokens: &std::collections::BTreeMap<u32, usize>, conn: u32, side: usize) -> &'static str {
    let ci = match tokens.get(&conn) {
        Some(ci) => *ci,
        None => return "none",
    };
    let c = &view.conns[ci];
    // reader on side 0 is the initiator: receives from the acceptor on id c; side 1 receives on c+1
    let (src, dst, id) = if side == 0 { (c.acceptor, c.initiator, c.c) } else { (c.initiator, c.acceptor, c.c.wrapping_add(1)) };
    if recut_after_delivery(view, lives, src, dst, id).is_some() {
        "probe-resegmented-after-delivery"
    } else {
        "none"
    }
}

/// The silence that began at `t` was ended by the sender (direction `from_init`) transmitting,
/// for the first time, a segment longer than the non-zero window it had last been told - with
/// everything earlier acknowledged. Segments are cut ahead of transmission for the window in
/// force at that moment and are not cut again when the window shrinks (the repository pins this
/// in stream_dispatch/tests/flow_control.rs with a TODO); the segment then leaves through the
/// timeout path only.
pub fn silence_ended_by_segment_larger_than_window(view: &WireView, ci: usize, from_init: bool, t: Us) -> bool {
    let conn = &view.conns[ci];
    let mut evs: Vec<(Us, usize, bool)> = Vec::new();
    for pi in conn.dir(from_init) {
        evs.push((view.pkts[*pi].t, *pi, true));
    }
    for pi in conn.dir(!from_init) {
        if let Some((rt, _)) = view.pkts[*pi].recvs.first() {
            evs.push((*rt, *pi, false));
        }
    }
    evs.sort();
    let mut last_wnd: Option<u32> = None;
    let mut last_ack: Option<u16> = None;
    let mut wnd_during_silence: Option<u32> = None;
    let mut ack_during_silence: Option<u16> = None;
    let mut sent: std::collections::BTreeSet<u16> = Default::default();
    let mut highest_sent: Option<u16> = None;
    for (et, pi, mine) in evs {
        let p = &view.pkts[pi];
        let pk = match &p.pkt {
            Some(k) => k,
            None => continue,
        };
        if !mine {
            if pk.ty != wire::ST_SYN {
                last_wnd = Some(pk.wnd);
                last_ack = Some(pk.ack);
                if et <= t {
                    wnd_during_silence = Some(pk.wnd);
                    ack_during_silence = Some(pk.ack);
                }
            }
            continue;
        }
        if pk.ty != wire::ST_DATA {
            continue;
        }
        let first_tx = sent.insert(pk.seq);
        if et > t {
            // the same thing seen from the start of the silence: the window the sender had been
            // told when it fell silent was non-zero and smaller than its next never-sent segment,
            // everything earlier was acknowledged - and what ended the silence was a packet of the
            // peer that carried a larger window (not an acknowledgement of anything new)
            let all_acked_then = match (highest_sent, ack_during_silence) {
                (Some(h), Some(a)) => !wire::seq_lt(a, h),
                (None, _) => true,
                _ => false,
            };
            if first_tx && all_acked_then && matches!(wnd_during_silence, Some(w) if w > 0 && (pk.payload.len() as u32) > w) {
                return true;
            }
            // the first data transmission after the start of the silence decides (what was sent at
            // the very instant the silence begins belongs to the activity before it)
            let all_acked = match (highest_sent, last_ack) {
                (Some(h), Some(a)) => !wire::seq_lt(a, h),
                (None, _) => true,
                _ => false,
            };
            return first_tx && all_acked && matches!(last_wnd, Some(w) if w > 0 && (pk.payload.len() as u32) > w);
        }
        if first_tx {
            highest_sent = Some(pk.seq);
        }
    }
    false
}

/// A connection ended (final hooked state) with nothing in flight, a non-zero remote window, and
/// its first never-sent segment longer than that window: pre-cut for a larger window, never cut
/// again (see silence_ended_by_segment_larger_than_window), and with nothing in flight no timer
/// is left to push it out.
pub fn ended_with_unsent_segment_larger_than_window(events: &[Event]) -> bool {
    for e in events {
        if let Ev::Hook(librqbit_utp::verif::VerifEvent::VsockDropped { snap, .. }) = &e.ev {
            if snap.flight_size == 0 && snap.last_remote_window > 0 {
                if let Some(s) = snap.segments.segs.iter().find(|s| s.send_count == 0 && !s.is_delivered) {
                    if s.payload_size as u32 > snap.last_remote_window {
                        return true;
                    }
                }
            }
        }
    }
    false
}

/// Intervals (start, until) during which the transport of `addr` refused to take datagrams (the
/// send call returned Pending: a full UDP send buffer). Nothing can be emitted in such an interval;
/// what is owed at an instant inside one is owed at its end.
pub fn blocked_intervals(events: &[Event], addr: std::net::SocketAddr) -> Vec<(Us, Us)> {
    let prefix = format!("transport blocked: {addr} until ");
    let mut v = Vec::new();
    for e in events {
        if let Ev::Note(n) = &e.ev {
            if let Some(rest) = n.strip_prefix(&prefix) {
                if let Ok(u) = rest.trim().parse::<Us>() {
                    v.push((e.t, u));
                }
            }
        }
    }
    v
}

/// The instant at which something owed at `t` can first be emitted.
pub fn unblocked_at(blocked: &[(Us, Us)], t: Us) -> Us {
    let mut t = t;
    loop {
        match blocked.iter().find(|(s, u)| *s <= t && t < *u) {
            Some((_, u)) => t = *u,
            None => return t,
        }
    }
}

/// An endpoint ended with "remote was inactive for too long" while the last thing it had told its
/// peer was that its own receive window is closed: the peer, with everything acknowledged and no
/// zero-window probing, had nothing it was allowed to send, and the endpoint's slow reader did not
/// re-open the window within the inactivity limit. The endpoint kills a connection whose silence it
/// imposed itself (same design gap as the other zero-window findings: no persist timer).
pub fn own_zero_window_outlasted_inactivity_limit(events: &[Event], view: &WireView) -> bool {
    for e in events {
        let (id, err) = match &e.ev {
            Ev::Hook(librqbit_utp::verif::VerifEvent::Death { id, error: Some(err) }) => (id, err),
            _ => continue,
        };
        if !err.contains("inactive") {
            continue;
        }
        // the last datagram that left this endpoint for this peer before it died
        let last = view
            .pkts
            .iter()
            .filter(|p| !p.scripted && p.src == id.local && p.dst == id.remote && p.t < e.t && p.left_sender())
            .filter(|p| p.pkt.as_ref().map(|k| k.conn_id == id.conn_id_send).unwrap_or(false))
            .last();
        if let Some(p) = last {
            if let Some(k) = &p.pkt {
                if k.wnd == 0 && k.ty != wire::ST_SYN {
                    // and nothing reached it from the peer after that
                    let heard = view.pkts.iter().any(|q| q.src == id.remote && q.dst == id.local && q.recvs.iter().any(|(rt, _)| *rt > p.t && *rt < e.t));
                    if !heard {
                        return true;
                    }
                }
            }
        }
    }
    false
}
