//! C13: connect/accept pair up one-to-one, in order, with a bounded backlog.
//!
//! Oracles over one `accept` case:
//!  * pairing   - every successful connect got exactly one accepted stream and the two are wired to
//!                each other (the connector reads back its own token, written by the stream that
//!                read it); no token is seen on two accepted streams;
//!  * fifo      - connection objects are created for incoming SYNs in the order the SYNs were
//!                handed to the socket (hooks vs wire), whatever the timing of accept calls;
//!  * backlog   - never more than 32 SYNs retained (hooked table); a SYN that arrives with 32
//!                retained and nobody accepting is answered by exactly one RESET carrying the SYN's
//!                connection id and acknowledging its sequence number, and never becomes a stream;
//!                a SYN that arrives with room is never reset;
//!  * duplicate - copies of one SYN yield one connection object while that one is alive / queued;
//!  * abandoned - after accept / connect futures were dropped mid-call, later connects succeed
//!                (nothing they reserved is still held);
//!  * slot-wait - with the connection limit reached, the waiting accept completes within one step
//!                of the slot's release.
use std::{
    collections::{BTreeMap, BTreeSet},
    net::SocketAddr,
};

use librqbit_utp::verif::VerifEvent as V;

use crate::{
    events::{ApiOp, Ev, Event, Us, MS},
    fam::accept::{listener_addr, AcceptCfg, AcceptOutcome, Shape},
    verdict::CaseReport,
    wire,
};

const P: &str = "C13";
pub const BACKLOG: usize = 32;

pub fn check(rep: &mut CaseReport, events: &[Event], cfg: &AcceptCfg, out: Option<&AcceptOutcome>) {
    let la = listener_addr();

    // ---- pairing ----
    if let Some(o) = out {
        let mut tokens_seen: BTreeMap<u32, u32> = BTreeMap::new();
        for (_, (_, _, tok)) in &o.accepts {
            if let Some(c) = tok {
                *tokens_seen.entry(*c).or_default() += 1;
            }
        }
        for (c, n) in &tokens_seen {
            if *n > 1 {
                rep.violate(P, "pairing", "one connect's token arrived on two accepted streams", format!("connect {c}: {n} accepted streams read its token"), None);
            }
        }
        for (c, r) in &o.connects {
            rep.counters.inc("c13_connects_judged");
            if r.error.is_none() && r.returned_at.is_some() {
                rep.counters.inc("c13_successful_connects");
                match r.echo {
                    Some((true, idx)) => {
                        // the accepted stream that answered must be the one that read this token
                        match o.accepts.get(&idx) {
                            Some((_, _, Some(t))) if t == c => {}
                            other => rep.violate(P, "pairing", "the echo came from a stream that did not read this connect's token", format!("connect {c}: echo names accept #{idx}, which recorded {:?}", other.map(|a| a.2)), None),
                        }
                    }
                    Some((false, idx)) => rep.violate(P, "pairing", "a connector read back somebody else's token", format!("connect {c}: accept #{idx} echoed a different token"), None),
                    None => {
                        // the connect succeeded but no accepted stream ever answered it
                        if tokens_seen.contains_key(c) {
                            rep.violate(P, "pairing", "the accepted stream read the token but its echo never arrived", format!("connect {c}"), None);
                        } else if cfg.shape != Shape::Backlog {
                            // (Backlog: a successful connect may sit in the queue past the end of the case)
                            rep.violate(P, "pairing", "a successful connect was never matched by an accepted stream", format!("connect {c}: returned Ok at {:?}, no accepted stream read its token", r.returned_at), None);
                        } else {
                            rep.counters.inc("c13_connects_still_queued_at_the_end");
                        }
                    }
                }
            } else if r.must_succeed {
                rep.violate(
                    P,
                    "abandoned",
                    format!("a connect that nothing stood in the way of failed: {}", r.error.clone().unwrap_or_else(|| "never returned".into())),
                    format!("connect {c} called at {} us ({:?})", r.called_at, cfg.shape),
                    r.returned_at,
                );
            }
        }
        rep.counters.add("c13_accepted_streams", o.accepts.len() as u64);
        rep.counters.add("c13_accepted_streams_with_token", tokens_seen.len() as u64);
    }

    // ---- walk the log: SYN arrivals, table state, connection objects, resets ----
    // datagram id -> (src, pkt fields) for SYNs to the listener and RESETs from it
    let mut syn_dgrams: BTreeMap<u64, (SocketAddr, u16, u16)> = BTreeMap::new();
    let mut last_table: Option<(usize, bool, usize, usize)> = None; // cached, parked, streams, limit
    // arrival order of distinct SYN identities
    let mut arrivals: Vec<(SocketAddr, u16, u16)> = Vec::new();
    let mut arrival_pos: BTreeMap<(SocketAddr, u16, u16), usize> = BTreeMap::new();
    // per SYN copy handed over: (identity, time, cached at that moment, parked acceptor, table full)
    let mut copies: Vec<((SocketAddr, u16, u16), Us, usize, bool, bool)> = Vec::new();
    // resets emitted by the listener: (time, dst, conn id, ack)
    let mut resets: Vec<(Us, SocketAddr, u16, u16)> = Vec::new();
    // incoming connection objects: (time, remote, syn id, uid)
    let mut created: Vec<(Us, SocketAddr, u16, u64)> = Vec::new();
    let mut dropped: BTreeMap<u64, Us> = BTreeMap::new();
    let mut accepting_started: Option<Us> = None;
    let mut accept_calls_open: i64 = 0;
    let mut max_cached = 0usize;
    for e in events {
        match &e.ev {
            Ev::Send { id, src, dst, pkt: Some(p), .. } => {
                if *dst == la && p.ty == wire::ST_SYN {
                    syn_dgrams.insert(*id, (*src, p.conn_id, p.seq));
                }
                if *src == la && p.ty == wire::ST_RESET {
                    resets.push((e.t, *dst, p.conn_id, p.ack));
                }
            }
            Ev::Hook(V::SocketTables { local, cached_syns, acceptor_parked, streams, limit, .. }) if *local == la => {
                max_cached = max_cached.max(*cached_syns);
                if *cached_syns > BACKLOG {
                    rep.violate(P, "backlog", "more than 32 unaccepted SYNs retained", format!("{} retained at {} us", cached_syns, e.t), Some(e.t));
                }
                last_table = Some((*cached_syns, *acceptor_parked, streams.len(), *limit));
            }
            Ev::Recv { id, dst } if *dst == la => {
                if let Some(ident) = syn_dgrams.get(id) {
                    if !arrival_pos.contains_key(ident) {
                        arrival_pos.insert(*ident, arrivals.len());
                        arrivals.push(*ident);
                    }
                    let (cached, parked, n, lim) = last_table.unwrap_or((0, false, 0, usize::MAX));
                    copies.push((*ident, e.t, cached, parked || accept_calls_open > 0, n >= lim));
                }
            }
            Ev::Hook(V::VsockCreated { id }) if id.local == la && id.incoming => {
                created.push((e.t, id.remote, id.conn_id_send, id.uid));
            }
            Ev::Hook(V::VsockDropped { id, .. }) if id.local == la => {
                dropped.insert(id.uid, e.t);
            }
            Ev::Api { conn, op, .. } if *conn >= 4_000_000 && *conn < 6_000_000 => match op {
                ApiOp::AcceptCall => accept_calls_open += 1,
                ApiOp::AcceptRet(_) | ApiOp::Cancelled("accept") => accept_calls_open -= 1,
                _ => {}
            },
            Ev::Note(n) if n == "accepting starts" => accepting_started = Some(e.t),
            _ => {}
        }
    }
    rep.counters.max("max_c13_syns_retained", max_cached as u64);
    rep.counters.add("c13_syn_datagrams_handed_to_listener", copies.len() as u64);
    rep.counters.add("c13_distinct_syns", arrivals.len() as u64);

    // a connection object that was created for a dead acceptor is dropped on the spot and the SYN
    // goes back to the head of the queue: only the last object per SYN counts
    let mut effective: Vec<(Us, SocketAddr, u16, u64)> = Vec::new();
    for c in &created {
        let instant_drop = dropped.get(&c.3).map(|d| *d == c.0).unwrap_or(false);
        if instant_drop {
            rep.counters.inc("c13_objects_created_for_a_dead_acceptor");
            continue;
        }
        effective.push(*c);
    }

    // ---- fifo ----
    let mut last_pos: Option<(usize, (SocketAddr, u16))> = None;
    let mut seqs_of: BTreeMap<(SocketAddr, u16), Vec<u16>> = BTreeMap::new();
    for a in &arrivals {
        seqs_of.entry((a.0, a.1)).or_default().push(a.2);
    }
    let mut seen_ident: BTreeSet<(SocketAddr, u16)> = BTreeSet::new();
    for (t, remote, syn_id, uid) in &effective {
        if !seen_ident.insert((*remote, *syn_id)) {
            // a later copy of a SYN whose first connection has ended (duplicate rule): no order to judge
            continue;
        }
        rep.counters.inc("c13_incoming_objects_checked_for_order");
        // position of this SYN in arrival order (first identity with that (remote, id))
        let pos = arrivals.iter().position(|a| a.0 == *remote && a.1 == *syn_id);
        let pos = match pos {
            Some(p) => p,
            None => {
                rep.violate(P, "fifo", "a connection object was created for a SYN that never arrived", format!("uid {uid} at {t} us: remote {remote} id {syn_id}"), Some(*t));
                continue;
            }
        };
        if let Some((lp, lk)) = last_pos {
            if pos < lp {
                rep.violate(
                    P,
                    "fifo",
                    "a later SYN was turned into a connection before an earlier one",
                    format!("SYN ({remote}, {syn_id}) arrived at position {pos} but became a connection (uid {uid}, {t} us) after ({}, {}) of position {lp}", lk.0, lk.1),
                    Some(*t),
                );
            }
        }
        if last_pos.map(|(lp, _)| pos >= lp).unwrap_or(true) {
            last_pos = Some((pos, (*remote, *syn_id)));
        }
    }

    // ---- duplicate ----
    let mut by_syn: BTreeMap<(SocketAddr, u16), Vec<(Us, u64)>> = BTreeMap::new();
    for (t, remote, syn_id, uid) in &effective {
        by_syn.entry((*remote, *syn_id)).or_default().push((*t, *uid));
    }
    for (k, v) in &by_syn {
        for w in v.windows(2) {
            let first_gone = dropped.get(&w[0].1).copied();
            // a second object while the first is alive is a second stream for one request
            if first_gone.map(|d| d > w[1].0).unwrap_or(true) {
                rep.violate(P, "duplicate", "copies of one SYN produced two live connection objects", format!("SYN ({}, {}): uid {} at {} us and uid {} at {} us", k.0, k.1, w[0].1, w[0].0, w[1].1, w[1].0), Some(w[1].0));
            } else {
                rep.counters.inc("c13_syn_copy_after_first_connection_ended");
            }
        }
    }
    let dup_copies = copies.len().saturating_sub(arrivals.len());
    rep.counters.add("c13_duplicate_syn_copies_seen", dup_copies as u64);

    // ---- backlog: who must be reset, who must not ----
    // Decidable exactly while nobody accepts (before "accepting starts", no abandoned accepts in flight).
    let mut resets_left = resets.clone();
    for (ci, (ident, t, cached, acceptor_around, _full)) in copies.iter().enumerate() {
        let nobody_accepting = !*acceptor_around && accepting_started.map(|s| *t < s).unwrap_or(true) && cfg.cancelled_accepts.is_none() && cfg.instant_abandons.is_none();
        if !nobody_accepting {
            continue;
        }
        // a copy of a SYN that is already queued / connected is not a new request; the code treats
        // a queued duplicate as another entry, so only first copies are judged for "must be reset"
        let first_copy = !copies[..ci].iter().any(|c| c.0 == *ident);
        rep.counters.inc("c13_syn_arrivals_judged_for_backlog");
        let answered: Vec<usize> = resets_left.iter().enumerate().filter(|(_, r)| r.1 == ident.0 && r.2 == ident.1 && r.0 == *t).map(|(i, _)| i).collect();
        // a copy of a request that is already retained (an earlier copy found room) is not a new request:
        // it is neither queued again nor refused
        let twin_retained = copies[..ci].iter().any(|c| c.0 == *ident && c.2 < BACKLOG);
        if twin_retained {
            rep.counters.inc("c13_copies_of_a_retained_syn");
            if !answered.is_empty() {
                rep.violate(P, "backlog", "a copy of a SYN that is retained in the backlog was refused with a RESET", format!("SYN ({}, {}) copy at {} us, {} retained", ident.0, ident.1, t, cached), Some(*t));
            }
            continue;
        }
        if *cached >= BACKLOG {
            rep.counters.inc("c13_syns_arriving_at_a_full_backlog");
            match answered.first() {
                Some(i) => {
                    let r = resets_left.remove(*i);
                    if r.3 != ident.2 {
                        rep.violate(P, "backlog", "the RESET refusing a SYN does not acknowledge the SYN's sequence number", format!("SYN ({}, {}, seq {}) answered with ack {}", ident.0, ident.1, ident.2, r.3), Some(r.0));
                    }
                }
                None => rep.violate(P, "backlog", "a SYN that arrived with the backlog full was not refused with a RESET", format!("SYN ({}, {}, seq {}) at {} us, {} retained", ident.0, ident.1, ident.2, t, cached), Some(*t)),
            }
            if first_copy && effective.iter().any(|c| c.1 == ident.0 && c.2 == ident.1) && !copies.iter().any(|c| c.0 == *ident && c.2 < BACKLOG) {
                rep.violate(P, "backlog", "a SYN refused with a RESET became a stream all the same", format!("SYN ({}, {})", ident.0, ident.1), Some(*t));
            }
        } else if !answered.is_empty() {
            rep.violate(P, "backlog", "a SYN that arrived with room in the backlog was refused with a RESET", format!("SYN ({}, {}) at {} us, {} retained", ident.0, ident.1, t, cached), Some(*t));
        }
    }
    // every RESET the listener emitted must answer some SYN copy that arrived at a full backlog
    for r in &resets {
        rep.counters.inc("c13_resets_emitted");
        let justified = copies.iter().any(|(ident, t, cached, _, _)| ident.0 == r.1 && ident.1 == r.2 && r.0 == *t && *cached >= BACKLOG) || cfg.cancelled_accepts.is_some() || cfg.instant_abandons.is_some();
        if !justified {
            rep.violate(P, "backlog", "the listener emitted a RESET that refuses no SYN arriving at a full backlog", format!("RESET to {} id {} ack {} at {} us", r.1, r.2, r.3, r.0), Some(r.0));
        }
    }
    // Backlog shape: exactly the first 32 requests are served, in order (fifo rule), once accepting starts
    if cfg.shape == Shape::Backlog {
        if let Some(s) = accepting_started {
            let queued_before: Vec<_> = copies.iter().filter(|c| c.1 < s && c.2 < BACKLOG).collect();
            let served = effective.len();
            rep.counters.add("c13_backlog_requests_queued", queued_before.len() as u64);
            rep.counters.add("c13_backlog_requests_served", served as u64);
            // every queued request (first copies) must have been turned into a connection by the end
            let mut want: BTreeSet<(SocketAddr, u16)> = BTreeSet::new();
            for c in &queued_before {
                want.insert((c.0 .0, c.0 .1));
            }
            for w in &want {
                if !effective.iter().any(|c| c.1 == w.0 && c.2 == w.1) {
                    rep.violate(P, "backlog", "a SYN retained in the backlog was never handed to an accept call", format!("SYN ({}, {}); accepting started at {} us", w.0, w.1, s), None);
                }
            }
        }
    }

    // ---- abandoned accepts must not have completed ----
    for e in events {
        if let Ev::Note(n) = &e.ev {
            if n == "an accept that was meant to be abandoned completed" {
                // legal (a SYN can arrive within the 5 ms), but the stream is then dropped by the harness; not judged
                rep.counters.inc("c13_abandoned_accept_completed_first");
            }
        }
    }
    if cfg.cancelled_accepts.is_some() || cfg.instant_abandons.is_some() {
        rep.counters.inc("c13_cases_with_abandoned_accepts");
    }
    if cfg.hanging_connects.is_some() {
        rep.counters.inc("c13_cases_with_abandoned_connects");
    }
    if cfg.early_connect.is_some() {
        rep.counters.inc("c13_cases_with_a_connect_pending_while_others_are_abandoned");
    }
    if cfg.client_id_base.is_some() {
        rep.counters.inc("c13_cases_with_equal_ids_from_different_addresses");
    }

    // ---- slot-wait ----
    if let (Some((m, _)), Some(o)) = (cfg.limit, out) {
        if let Some((t_app, _)) = o.limit_release {
            // the listener-side object of the released connection ends some time after the application
            // let go; the slot is released when its table entry goes. The waiting request is the SYN
            // that arrived at a full table.
            let waiting = copies.iter().find(|c| c.4);
            // time the table entry count dropped below the limit after t_app
            let mut t_slot: Option<Us> = None;
            let mut prev_full = false;
            for e in events {
                if let Ev::Hook(V::SocketTables { local, streams, limit, .. }) = &e.ev {
                    if *local == la {
                        let full = streams.len() >= *limit;
                        if e.t >= t_app && prev_full && !full && t_slot.is_none() {
                            t_slot = Some(e.t);
                        }
                        prev_full = full;
                    }
                }
            }
            if let (Some(w), Some(ts)) = (waiting, t_slot) {
                rep.counters.inc("c13_slot_waits_checked");
                let obj = effective.iter().find(|c| c.1 == w.0 .0 && c.2 == w.0 .1);
                match obj {
                    Some(c) if c.0 <= ts + 2 * MS => {
                        rep.counters.max("max_c13_us_from_slot_release_to_accept", c.0.saturating_sub(ts));
                    }
                    Some(c) => rep.violate(P, "slot-wait", "the waiting accept completed late after the slot was released", format!("slot free at {ts} us, connection object for the waiting SYN at {} us (limit {m})", c.0), Some(c.0)),
                    None => rep.violate(P, "slot-wait", "the waiting accept never completed after the slot was released", format!("slot free at {ts} us (limit {m}), SYN ({}, {}) waiting since {} us", w.0 .0, w.0 .1, w.1), Some(ts)),
                }
            } else {
                rep.counters.inc("c13_slot_wait_not_observed");
            }
        }
    }
}
