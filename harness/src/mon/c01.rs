//! C01 byte-stream integrity oracles.
//!
//! (1) boundary: reader mismatch against the generator; bytes read never exceed bytes the
//!     peer's write accepted so far (checked at every read return, in log order);
//! (2) wire: every ST_DATA emitted by a real endpoint carries the generator's bytes at the
//!     offset implied by the lengths of the preceding sequence numbers; a sequence number's
//!     payload never changes between transmissions, except that a never-acknowledged size
//!     probe may be re-sent shorter (prefix), in which case the next sequence number
//!     continues where the shorter one ends; no sequence number is skipped;
//! (3) snapshot cross-checks of the byte accounting, when snapshots are recorded.
use std::collections::BTreeMap;

use librqbit_utp::verif::VerifEvent;

use crate::{
    app::gen_check,
    events::{ApiOp, Ev, Event},
    verdict::CaseReport,
    view::{SeqUnwrap, WireView},
    wire,
};

pub const P: &str = "C01";

/// Boundary oracle for one direction: `wside` writes on connection `conn`, the other side reads.
pub fn check_boundary(
    rep: &mut CaseReport,
    events: &[Event],
    conn: u32,
    wside: u8,
    wire: &WireDirResult,
) {
    let rside = 1 - wside;
    // A stream corrupted after the sender re-cut a sequence number that the receiver already
    // held is one specific, known failure; anything else is reported under its own signature.
    let cause = |t: u64| match wire.resegmented_after_delivery_at {
        Some(t0) if t0 <= t => " cause=probe-resegmented-after-delivery",
        _ => "",
    };
    let mut accepted: u64 = 0;
    let mut read: u64 = 0;
    for e in events {
        if let Ev::Api { conn: c, side, op } = &e.ev {
            if *c != conn {
                continue;
            }
            match op {
                ApiOp::WriteRet(Ok(n)) if *side == wside => accepted += *n as u64,
                ApiOp::ReadRet(Ok(n)) if *side == rside && *n > 0 => {
                    read += *n as u64;
                    rep.counters.inc("c01_reads_checked");
                    if read > accepted {
                        rep.violate(
                            P,
                            "read-beyond-written",
                            format!("stream{}", cause(e.t)),
                            format!("reader has {read} bytes but the peer's write accepted only {accepted} so far"),
                            Some(e.t),
                        );
                    }
                }
                _ => {}
            }
        }
        if let Ev::Note(s) = &e.ev {
            if let Some(rest) = s.strip_prefix("MISMATCH ") {
                if rest.starts_with(&format!("conn={conn} side={rside} ")) {
                    rep.violate(
                        P,
                        "content-mismatch",
                        format!("stream{}", cause(e.t)),
                        format!("bytes read are not what the peer wrote: {rest}"),
                        Some(e.t),
                    );
                }
            }
        }
    }
    rep.counters.add("c01_bytes_read_checked", read);
}

#[derive(Clone, Debug)]
struct SeqInfo {
    offset: u64,
    len: usize,
    transmissions: u32,
    /// earliest time a copy of any earlier version was handed to the receiving socket
    first_recv: Option<u64>,
    /// time of the latest transmission so far
    last_tx: u64,
}

#[derive(Clone, Debug, Default)]
pub struct WireDirResult {
    /// Time at which the sender re-cut (sent with a different length) a sequence number of which
    /// the receiving socket had already been handed an earlier version.
    pub resegmented_after_delivery_at: Option<u64>,
}

/// Wire oracle for one direction of one connection. `key` is the generator key of the bytes the
/// sender's application writes.
pub fn check_wire_dir(
    rep: &mut CaseReport,
    view: &WireView,
    ci: usize,
    from_initiator: bool,
    key: u64,
    label: &str,
) -> WireDirResult {
    let mut res = WireDirResult::default();
    let conn = &view.conns[ci];
    let first = match conn.first_data_seq(from_initiator) {
        Some(s) => s,
        None => return res,
    };
    // Once the endpoint has emitted its own FIN, sequence numbers at or above it no longer
    // address stream bytes (what may or may not follow a FIN is C17's business, not C01's).
    let mut fin_idx: Option<i64> = None;
    let mut unwrap = SeqUnwrap::new(first);
    let mut known: BTreeMap<i64, SeqInfo> = BTreeMap::new();
    let mut max_idx: i64 = -1;
    // cumulative acknowledgements as the sender was handed them: (time, index acknowledged)
    let acks_seen: Vec<(u64, i64)> = conn
        .dir(!from_initiator)
        .iter()
        .filter_map(|pi| {
            let q = &view.pkts[*pi];
            let pk = q.pkt.as_ref()?;
            if pk.ty == wire::ST_SYN {
                return None;
            }
            let t = q.recvs.first()?.0;
            Some((t, wire::seq_diff(pk.ack, first) as i64))
        })
        .collect();
    // highest index cumulatively acknowledged by the peer (from packets the peer emitted;
    // conservative: emitted, not necessarily processed)
    for &pi in conn.dir(from_initiator) {
        let wp = &view.pkts[pi];
        if wp.scripted {
            continue;
        }
        let p = match &wp.pkt {
            Some(p) if p.ty == wire::ST_DATA => p,
            Some(p) if p.ty == wire::ST_FIN => {
                if fin_idx.is_none() {
                    fin_idx = Some(unwrap.peek(p.seq));
                }
                continue;
            }
            _ => continue,
        };
        let idx = unwrap.peek(p.seq);
        if let Some(f) = fin_idx {
            if idx >= f {
                rep.counters.inc("c01_wire_data_after_own_fin_not_judged");
                continue;
            }
        }
        let recv_t = wp.recvs.first().map(|r| r.0);
        if idx < 0 {
            rep.violate(
                P,
                "wire-seq-before-first",
                label.to_string(),
                format!("ST_DATA seq={} precedes the first data sequence number {}", p.seq, first),
                Some(wp.t),
            );
            continue;
        }
        rep.counters.inc("c01_wire_data_packets_checked");
        if let Some(info) = known.get_mut(&idx) {
            info.transmissions += 1;
            let prev_tx = info.last_tx;
            info.last_tx = wp.t;
            if p.payload.len() == info.len {
                // same length: must be same bytes (checked against the generator below)
            } else if idx == max_idx {
                // permitted: the newest segment was an unacknowledged size probe that was taken
                // back and cut again (shorter after a failed probe; it can also come back longer
                // when the proven size grew in the meantime)
                // the library's report that the probe timed out lies between the last transmission
                // of the old version and this one (the pieces leave when the windows allow)
                let expiry_reported = view.probe_expired_within(wp.src, wp.dst, p.conn_id, prev_tx, wp.t);
                if !expiry_reported {
                    rep.counters.inc("c01_recuts_of_a_transmitted_probe_without_expiry_report");
                }
                if p.payload.len() < info.len {
                    rep.counters.inc("c01_probe_splits_seen");
                } else {
                    rep.counters.inc("c01_probe_recut_longer_seen");
                }
                // (an earlier version that reaches the receiver at any time counts: a straggler of
                // the old probe can arrive after the re-cut was sent and meet its pieces there)
                if let Some(_t0) = info.first_recv {
                    if res.resegmented_after_delivery_at.is_none() {
                        // The known mechanism: the probe itself timed out - it was the oldest
                        // unacknowledged segment, everything before it had been acknowledged to
                        // the sender. A probe taken back while earlier data is still outstanding
                        // (somebody else's timeout blamed on the probe) is a different defect and
                        // is not attributed to the known cause.
                        let acked_to_sender = acks_seen.iter().filter(|(t, _)| *t <= wp.t).map(|(_, a)| *a).max().unwrap_or(-1);
                        // ... and the library itself reports, at this instant, that the probe
                        // timed out and was taken back (hook): a probe taken back for any other
                        // reason is not the known mechanism either
                        if acked_to_sender >= idx - 1 && expiry_reported {
                            res.resegmented_after_delivery_at = Some(wp.t);
                            rep.counters.inc("c01_resegmented_after_delivery");
                        } else {
                            rep.counters.inc("c01_resegmented_with_earlier_data_outstanding");
                        }
                    }
                }
                info.len = p.payload.len();
            } else {
                rep.violate(
                    P,
                    "wire-length-changed",
                    label.to_string(),
                    format!(
                        "seq={} was sent with {} bytes, now with {} bytes (newest={})",
                        p.seq,
                        info.len,
                        p.payload.len(),
                        idx == max_idx
                    ),
                    Some(wp.t),
                );
                continue;
            }
            info.first_recv = match (info.first_recv, recv_t) {
                (Some(a), Some(b)) => Some(a.min(b)),
                (a, b) => a.or(b),
            };
            let off = info.offset;
            if let Some((o, want, got)) = gen_check(key, off, &p.payload) {
                rep.violate(
                    P,
                    "wire-content",
                    label.to_string(),
                    format!(
                        "retransmission of seq={} (stream offset {off}, {} bytes) differs at offset {o}: want {want} got {got}",
                        p.seq,
                        p.payload.len()
                    ),
                    Some(wp.t),
                );
            }
        } else {
            if idx != max_idx + 1 {
                rep.violate(
                    P,
                    "wire-seq-skipped",
                    label.to_string(),
                    format!(
                        "first transmission of seq={} (index {idx}) but the highest sequence number sent before has index {max_idx}",
                        p.seq
                    ),
                    Some(wp.t),
                );
                // cannot place it in the stream; stop judging this direction
                return res;
            }
            let _ = unwrap.index(p.seq);
            let offset = if idx == 0 {
                0
            } else {
                let prev = &known[&(idx - 1)];
                prev.offset + prev.len as u64
            };
            if let Some((o, want, got)) = gen_check(key, offset, &p.payload) {
                rep.violate(
                    P,
                    "wire-content",
                    label.to_string(),
                    format!(
                        "seq={} should carry stream bytes {}..{} but differs at offset {o}: want {want} got {got}",
                        p.seq,
                        offset,
                        offset + p.payload.len() as u64
                    ),
                    Some(wp.t),
                );
            }
            known.insert(
                idx,
                SeqInfo {
                    offset,
                    len: p.payload.len(),
                    transmissions: 1,
                    first_recv: recv_t,
                    last_tx: wp.t,
                },
            );
            max_idx = idx;
        }
    }
    rep.counters.add("c01_wire_seqs", known.len() as u64);
    rep.counters
        .add("c01_wire_retransmissions", known.values().map(|i| (i.transmissions - 1) as u64).sum());
    res
}

/// Snapshot cross-checks (only when the log holds snapshots).
pub fn check_snapshots(rep: &mut CaseReport, events: &[Event]) {
    for e in events {
        let (id, snap) = match &e.ev {
            Ev::Hook(VerifEvent::PollEnd { id, snap, .. }) => (id, snap),
            _ => continue,
        };
        rep.counters.inc("c01_snapshots_checked");
        let s = &snap.segments;
        let sum: usize = s.segs.iter().map(|x| x.payload_size).sum();
        if sum != s.len_bytes {
            rep.violate(
                P,
                "snap-segments-sum",
                "segments".to_string(),
                format!("uid={} sum of segment sizes {} != len_bytes {}", id.uid, sum, s.len_bytes),
                Some(e.t),
            );
        }
        if s.offset - s.removed_offset != s.len_bytes as u64 {
            rep.violate(
                P,
                "snap-segments-offsets",
                "segments".to_string(),
                format!(
                    "uid={} segmented offset {} - removed offset {} != queued bytes {}",
                    id.uid, s.offset, s.removed_offset, s.len_bytes
                ),
                Some(e.t),
            );
        }
        if s.len_bytes > snap.tx.ring_len {
            rep.violate(
                P,
                "snap-segments-exceed-ring",
                "segments".to_string(),
                format!("uid={} segmented bytes {} > ring bytes {}", id.uid, s.len_bytes, snap.tx.ring_len),
                Some(e.t),
            );
        }
        let r = &snap.rx;
        let occ_bytes: usize = r.ooq_occupied.iter().map(|(_, l)| if *l == usize::MAX { 0 } else { *l }).sum();
        if r.ooq_occupied.len() != r.ooq_len || occ_bytes != r.ooq_len_bytes {
            rep.violate(
                P,
                "snap-reassembler-counters",
                "reassembler".to_string(),
                format!(
                    "uid={} reassembler says len={} bytes={} but holds {} slots / {} bytes",
                    id.uid,
                    r.ooq_len,
                    r.ooq_len_bytes,
                    r.ooq_occupied.len(),
                    occ_bytes
                ),
                Some(e.t),
            );
        }
        // filled_front slots must be exactly the first slots
        for k in 0..r.ooq_filled_front {
            if !r.ooq_occupied.iter().any(|(i, _)| *i == k) {
                rep.violate(
                    P,
                    "snap-reassembler-front",
                    "reassembler".to_string(),
                    format!("uid={} filled_front={} but slot {} is empty", id.uid, r.ooq_filled_front, k),
                    Some(e.t),
                );
                break;
            }
        }
    }
}
