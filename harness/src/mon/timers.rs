//! "No armed deadline is slept through": the connection task arms its protocol timers and asks
//! the runtime to be polled again at the earliest of them. Oracle over the hooked snapshots (taken
//! at the start and the end of every poll of a connection task, virtual time): when a poll ends
//! with the task alive and timer X armed for instant D, the task is polled again no later than D
//! (+ the 1 ms granularity of the runtime's timer wheel). A timer that is left out of the wake-up
//! computation shows as a deadline that passes with nobody polling - the work it stands for
//! (ending an idle connection, sending a delayed ACK, retransmitting) then waits for an unrelated
//! wake-up, or for ever.
use std::collections::BTreeMap;

use librqbit_utp::verif::VerifEvent as V;

use crate::{
    events::{Ev, Event, Us, MS},
    verdict::CaseReport,
};

#[derive(Clone, Copy, PartialEq, Eq, Debug)]
pub enum Timer {
    Retransmit,
    AckDelay,
    Inactivity,
    RecoveryPipe,
    SynAckResend,
}

pub const ALL: [Timer; 5] = [Timer::Retransmit, Timer::AckDelay, Timer::Inactivity, Timer::RecoveryPipe, Timer::SynAckResend];

impl Timer {
    fn name(self) -> &'static str {
        match self {
            Timer::Retransmit => "retransmission",
            Timer::AckDelay => "delayed-ACK",
            Timer::Inactivity => "inactivity",
            Timer::RecoveryPipe => "recovery pipe-expiry",
            Timer::SynAckResend => "SYN-ACK resend",
        }
    }
}

/// `local`: only connection objects of this socket are judged (None: all).
pub fn check_deadline_wakeups(rep: &mut CaseReport, property: &'static str, events: &[Event], which: &[Timer], local: Option<std::net::SocketAddr>, end_time: Us) {
    // uid -> (timer, deadline, armed at)
    let mut pending: BTreeMap<u64, Vec<(Timer, Us, Us)>> = BTreeMap::new();
    let lc = property.to_lowercase();
    let mut locals: BTreeMap<u64, std::net::SocketAddr> = BTreeMap::new();
    for e in events {
        if let Ev::Hook(V::PollEnd { id, .. }) = &e.ev {
            locals.entry(id.uid).or_insert(id.local);
        }
    }
    let mut blocked_cache: BTreeMap<std::net::SocketAddr, Vec<(Us, Us)>> = BTreeMap::new();
    let mut judge = |rep: &mut CaseReport, uid: u64, t: Us, pending: &mut BTreeMap<u64, Vec<(Timer, Us, Us)>>, what: &str| {
        if let Some(v) = pending.remove(&uid) {
            for (timer, d, armed_at) in v {
                rep.counters.inc(&format!("{lc}_armed_deadlines_checked_for_a_wakeup"));
                // with the transport refusing datagrams the task waits for it, not for the timer
                let d_eff = match locals.get(&uid) {
                    Some(addr) => {
                        let b = blocked_cache.entry(*addr).or_insert_with(|| crate::mon::diag::blocked_intervals(events, *addr));
                        crate::mon::diag::unblocked_at(b, d)
                    }
                    None => d,
                };
                if t > d_eff + 2 * MS {
                    rep.violate(
                        property,
                        "slept-through-deadline",
                        format!("{} timer", timer.name()),
                        format!(
                            "connection object {uid}: at t={armed_at} us a poll ended with the {} timer armed for t={d} us; the task was {what} only at t={t} us",
                            timer.name()
                        ),
                        Some(d),
                    );
                }
            }
        }
    };
    for e in events {
        match &e.ev {
            Ev::Hook(V::PollStart { id, .. }) if local.map_or(true, |l| id.local == l) => {
                judge(rep, id.uid, e.t, &mut pending, "polled again");
            }
            Ev::Hook(V::PollEnd { id, snap, finished }) if local.map_or(true, |l| id.local == l) => {
                if finished.is_some() {
                    pending.remove(&id.uid);
                    continue;
                }
                let now = match snap.now {
                    Some(n) => n,
                    None => continue,
                };
                let mut v = Vec::new();
                for timer in which {
                    let inst = match timer {
                        Timer::Retransmit => snap.timers.retransmit,
                        Timer::AckDelay => snap.timers.ack_delay,
                        Timer::Inactivity => snap.timers.remote_inactivity,
                        Timer::RecoveryPipe => snap.timers.recovery_pipe_expiry,
                        Timer::SynAckResend => snap.timers.syn_ack_resend,
                    };
                    if let Some(i) = inst {
                        let d = if i > now { e.t + (i - now).as_micros() as Us } else { e.t };
                        v.push((*timer, d, e.t));
                    }
                }
                if !v.is_empty() {
                    pending.insert(id.uid, v);
                }
            }
            Ev::Hook(V::VsockDropped { id, .. }) => {
                pending.remove(&id.uid);
            }
            _ => {}
        }
    }
    // deadlines that passed before the end of the log with no poll at all
    let uids: Vec<u64> = pending.keys().copied().collect();
    for uid in uids {
        let due = pending.get(&uid).map(|v| v.iter().any(|(_, d, _)| *d + 2 * MS < end_time)).unwrap_or(false);
        if due {
            // only the overdue ones
            if let Some(v) = pending.get_mut(&uid) {
                v.retain(|(_, d, _)| *d + 2 * MS < end_time);
            }
            judge(rep, uid, end_time, &mut pending, "still not polled at the end of the run");
        }
    }
}
