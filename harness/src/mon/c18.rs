//! C18 Nagle coalescing.
//!
//! Nagle on: a first transmission that is shorter than the segment size in force when its last
//! byte was written, made while earlier data is unacknowledged, is a violation unless the peer's
//! window is what limits it (a run of consecutive first transmissions ending with it sums to a
//! window value handed to the endpoint before; the `Segmented` hook event is the cross-check).
//! Nagle off: at the end of every poll of the connection task (hooked snapshot) unsent accepted
//! bytes may remain only for a stated reason: window or congestion window exhausted, a size
//! probe outstanding, timeout / recovery mode, transport pending, not established any more.
use librqbit_utp::verif::VerifEvent as V;

use crate::{
    events::{ApiOp, Ev, Event, Us},
    mon::sender::SenderModel,
    verdict::CaseReport,
};

pub const P: &str = "C18";

pub fn check_nagle_on(rep: &mut CaseReport, m: &SenderModel, events: &[Event]) {
    if m.broken.is_some() {
        return;
    }
    // time at which each stream byte was accepted by write()
    let mut accepted_at: Vec<(u64, Us)> = Vec::new(); // (cumulative accepted, time)
    let mut acc = 0u64;
    for e in events {
        if let Ev::Api { conn: 0, side: 0, op: ApiOp::WriteRet(Ok(n)) } = &e.ev {
            acc += *n as u64;
            accepted_at.push((acc, e.t));
        }
    }
    let written_time = |end_off: u64| -> Option<Us> { accepted_at.iter().find(|(a, _)| *a >= end_off).map(|(_, t)| *t) };
    // segment size in force over time (from the model's per-send records: non-decreasing)
    let seg_at = |t: Us| -> usize {
        let mut s = m.sends.first().map(|x| x.seg_size).unwrap_or(0);
        for x in &m.sends {
            if x.t <= t {
                s = x.seg_size;
            } else {
                break;
            }
        }
        s
    };
    // Second way to see that the peer's window was the limit: the library cuts segments ahead of
    // transmission, in runs (one call, consecutive Segmented hook events); a run that fills the
    // window ends in a short segment. The hook's own `window_limited` flag is NOT believed: the
    // run's payload sizes must add up to a window value the endpoint had processed before.
    // (event index, payload size, starts a new run)
    let mut cuts: Vec<(usize, usize, bool)> = Vec::new();
    {
        let mut prev_was_cut = false;
        for (i, e) in events.iter().enumerate() {
            match &e.ev {
                Ev::Hook(V::Segmented { payload_size, .. }) => {
                    cuts.push((i, *payload_size, !prev_was_cut));
                    prev_was_cut = true;
                }
                _ => prev_was_cut = false,
            }
        }
    }
    let windows: Vec<(usize, u32)> = m.acks.iter().map(|a| (a.ev_idx, a.wnd)).collect();
    let firsts: Vec<&crate::mon::sender::SendRec> = m.sends.iter().filter(|s| s.first_tx && !s.is_fin).collect();
    for (k, s) in firsts.iter().enumerate() {
        let (off, _) = match m.table.get(&s.idx) {
            Some(x) => *x,
            None => continue,
        };
        let end_off = off + s.len as u64;
        let wt = match written_time(end_off) {
            Some(t) => t,
            None => continue,
        };
        let s_ref = seg_at(wt).min(s.seg_size);
        rep.counters.inc("c18_first_transmissions_checked");
        if s.len >= s_ref || s.outstanding_before == 0 {
            continue;
        }
        rep.counters.inc("c18_partial_with_unacked_seen");
        // window limited? a run of consecutive first transmissions ending here sums to a window
        // value processed before this send
        let mut sum = 0u64;
        let mut limited = false;
        for j in (0..=k).rev() {
            sum += firsts[j].len as u64;
            if windows.iter().any(|(ei, w)| *ei < s.ev_idx && *w as u64 == sum) {
                limited = true;
                break;
            }
            if k - j > 200 {
                break;
            }
        }
        if !limited {
            // the cut that produced this segment: the latest one of this size before the send
            if let Some(ci) = cuts.iter().rposition(|(ei, sz, _)| *ei < s.ev_idx && *sz == s.len) {
                let mut sum = 0u64;
                let mut j = ci;
                loop {
                    sum += cuts[j].1 as u64;
                    if windows.iter().any(|(ei, w)| *ei < cuts[ci].0 && *w as u64 == sum) {
                        limited = true;
                        rep.counters.inc("c18_window_limited_by_cut_run");
                        break;
                    }
                    if cuts[j].2 || j == 0 {
                        break;
                    }
                    j -= 1;
                }
            }
        }
        if limited {
            rep.counters.inc("c18_window_limited_partials");
            continue;
        }
        rep.violate(
            P,
            "partial-segment-with-unacked-data",
            "nagle-on".to_string(),
            format!(
                "Nagle enabled: seq {} was first transmitted at t={} us with {} bytes (segment size in force {}), while {} earlier bytes were unacknowledged and the peer window was not the limit",
                s.seq, s.t, s.len, s_ref, s.outstanding_before
            ),
            Some(s.t),
        );
    }
}

/// Nagle on, second half: held-back bytes are sent when the pipe drains - the ACK that leaves
/// nothing unacknowledged releases them in the same logical step (window permitting).
pub fn check_release_on_drain(rep: &mut CaseReport, m: &SenderModel, events: &[Event]) {
    if m.broken.is_some() {
        return;
    }
    let mut accepted_at: Vec<(u64, usize)> = Vec::new(); // (cumulative accepted, event index)
    let mut acc = 0u64;
    for (i, e) in events.iter().enumerate() {
        if let Ev::Api { conn: 0, side: 0, op: ApiOp::WriteRet(Ok(n)) } = &e.ev {
            acc += *n as u64;
            accepted_at.push((acc, i));
        }
    }
    let firsts: Vec<&crate::mon::sender::SendRec> = m.sends.iter().filter(|s| s.first_tx && !s.is_fin).collect();
    let fin_sent_at = m.sends.iter().find(|s| s.is_fin).map(|s| s.ev_idx).unwrap_or(usize::MAX);
    for a in &m.acks {
        if !a.advanced || a.wnd == 0 || a.ev_idx > fin_sent_at {
            continue;
        }
        // everything sent before this ACK
        let sent_end: u64 = firsts
            .iter()
            .filter(|s| s.ev_idx < a.ev_idx)
            .filter_map(|s| m.table.get(&s.idx).map(|(o, l)| o + *l as u64))
            .max()
            .unwrap_or(0);
        let max_idx_before = firsts.iter().filter(|s| s.ev_idx < a.ev_idx).map(|s| s.idx).max().unwrap_or(-1);
        if a.ack_idx < max_idx_before {
            continue; // pipe not drained
        }
        let accepted_before: u64 = accepted_at.iter().filter(|(_, i)| *i < a.ev_idx).map(|(x, _)| *x).max().unwrap_or(0);
        if accepted_before <= sent_end {
            continue; // nothing held back
        }
        rep.counters.inc("c18_drain_releases_checked");
        let released = firsts.iter().any(|s| s.ev_idx > a.ev_idx && s.t == a.t);
        if !released {
            rep.violate(
                P,
                "held-data-not-released-on-drain",
                "nagle-on".to_string(),
                format!(
                    "the ACK processed at t={} us left nothing unacknowledged while {} accepted bytes were still unsent (window {}), but no data was sent in that step",
                    a.t,
                    accepted_before - sent_end,
                    a.wnd
                ),
                Some(a.t),
            );
        }
    }
}

pub fn check_nagle_off(rep: &mut CaseReport, events: &[Event], real_addr: std::net::SocketAddr) {
    for e in events {
        let snap = match &e.ev {
            Ev::Hook(V::PollEnd { id, snap, finished: None }) if id.local == real_addr => snap,
            _ => continue,
        };
        if snap.nagle {
            continue;
        }
        rep.counters.inc("c18_nagle_off_polls_checked");
        let sent_bytes: usize = snap.segments.segs.iter().filter(|s| s.send_count > 0).map(|s| s.payload_size).sum();
        let unsent = snap.tx.ring_len.saturating_sub(sent_bytes);
        if unsent == 0 {
            continue;
        }
        rep.counters.inc("c18_nagle_off_polls_with_unsent");
        let next = snap
            .segments
            .segs
            .iter()
            .find(|s| s.send_count == 0)
            .map(|s| s.payload_size)
            .unwrap_or(unsent.min(snap.min_ss as usize));
        let limit = snap.cwnd.min(snap.last_remote_window as usize);
        let window_or_cwnd = snap.flight_size + next > limit;
        let probe = snap.segments.segs.iter().any(|s| s.is_mtu_probe && !s.is_delivered);
        let special_mode = snap.rto_retransmissions > 0 || snap.recovery != "counting-duplicates";
        let not_established = snap.state != "established";
        if window_or_cwnd || probe || special_mode || not_established || snap.transport_pending {
            continue;
        }
        rep.violate(
            P,
            "nagle-off-data-held-back",
            "nagle-off".to_string(),
            format!(
                "Nagle disabled: at the end of the poll at t={} us {} accepted bytes are unsent although window ({}), congestion window ({}) minus flight ({}) leave room for the next {} bytes, no probe is outstanding and no recovery is in progress",
                e.t, unsent, snap.last_remote_window, snap.cwnd, snap.flight_size, next
            ),
            Some(e.t),
        );
    }
}
