//! C12: concurrent connections on one socket are isolated and bounded.
//!
//! Oracles over one `multi` case:
//!  * content      - every byte a connection's reader returns is the byte the peer of *that*
//!                   connection wrote at that offset (token-identified streams, per-connection
//!                   generator keys), and an accepted stream's token is intact;
//!  * demux        - every payload a connection offered to its reassembler (RxData hook) came in a
//!                   datagram whose source address and connection id name that connection;
//!  * unique-ids   - no two live connection objects on one socket share (remote, receive id) or
//!                   (remote, send id); a new one does not take the id of a connect in progress;
//!  * limit        - live connection objects and dispatcher table entries never exceed the limit;
//!  * no-eviction  - on a loss-free network every connection that was established on both sides
//!                   completes, whatever else was attempted on the socket.
use std::{
    collections::{BTreeMap, BTreeSet},
    net::SocketAddr,
};

use librqbit_utp::verif::VerifEvent as V;

use crate::{
    events::{Ev, Event},
    fam::multi::{ConnPlan, ConnResult},
    verdict::CaseReport,
    wire,
};

pub struct Params<'a> {
    pub limits: BTreeMap<SocketAddr, usize>,
    pub results: &'a BTreeMap<u32, ConnResult>,
    pub plans: BTreeMap<u32, ConnPlan>,
    pub perfect_network: bool,
    pub connect_timeout: u64,
    /// connections excluded from content / completion rules (an attacker's target)
    pub exempt: BTreeSet<u32>,
    pub property: &'static str,
    /// C10 use: a bystander damaged by a known same-connection mechanism was not damaged by the
    /// attack; count it instead of reporting it
    pub skip_known_causes: bool,
    /// (acceptor socket, initiator address) of the exempt target connection, if it may fail to
    /// deliver its token
    pub target_pair: Option<(SocketAddr, SocketAddr)>,
}

pub fn check(rep: &mut CaseReport, events: &[Event], view: &crate::view::WireView, case_seed: u64, p: &Params) {
    let prop = p.property;
    let lives = crate::mon::diag::vsock_lives(events);
    let tokens = crate::mon::diag::token_map(view, case_seed);
    let stale = stale_incarnation_deliveries(view);
    rep.counters.add("c12_connections_hit_by_stale_datagrams_of_an_earlier_incarnation", stale.len() as u64);
    // A connection that was handed datagrams of an earlier incarnation of its own (address, id)
    // key is not judged on content/completion: those datagrams do name it, and the protocol has
    // no TIME_WAIT (only random sequence numbers, which this family deliberately makes equal).
    let hit_by_stale = |conn: u32| tokens.get(&conn).map(|ci| stale.contains(ci)).unwrap_or(false);
    let cause = |conn: u32, side: usize| crate::mon::diag::multi_cause(view, &lives, &tokens, conn, side);
    // ---- content (boundary) ----
    for e in events {
        if let Ev::Note(n) = &e.ev {
            if let Some(rest) = n.strip_prefix("MISMATCH conn=") {
                let conn: u32 = rest.split(' ').next().and_then(|s| s.parse().ok()).unwrap_or(u32::MAX);
                let side: usize = rest.split("side=").nth(1).and_then(|s| s.split(' ').next()).and_then(|s| s.parse().ok()).unwrap_or(0);
                if !p.exempt.contains(&conn) && !hit_by_stale(conn) {
                    let c = cause(conn, side);
                    if p.skip_known_causes && c != "none" {
                        rep.counters.inc("bystander_damage_with_known_same_connection_cause_not_judged");
                    } else {
                        rep.violate(prop, "content", format!("a reader received bytes its peer did not write at that offset cause={c}"), n.clone(), Some(e.t));
                    }
                }
            } else if n.contains("delivered a corrupt token") {
                let from_attacker = n.contains(&format!(" from {} ", crate::fam::hostile::attacker_addr()));
                let is_target = p.target_pair.map(|(a, i)| n.contains(&format!(" on {a} from {i} "))).unwrap_or(false) && p.results.get(&0).map(|r| r.accepted_on.is_none()).unwrap_or(true);
                if from_attacker || is_target {
                    rep.counters.inc("corrupt_token_on_attacker_or_target_stream_not_judged");
                } else {
                    rep.violate(prop, "content", "an accepted stream delivered a corrupt token", n.clone(), Some(e.t));
                }
            } else if n.starts_with("DUPLICATE-ACCEPT") {
                rep.violate(prop, "content", "one connect produced two accepted streams", n.clone(), Some(e.t));
            }
        }
    }
    let mut bytes_checked = 0u64;
    for (conn, r) in p.results {
        if p.exempt.contains(conn) || hit_by_stale(*conn) {
            continue;
        }
        bytes_checked += (r.read[0] + r.read[1]) as u64;
        if let Some(plan) = p.plans.get(conn) {
            for side in 0..2 {
                if r.read[side] > plan.total[1 - side] {
                    let c = cause(*conn, side);
                    if p.skip_known_causes && c != "none" {
                        rep.counters.inc("bystander_damage_with_known_same_connection_cause_not_judged");
                        continue;
                    }
                    rep.violate(prop, "content", format!("a reader received more bytes than its peer wrote cause={c}"), format!("conn {conn} side {side}: read {} of {}", r.read[side], plan.total[1 - side]), None);
                }
            }
        }
    }
    rep.counters.add("c12_bytes_content_checked", bytes_checked);

    // ---- demux, unique ids, limit (hooks) ----
    // datagrams handed to each socket: id -> (src, conn_id, seq, payload len)
    // (payload length as delivered: the dispatcher reads into a 16 KiB buffer, longer datagrams are cut)
    let mut sent: BTreeMap<u64, (SocketAddr, u16, u16, usize, u8)> = BTreeMap::new();
    // (local, remote, conn id, seq, len) -> number of times handed over
    let mut handed: BTreeMap<(SocketAddr, SocketAddr, u16, u16, usize), u32> = BTreeMap::new();
    // live vsocks per local: uid -> (remote, recv id, send id)
    let mut live: BTreeMap<SocketAddr, BTreeMap<u64, (SocketAddr, u16, u16)>> = BTreeMap::new();
    // connects in progress per local: (remote, id) -> count
    // connects in progress: (local, remote, id) -> [from SYN send, until the connect call ended)
    let pending = pending_connects(events, p.results);
    let mut max_live: BTreeMap<SocketAddr, usize> = BTreeMap::new();
    let mut demux_checked = 0u64;
    let mut creations = 0u64;
    for e in events {
        match &e.ev {
            Ev::Send { id, src, dst, bytes, pkt: Some(pk), scripted, .. } => {
                let cut = bytes.len().saturating_sub(16384);
                sent.insert(*id, (*src, pk.conn_id, pk.seq, pk.payload.len().saturating_sub(cut), pk.ty));
                let _ = (dst, scripted);
            }
            Ev::Recv { id, dst } => {
                if let Some((src, cid, seq, len, ty)) = sent.get(id) {
                    if *ty == wire::ST_DATA {
                        *handed.entry((*dst, *src, *cid, *seq, *len)).or_default() += 1;
                    }
                }
            }
            Ev::Hook(V::RxData { id, seq_nr, len, .. }) => {
                demux_checked += 1;
                if !handed.contains_key(&(id.local, id.remote, id.conn_id_recv, *seq_nr, *len)) {
                    rep.violate(
                        prop,
                        "demux",
                        "a connection was offered a payload that no datagram naming it carried",
                        format!("vsock {}<-{} recv id {} was offered seq {} len {} but no such datagram from that address with that id was received", id.local, id.remote, id.conn_id_recv, seq_nr, len),
                        Some(e.t),
                    );
                }
            }
            Ev::Hook(V::VsockCreated { id }) => {
                creations += 1;
                let l = live.entry(id.local).or_default();
                for (uid, (rem, rid, sid)) in l.iter() {
                    if *rem == id.remote && *rid == id.conn_id_recv {
                        rep.violate(prop, "unique-ids", "two live connections on one socket share (remote, receive id)", format!("{}: new uid {} and live uid {} both receive on ({}, {})", id.local, id.uid, uid, rem, rid), Some(e.t));
                    }
                    if *rem == id.remote && *sid == id.conn_id_send {
                        // Not judged: the peer may already have released the old incarnation and
                        // reused the id while this side still lingers in its closing states (the
                        // protocol has no TIME_WAIT). Uniqueness is judged on receive keys, at
                        // the socket that demultiplexes by them.
                        rep.counters.inc("c12_send_id_shared_with_lingering_connection_seen");
                    }
                }
                if id.incoming {
                    // an abandoned connect (harness timeout) is no longer in progress
                    if pending.get(&(id.local, id.remote, id.conn_id_recv)).map(|v| v.iter().any(|(t0, t1)| *t0 <= e.t && e.t < *t1)).unwrap_or(false) {
                        rep.violate(
                            prop,
                            "unique-ids",
                            "an accepted connection took the receive id of a connect in progress to the same address",
                            format!("{}: accepted uid {} receives on ({}, {}), which is also the id of a SYN this socket has outstanding to that address", id.local, id.uid, id.remote, id.conn_id_recv),
                            Some(e.t),
                        );
                    }
                }
                l.insert(id.uid, (id.remote, id.conn_id_recv, id.conn_id_send));
                let n = l.len();
                let m = max_live.entry(id.local).or_default();
                *m = (*m).max(n);
                if let Some(lim) = p.limits.get(&id.local) {
                    if n > *lim {
                        rep.violate(prop, "limit", "more live connection objects than max_live_vsocks", format!("{}: {} live after creating uid {}, limit {}", id.local, n, id.uid, lim), Some(e.t));
                    }
                }
            }
            Ev::Hook(V::VsockDropped { id, .. }) => {
                if let Some(l) = live.get_mut(&id.local) {
                    l.remove(&id.uid);
                }
            }
            Ev::Hook(V::SocketTables { local, streams, limit, .. }) => {
                rep.counters.inc("c12_table_observations");
                if streams.len() > *limit {
                    rep.violate(prop, "limit", "more dispatcher table entries than max_live_vsocks", format!("{local}: {} entries, limit {limit}", streams.len()), Some(e.t));
                }
                let set: BTreeSet<_> = streams.iter().collect();
                if set.len() != streams.len() {
                    rep.violate(prop, "unique-ids", "duplicate key in the dispatcher table", format!("{local}: {:?}", streams), Some(e.t));
                }
            }
            _ => {}
        }
    }
    rep.counters.add("c12_demux_deliveries_checked", demux_checked);
    rep.counters.add("c12_connection_objects", creations);
    for (_, m) in &max_live {
        rep.counters.max("max_live_on_one_socket", *m as u64);
    }

    // ---- no eviction: established connections complete on a perfect network ----
    let mut established = 0u64;
    let mut refused = 0u64;
    for (conn, r) in p.results {
        if let Some(e) = &r.connect_error {
            refused += 1;
            if e.contains("too many active") {
                rep.counters.inc("c12_connects_refused_by_limit");
            }
            continue;
        }
        if r.connected_at.is_none() || r.accepted_on.is_none() {
            continue;
        }
        established += 1;
        if p.exempt.contains(conn) || !p.perfect_network || hit_by_stale(*conn) {
            continue;
        }
        let plan = match p.plans.get(conn) {
            Some(x) => x,
            None => continue,
        };
        for side in 0..2usize {
            let complete = r.read[side] == plan.total[1 - side];
            if !complete && p.skip_known_causes && (cause(*conn, 0) != "none" || cause(*conn, 1) != "none") {
                rep.counters.inc("bystander_damage_with_known_same_connection_cause_not_judged");
                continue;
            }
            if !complete {
                rep.violate(
                    prop,
                    "no-eviction",
                    {
                        let (a, b) = (cause(*conn, 0), cause(*conn, 1));
                        let c = if a != "none" { a } else { b };
                        if c != "none" {
                            format!("an established connection did not complete on a loss-free network cause={c}")
                        } else {
                            format!(
                                "an established connection did not complete on a loss-free network: {} cause=none",
                                r.error[side].clone().unwrap_or_else(|| "still running at the end".into()).split(" after ").next().unwrap_or("")
                            )
                        }
                    },
                    format!("conn {conn} side {side}: read {} of {}, wrote {} of {}, error {:?}", r.read[side], plan.total[1 - side], r.written[side], plan.total[side], r.error[side]),
                    r.done_at[side],
                );
            }
        }
    }
    rep.counters.add("c12_connections_established", established);
    rep.counters.add("c12_connects_failed", refused);
}

/// Intervals during which a connect call with a given SYN id was in progress. The k-th SYN from
/// `src` to `dst` belongs to the k-th connect call from `src` to `dst` that the dispatcher did
/// not refuse outright (requests are served in order; at most 4 are outstanding per address in
/// this family, so every SYN sent has a registered requester).
pub fn pending_connects(events: &[Event], results: &BTreeMap<u32, ConnResult>) -> BTreeMap<(SocketAddr, SocketAddr, u16), Vec<(u64, u64)>> {
    use crate::events::ApiOp;
    // conn -> (call time, end time, refused outright)
    let mut calls: BTreeMap<u32, (u64, u64, bool)> = BTreeMap::new();
    for e in events {
        if let Ev::Api { conn, side: 0, op } = &e.ev {
            match op {
                ApiOp::ConnectCall => {
                    calls.insert(*conn, (e.t, u64::MAX, false));
                }
                ApiOp::ConnectRet(r) => {
                    if let Some(c) = calls.get_mut(conn) {
                        c.1 = c.1.min(e.t);
                        if let Err(err) = r {
                            if err.contains("too many active") {
                                c.2 = true;
                            }
                        }
                    }
                }
                ApiOp::Cancelled("connect") => {
                    if let Some(c) = calls.get_mut(conn) {
                        c.1 = c.1.min(e.t);
                    }
                }
                _ => {}
            }
        }
    }
    // per (src, dst): calls in call order (log order)
    let mut queues: BTreeMap<(SocketAddr, SocketAddr), std::collections::VecDeque<u32>> = BTreeMap::new();
    for e in events {
        if let Ev::Api { conn, side: 0, op: ApiOp::ConnectCall } = &e.ev {
            if let Some(r) = results.get(conn) {
                if let (Some(f), Some(t)) = (r.connector, r.target) {
                    if !calls.get(conn).map(|c| c.2).unwrap_or(false) {
                        queues.entry((f, t)).or_default().push_back(*conn);
                    }
                }
            }
        }
    }
    let mut out: BTreeMap<(SocketAddr, SocketAddr, u16), Vec<(u64, u64)>> = BTreeMap::new();
    for e in events {
        if let Ev::Send { src, dst, pkt: Some(pk), scripted: false, .. } = &e.ev {
            if pk.ty == wire::ST_SYN {
                if let Some(conn) = queues.get_mut(&(*src, *dst)).and_then(|q| q.pop_front()) {
                    let end = calls.get(&conn).map(|c| c.1).unwrap_or(u64::MAX);
                    out.entry((*src, *dst, pk.conn_id)).or_default().push((e.t, end));
                }
            }
        }
    }
    out
}

/// Wire connections that were handed (Recv) a datagram sent by an earlier incarnation of the same
/// (receiver, sender, id) key: the key had been taken over by a newer SYN by the time the
/// datagram was handed over.
pub fn stale_incarnation_deliveries(view: &crate::view::WireView) -> BTreeSet<usize> {
    // key -> [(time the SYN was first sent, conn index)]
    let mut owners: BTreeMap<(SocketAddr, SocketAddr, u16), Vec<(u64, usize)>> = BTreeMap::new();
    for (ci, c) in view.conns.iter().enumerate() {
        let t_syn = match c.from_initiator.first() {
            Some(pi) => view.pkts[*pi].t,
            None => continue,
        };
        owners.entry((c.acceptor, c.initiator, c.c.wrapping_add(1))).or_default().push((t_syn, ci));
        owners.entry((c.initiator, c.acceptor, c.c)).or_default().push((t_syn, ci));
    }
    let mut out = BTreeSet::new();
    for wp in &view.pkts {
        let (p, ci) = match (&wp.pkt, wp.conn) {
            (Some(p), Some(ci)) => (p, ci),
            _ => continue,
        };
        if p.ty == wire::ST_SYN {
            continue;
        }
        if let Some(list) = owners.get(&(wp.dst, wp.src, p.conn_id)) {
            if list.len() < 2 {
                continue;
            }
            for (t_r, _) in &wp.recvs {
                // owner of the key when the datagram was handed over
                if let Some((_, owner)) = list.iter().filter(|(t, _)| t <= t_r).max_by_key(|(t, _)| *t) {
                    if *owner != ci {
                        out.insert(*owner);
                    }
                }
            }
        }
    }
    out
}
