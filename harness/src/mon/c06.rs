//! C06 retransmission discipline, judged on the wire against the scripted peer's ACK history.
//!
//! (a) peer silent: the lowest unacknowledged sequence number is what gets retransmitted; gaps
//!     between successive timeout retransmissions with no ACK in between double (min(2g, 60 s),
//!     within [200 ms, 60 s]); no sequence number is transmitted more than 1 + max_retransmissions
//!     times; the connection then fails, at the time the cap predicts;
//! (b) fast retransmit: the third duplicate ACK of a cumulative-only peer, or a selective ACK
//!     reporting >= 3 later segments, makes the first hole go out again in the same logical step
//!     (judged only where no timeout recovery can be in progress: no timer-driven retransmission
//!     since the last ACK that covered everything sent before it);
//! (c) nothing covered by a processed cumulative or selective ACK is ever transmitted again;
//! (d) content stability is the C01 wire oracle (run by the caller on the same log).
use librqbit_utp::verif::VerifEvent as V;

use crate::{
    events::{Ev, Event, Us, MS, SEC},
    mon::sender::SenderModel,
    verdict::CaseReport,
};

pub const P: &str = "C06";
const EPS: Us = 3 * MS;

pub fn check(rep: &mut CaseReport, m: &SenderModel, events: &[Event], max_retransmissions: usize, real_addr: std::net::SocketAddr, judge_fast_retransmit: bool) {
    if m.broken.is_some() {
        rep.counters.inc("c06_models_broken");
        return;
    }
    // (c) acknowledged data is never retransmitted
    for s in &m.sends {
        if s.is_fin || !s.left {
            continue;
        }
        rep.counters.inc("c06_transmissions_checked");
        if !s.first_tx && s.already_acked {
            rep.violate(
                P,
                "acked-segment-retransmitted",
                "retransmit".to_string(),
                format!("seq {} was transmitted again at t={} us although an ACK covering it had been handed to the endpoint before", s.seq, s.t),
                Some(s.t),
            );
        }
        if s.nth_tx as usize > 1 + max_retransmissions {
            rep.violate(
                P,
                "too-many-transmissions",
                "cap".to_string(),
                format!("seq {} was transmitted {} times; the configured limit is 1 + {} retransmissions", s.seq, s.nth_tx, max_retransmissions),
                Some(s.t),
            );
        }
    }
    // size probes are exempt from the timeout rules (their expiry re-cuts the segment)
    let mut probes: std::collections::BTreeSet<i64> = Default::default();
    for s in &m.sends {
        if s.first_tx && !s.is_fin && s.len > s.seg_size {
            probes.insert(s.idx);
        }
    }
    // (a) the silent phase
    let silent_from = events.iter().find_map(|e| match &e.ev {
        Ev::Note(n) if n.starts_with("peer falls silent") => Some(e.t),
        _ => None,
    });
    let silent_forever = events.iter().any(|e| matches!(&e.ev, Ev::Note(n) if n.contains("Some(18446744073709551615)")));
    if let (Some(t0), true) = (silent_from, silent_forever) {
        // lowest unacknowledged index at the start of silence = what every timeout must retransmit
        let acked_at_silence: i64 = m.acks.iter().filter(|a| a.t <= t0 && a.advanced).map(|a| a.ack_idx).max().unwrap_or(-1);
        let first_unacked = acked_at_silence + 1;
        let mut gaps: Vec<(Us, Us)> = Vec::new(); // (time of retransmission, gap since previous transmission)
        let mut last_tx_of_first: Option<Us> = None;
        for s in &m.sends {
            if !s.left || s.t <= t0 {
                if s.idx == first_unacked && s.left {
                    last_tx_of_first = Some(s.t);
                }
                continue;
            }
            // (the peer acknowledges nothing in this phase and its noise packets are not duplicate
            // ACKs: every retransmission is a timeout, whatever else happens at the same instant)
            if !s.first_tx && !probes.contains(&s.idx) {
                rep.counters.inc("c06_timeout_retransmissions_checked");
                if s.idx != first_unacked && !(s.is_fin && m.fin_idx == Some(first_unacked)) {
                    rep.violate(
                        P,
                        "timeout-retransmits-wrong-segment",
                        "timeout".to_string(),
                        format!("the timer expiry at t={} us retransmitted seq {} (index {}), the first unacknowledged one has index {}", s.t, s.seq, s.idx, first_unacked),
                        Some(s.t),
                    );
                }
                if s.idx == first_unacked {
                    if let Some(prev) = last_tx_of_first {
                        gaps.push((s.t, s.t - prev));
                    }
                }
            }
            if s.idx == first_unacked {
                last_tx_of_first = Some(s.t);
            }
        }
        if !probes.contains(&first_unacked) {
            for w in gaps.windows(2) {
                let (g1, g2) = (w[0].1, w[1].1);
                rep.counters.inc("c06_backoff_steps_checked");
                let want = (2 * g1).min(60 * SEC);
                if g2 + EPS < want || g2 > want + EPS {
                    rep.violate(
                        P,
                        "backoff-not-doubling",
                        "timeout".to_string(),
                        format!("successive timeouts with no ACK in between: gap {} us followed by gap {} us (expected min(2 x previous, 60 s) = {} us)", g1, g2, want),
                        Some(w[1].0),
                    );
                }
            }
            for (t, g) in &gaps {
                if *g + EPS < 200 * MS || *g > 60 * SEC + EPS {
                    rep.violate(P, "timeout-out-of-range", "timeout".to_string(), format!("retransmission at t={t} us, {g} us after the previous transmission: outside [200 ms, 60 s]"), Some(*t));
                }
            }
            // the connection must fail when the cap is reached, at the time the cap predicts
            if let Some((t_last, g_last)) = gaps.last() {
                let n_tx = m.sends.iter().filter(|s| s.idx == first_unacked && s.left).count();
                let death = events.iter().find_map(|e| match &e.ev {
                    Ev::Hook(V::Death { id, error }) if id.local == real_addr => Some((e.t, error.clone())),
                    _ => None,
                });
                let end_t = events.iter().rev().find(|e| matches!(&e.ev, Ev::Note(n) if n == "teardown")).map(|e| e.t).unwrap_or(0);
                if n_tx >= 1 + max_retransmissions {
                    rep.counters.inc("c06_caps_checked");
                    let due = t_last + (2 * g_last).min(60 * SEC);
                    match death {
                        Some((t, Some(_))) if t <= due + EPS => {}
                        Some((t, err)) => rep.violate(
                            P,
                            "cap-failure-late",
                            "cap".to_string(),
                            format!("after {} transmissions of seq index {} the connection ended at t={} us ({:?}); the retry limit predicts t={} us", n_tx, first_unacked, t, err, due),
                            Some(t),
                        ),
                        None => {
                            if end_t > due + 2 * SEC {
                                rep.violate(
                                    P,
                                    "cap-no-failure",
                                    "cap".to_string(),
                                    format!("after {} transmissions of seq index {} (limit 1 + {}) the connection had not failed by t={} us (due t={} us)", n_tx, first_unacked, max_retransmissions, end_t, due),
                                    Some(due),
                                );
                            }
                        }
                    }
                }
            }
        }
    }
    // (b) fast retransmit (judged on realistic ACK histories only: a peer that repeats ACKs which
    // report no hole, or replays old ones, drives the library's duplicate counter into states the
    // wire alone does not determine)
    if judge_fast_retransmit {
        check_fast_retransmit(rep, m);
    }
}

fn check_fast_retransmit(rep: &mut CaseReport, m: &SenderModel) {
    // walk ACKs and sends in log order
    #[derive(Clone, Copy)]
    enum Item<'a> {
        Ack(&'a crate::mon::sender::AckRec),
        Send(&'a crate::mon::sender::SendRec),
    }
    let mut items: Vec<(usize, Item)> = m.acks.iter().map(|a| (a.ev_idx, Item::Ack(a))).chain(m.sends.iter().map(|s| (s.ev_idx, Item::Send(s)))).collect();
    items.sort_by_key(|x| x.0);
    let peer_sacks = m.acks.iter().any(|a| a.has_sack_ext);
    let mut cum: i64 = -1;
    let mut max_sent: i64 = -1;
    let mut dups: u32 = 0;
    // a timeout (timer-driven retransmission) makes the sender ignore duplicates until an ACK
    // covers everything sent before it; a triggered fast recovery lasts until the same point
    let mut quiet_until: Option<i64> = None;
    let mut pending: Option<(Us, i64, &'static str)> = None; // trigger waiting for its retransmission in the same step
    let mut sacked: std::collections::BTreeSet<i64> = Default::default();
    let mut probes: std::collections::BTreeSet<i64> = Default::default();
    for (_, it) in &items {
        match it {
            Item::Send(s) => {
                if s.first_tx && !s.is_fin && s.len > s.seg_size {
                    probes.insert(s.idx);
                }
                if s.idx > max_sent && !s.is_fin {
                    max_sent = s.idx;
                }
                if let Some((t, hole, _)) = pending {
                    if s.t == t && s.idx == hole && !s.first_tx {
                        pending = None;
                    }
                }
                if !s.first_tx && !s.is_fin {
                    // any retransmission (timeout or fast) opens a recovery episode: triggers are
                    // judged again only once an ACK covers everything sent so far
                    quiet_until = Some(quiet_until.map_or(max_sent, |q| q.max(max_sent)));
                    dups = 0;
                }
            }
            Item::Ack(a) => {
                // a trigger whose step is over without the retransmission
                if let Some((t, hole, why)) = pending {
                    if a.t > t {
                        rep.violate(
                            P,
                            "fast-retransmit-missing",
                            why.to_string(),
                            format!("{why} at t={t} us: the first hole (seq index {hole}) was not retransmitted in that step"),
                            Some(t),
                        );
                        pending = None;
                    }
                }
                let mut ended_quiet = false;
                if a.advanced {
                    cum = a.ack_idx;
                    sacked.retain(|x| *x > cum);
                    dups = 0;
                    if let Some(q) = quiet_until {
                        if cum >= q {
                            quiet_until = None;
                            ended_quiet = true;
                        }
                    }
                }
                for s in &a.sacked {
                    sacked.insert(*s);
                }
                if ended_quiet {
                    // conservatively, the ACK that ends a recovery is not judged as a new trigger
                    continue;
                }
                let hole = cum + 1;
                let hole_outstanding = hole <= max_sent && !sacked.contains(&hole);
                if !hole_outstanding || quiet_until.is_some() || probes.contains(&hole) {
                    continue;
                }
                if !peer_sacks {
                    if a.is_dup {
                        dups += 1;
                        if dups == 3 {
                            rep.counters.inc("c06_fast_retransmit_triggers_checked");
                            pending = Some((a.t, hole, "third duplicate ACK"));
                            quiet_until = Some(max_sent);
                        }
                    } else if !a.advanced {
                        dups = 0;
                    }
                } else if a.has_sack_ext {
                    // the library counts SACK-bearing ACKs like duplicates (three in a row), and
                    // enters recovery at once when one of them reports >= 3 later segments
                    dups += 1;
                    if a.sacked.len() >= 3 || dups >= 3 {
                        rep.counters.inc("c06_fast_retransmit_triggers_checked");
                        pending = Some((a.t, hole, if a.sacked.len() >= 3 { "selective ACK reporting >= 3 later segments" } else { "third consecutive selective ACK" }));
                        quiet_until = Some(max_sent);
                        dups = 0;
                    }
                } else {
                    dups = 0;
                }
            }
        }
    }
}
