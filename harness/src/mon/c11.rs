//! C11, emitted traffic: accepted by the independent parser, version 1, payload exactly for
//! ST_DATA, connection id owed to the direction (initiator: the SYN carries c, everything after
//! it c+1; acceptor: c).
use std::net::SocketAddr;

use crate::{
    events::{Ev, Event},
    verdict::CaseReport,
    wire,
};

pub const P: &str = "C11";

pub fn check_emitted(rep: &mut CaseReport, events: &[Event], initiator: SocketAddr, acceptor: SocketAddr) {
    let mut c: Option<u16> = None;
    for e in events {
        let (src, dst, bytes, scripted) = match &e.ev {
            Ev::Send { src, dst, bytes, scripted, .. } => (*src, *dst, bytes, *scripted),
            _ => continue,
        };
        if scripted {
            continue;
        }
        rep.counters.inc("c11_emitted_datagrams_checked");
        let hx = || bytes.iter().take(40).map(|b| format!("{:02x}", b)).collect::<String>();
        let (p, _) = match wire::parse_header(bytes) {
            Ok(x) => x,
            Err(err) => {
                rep.violate(P, "emitted-unparseable", format!("{err:?}"), format!("datagram {src}->{dst} is rejected by the BEP-29 parser ({err:?}): {}", hx()), Some(e.t));
                continue;
            }
        };
        if p.ver != 1 {
            rep.violate(P, "emitted-bad-version", "version".to_string(), format!("datagram {src}->{dst} carries version {}", p.ver), Some(e.t));
        }
        let has_payload = !p.payload.is_empty();
        if has_payload != (p.ty == wire::ST_DATA) {
            rep.violate(
                P,
                "emitted-payload-rule",
                wire::type_name(p.ty).to_string(),
                format!("datagram {src}->{dst} of type {} carries {} payload bytes", wire::type_name(p.ty), p.payload.len()),
                Some(e.t),
            );
        }
        // extension chain must consist of known, well-sized extensions
        for (id, data) in &p.exts {
            let ok = match *id {
                wire::EXT_SACK => !data.is_empty() && data.len() % 4 == 0,
                wire::EXT_CLOSE_REASON => data.len() == 4,
                _ => false,
            };
            if !ok {
                rep.violate(P, "emitted-bad-extension", format!("ext{id}"), format!("datagram {src}->{dst} carries extension {id} with {} bytes", data.len()), Some(e.t));
            }
        }
        // connection id owed to the direction
        if src == initiator && dst == acceptor {
            if p.ty == wire::ST_SYN {
                if c.is_none() {
                    c = Some(p.conn_id);
                }
                if Some(p.conn_id) != c {
                    rep.violate(P, "emitted-wrong-conn-id", "syn".to_string(), format!("SYN carries id {} but the connection's SYN id is {:?}", p.conn_id, c), Some(e.t));
                }
            } else if let Some(c) = c {
                rep.counters.inc("c11_emitted_conn_ids_checked");
                if p.conn_id != c.wrapping_add(1) {
                    rep.violate(
                        P,
                        "emitted-wrong-conn-id",
                        "initiator".to_string(),
                        format!("initiator's {} carries connection id {} instead of {} (SYN id + 1)", wire::type_name(p.ty), p.conn_id, c.wrapping_add(1)),
                        Some(e.t),
                    );
                }
            }
        } else if src == acceptor && dst == initiator {
            if let Some(c) = c {
                rep.counters.inc("c11_emitted_conn_ids_checked");
                if p.conn_id != c {
                    rep.violate(
                        P,
                        "emitted-wrong-conn-id",
                        "acceptor".to_string(),
                        format!("acceptor's {} carries connection id {} instead of {} (the SYN's id)", wire::type_name(p.ty), p.conn_id, c),
                        Some(e.t),
                    );
                }
            }
        }
    }
}
