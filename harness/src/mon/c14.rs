//! C14 path-MTU discovery: safety on the wire and convergence.
//!
//!   * no datagram larger than the sender's configured link MTU allows is ever emitted;
//!   * every first-transmitted segment is at most the size proven deliverable at that moment
//!     (protocol minimum, or the largest payload acknowledged to / received by the sender), or
//!     else it is a probe: then it is the newest segment and no other probe is unacknowledged;
//!   * on a path that silently discards datagrams above some size (and loses nothing else) the
//!     sender settles on the largest payload that fits, after a logarithmic number of probes;
//!   * content stays intact across failed probes (C01 oracles, run by the caller).
use std::net::SocketAddr;

use crate::{
    mon::sender::SenderModel,
    verdict::CaseReport,
    view::WireView,
};

pub const P: &str = "C14";

/// Every datagram emitted by the real socket at `addr` fits its link MTU.
pub fn check_datagram_sizes(rep: &mut CaseReport, view: &WireView, addr: SocketAddr, link_mtu: usize) {
    let ip = if addr.is_ipv4() { 20 } else { 40 };
    let max_udp_payload = link_mtu.saturating_sub(ip + 8);
    for p in &view.pkts {
        if p.scripted || p.src != addr {
            continue;
        }
        rep.counters.inc("c14_datagram_sizes_checked");
        if p.len > max_udp_payload {
            rep.violate(
                P,
                "datagram-exceeds-link-mtu",
                "size".to_string(),
                format!(
                    "{addr} (link MTU {link_mtu}) emitted a datagram of {} bytes at t={} us; with IP and UDP headers that is {} > {link_mtu}",
                    p.len,
                    p.t,
                    p.len + ip + 8
                ),
                Some(p.t),
            );
        }
    }
}

/// Probe discipline from the sender model.
pub fn check_probe_discipline(rep: &mut CaseReport, m: &SenderModel) -> u32 {
    if m.broken.is_some() {
        return 0;
    }
    // outstanding probes: index -> length
    let mut probes: std::collections::BTreeMap<i64, usize> = Default::default();
    let mut n_probes = 0u32;
    // ACK processing: remove acknowledged probes (walk sends and acks in log order)
    let mut acks = m.acks.iter().peekable();
    for s in &m.sends {
        while let Some(a) = acks.peek() {
            if a.ev_idx < s.ev_idx {
                probes.retain(|i, _| *i > a.ack_idx && !a.sacked.contains(i));
                acks.next();
            } else {
                break;
            }
        }
        if s.is_fin {
            continue;
        }
        // an outstanding probe stops being one when its size has meanwhile been proven some other
        // way (payloads of that size received from the peer raise the endpoint's own segment size)
        let before = probes.len();
        probes.retain(|_, l| *l > s.seg_size);
        if probes.len() < before {
            rep.counters.inc("c14_outstanding_probes_overtaken_by_the_proven_size");
        }
        if !s.first_tx {
            // a probe re-sent with another length has been taken back and cut again
            if let Some(l) = probes.get(&s.idx) {
                if *l != s.len {
                    probes.remove(&s.idx);
                    if s.len > s.seg_size {
                        // re-cut as a (smaller) probe
                        n_probes += 1;
                        probes.insert(s.idx, s.len);
                    }
                }
            }
            continue;
        }
        rep.counters.inc("c14_first_transmissions_checked");
        if s.len > s.seg_size {
            n_probes += 1;
            rep.counters.inc("c14_probes_seen");
            if !s.is_newest {
                rep.violate(P, "probe-not-newest", "probe".to_string(), format!("seq {} ({} bytes > proven {}) sent at t={} us is not the newest segment", s.seq, s.len, s.seg_size, s.t), Some(s.t));
            }
            if let Some((i, l)) = probes.iter().next() {
                rep.violate(
                    P,
                    "two-probes-outstanding",
                    "probe".to_string(),
                    format!("seq {} ({} bytes > proven {}) sent at t={} us while the probe with index {i} ({l} bytes) is still unacknowledged", s.seq, s.len, s.seg_size, s.t),
                    Some(s.t),
                );
            }
            probes.insert(s.idx, s.len);
        } else if let Some((i, l)) = probes.iter().next() {
            // an ordinary segment behind an outstanding probe: the probe must be the newest segment
            rep.violate(
                P,
                "segment-behind-outstanding-probe",
                "probe".to_string(),
                format!("seq {} was first transmitted at t={} us while the probe with index {i} ({l} bytes) was still unacknowledged: the probe is no longer the newest segment", s.seq, s.t),
                Some(s.t),
            );
            probes.clear();
        }
    }
    n_probes
}

/// Convergence on a size black hole. `fit` is the largest payload that passes, `minp`/`maxp` the
/// protocol minimum and the link maximum payload of the sender.
pub fn check_convergence(rep: &mut CaseReport, m: &SenderModel, n_probes: u32, fit: usize, minp: usize, maxp: usize, probe_retx: usize) {
    if m.broken.is_some() {
        return;
    }
    let firsts: Vec<&crate::mon::sender::SendRec> = m.sends.iter().filter(|s| s.first_tx && !s.is_fin).collect();
    if firsts.len() < 150 {
        rep.counters.inc("c14_convergence_too_short");
        return;
    }
    rep.counters.inc("c14_convergence_cases_checked");
    let want = fit.clamp(minp, maxp);
    let tail_max = firsts[firsts.len() - 25..].iter().map(|s| s.len).max().unwrap_or(0);
    if tail_max != want {
        rep.violate(
            P,
            "not-converged",
            "convergence".to_string(),
            format!("after {} segments the segment size in use is {tail_max}; the largest payload that fits the path is {want} (protocol minimum {minp}, link maximum {maxp})", firsts.len()),
            None,
        );
    }
    let range = (maxp - minp).max(1) as f64;
    let bound = range.log2().ceil() as u32 + 2;
    let _ = probe_retx;
    if n_probes > bound {
        rep.violate(
            P,
            "too-many-probes",
            "convergence".to_string(),
            format!("{n_probes} probes were sent; the binary search between {minp} and {maxp} needs at most {bound}"),
            None,
        );
    }
    rep.counters.max("max_probes_in_a_case", n_probes as u64);
}
