//! C04 receiver honesty, judged on every packet the real (receiving) endpoint emits.
//!
//! Ground truth of "stored" is the `RxData` hook event (what the reassembler did with each
//! in-window data packet) plus the FIN rule (a FIN is taken only in sequence):
//!   * ack_nr == highest sequence number s such that everything up to s was stored;
//!     boundary cross-check without hooks: ack_nr never beyond what the script delivered;
//!   * selective-ACK bit i set <=> sequence number ack_nr+2+i is stored out of order (64 bits);
//!   * ack_nr never moves backwards;
//!   * wnd_size <= capacity - (bytes stored - bytes dequeued by the reader), where "dequeued"
//!     counts whole payloads (the read half takes a payload out of the queue when the
//!     application reads its first byte);
//!   * hooked snapshots: user queue <= capacity, and queue + reassembler <= capacity while the
//!     scripted sender respects the advertised window;
//!   * at the end, a reader that kept reading has obtained exactly the payloads of all sequence
//!     numbers up to the final ack_nr (acknowledged data was not discarded).
use std::collections::{BTreeMap, BTreeSet};

use librqbit_utp::verif::VerifEvent as V;

use crate::{
    events::{ApiOp, Ev, Event},
    verdict::CaseReport,
    view::WireView,
    wire,
};

pub const P: &str = "C04";

pub struct Params<'a> {
    pub real_is_initiator: bool,
    pub capacity: usize,
    pub lens: &'a [usize],
    pub respect_window: bool,
    pub reader_reads_to_end: bool,
    pub real_addr: std::net::SocketAddr,
}

pub fn check(rep: &mut CaseReport, events: &[Event], view: &WireView, p: &Params) {
    let conn = match view.conns.first() {
        Some(c) => c,
        None => return,
    };
    let first = match conn.first_data_seq(!p.real_is_initiator) {
        Some(s) => s,
        None => return,
    };
    let idx_of = |seq: u16| wire::seq_diff(seq, first) as i64;
    let n = p.lens.len() as i64;
    // maps
    let mut my_send: BTreeMap<usize, usize> = BTreeMap::new();
    for &pi in conn.dir(p.real_is_initiator) {
        my_send.insert(view.pkts[pi].idx, pi);
    }
    let mut peer_recv: BTreeMap<usize, usize> = BTreeMap::new();
    for &pi in conn.dir(!p.real_is_initiator) {
        for (_, ri) in &view.pkts[pi].recvs {
            peer_recv.insert(*ri, pi);
        }
    }
    let mut stored: BTreeSet<i64> = BTreeSet::new(); // indices stored (data and an accepted FIN)
    let mut stored_len: BTreeMap<i64, usize> = BTreeMap::new();
    let mut delivered: BTreeSet<i64> = BTreeSet::new(); // indices handed to the endpoint at all (boundary view)
    let mut contiguous: i64 = -1;
    let mut fin_accepted = false;
    let mut last_ack: Option<i64> = None;
    let mut read_bytes: u64 = 0;
    let mut stored_bytes_total: u64 = 0;
    let mut reader_dropped = false;
    let mut dead = false;
    let advance = |stored: &BTreeSet<i64>, contiguous: &mut i64| {
        while stored.contains(&(*contiguous + 1)) {
            *contiguous += 1;
        }
    };
    // in-order payload boundaries for the "dequeued" computation
    let dequeued = |read: u64, stored_len: &BTreeMap<i64, usize>, contiguous: i64| -> u64 {
        if read == 0 {
            return 0;
        }
        let mut off = 0u64;
        for (i, l) in stored_len.range(..=contiguous) {
            let _ = i;
            let end = off + *l as u64;
            if read <= end {
                // the payload holding byte read-1 has been taken out of the queue as a whole
                return end;
            }
            off = end;
        }
        off
    };
    for (i, e) in events.iter().enumerate() {
        if let Some(&pi) = peer_recv.get(&i) {
            if let Some(pk) = &view.pkts[pi].pkt {
                let idx = idx_of(pk.seq);
                if pk.ty == wire::ST_DATA {
                    delivered.insert(idx);
                } else if pk.ty == wire::ST_FIN {
                    delivered.insert(idx);
                    // a FIN is taken only when it is the next expected sequence number
                    if !fin_accepted && idx == contiguous + 1 && !dead {
                        fin_accepted = true;
                        // nothing beyond the FIN belongs to the stream: the prefix ends here (what
                        // was parked beyond it earlier stays parked, and is still reported by SACK)
                        stored.insert(idx);
                        stored_len.insert(idx, 0);
                        contiguous = idx;
                    }
                }
            }
            continue;
        }
        match &e.ev {
            Ev::Hook(V::RxData { id, seq_nr, len, outcome, .. }) if id.local == p.real_addr => {
                let idx = idx_of(*seq_nr);
                rep.counters.inc("c04_rx_events_seen");
                if *outcome == "unavailable" && p.respect_window && idx >= 0 && idx < n && !fin_accepted {
                    // the scripted sender only sends what fits the advertised byte window, yet the
                    // reassembler had no slot for it
                    rep.violate(
                        P,
                        "in-window-data-refused",
                        "reassembly-slots".to_string(),
                        format!(
                            "at t={} us data packet index {idx} ({} bytes), sent within the advertised window, was refused by the reassembler (no slot): a sender that respects the window still overflows the receiver",
                            e.t, len
                        ),
                        Some(e.t),
                    );
                }
                if *outcome == "consumed" && !fin_accepted {
                    if stored.insert(idx) {
                        stored_len.insert(idx, *len);
                        stored_bytes_total += *len as u64;
                    }
                    advance(&stored, &mut contiguous);
                }
            }
            Ev::Hook(V::Death { id, .. }) | Ev::Hook(V::VsockDropped { id, .. }) if id.local == p.real_addr => {
                dead = true;
            }
            Ev::Api { conn: 0, side: 0, op } => match op {
                ApiOp::ReadRet(Ok(k)) => read_bytes += *k as u64,
                ApiOp::DropReader => reader_dropped = true,
                _ => {}
            },
            Ev::Hook(V::PollEnd { id, snap, finished: None }) if id.local == p.real_addr => {
                rep.counters.inc("c04_snapshots_checked");
                if snap.rx.queue_len_bytes > snap.rx.queue_capacity {
                    rep.violate(P, "user-queue-over-capacity", "snapshot".to_string(), format!("at t={} us the reader's queue holds {} bytes, capacity {}", e.t, snap.rx.queue_len_bytes, snap.rx.queue_capacity), Some(e.t));
                }
                if p.respect_window && snap.rx.queue_len_bytes + snap.rx.ooq_len_bytes > snap.rx.queue_capacity {
                    rep.violate(
                        P,
                        "receive-buffer-overflow",
                        "snapshot".to_string(),
                        format!(
                            "at t={} us queue ({}) + reassembler ({}) bytes exceed the configured receive buffer ({}) although the sender respected the advertised window",
                            e.t, snap.rx.queue_len_bytes, snap.rx.ooq_len_bytes, snap.rx.queue_capacity
                        ),
                        Some(e.t),
                    );
                }
            }
            Ev::Send { .. } => {
                let pi = match my_send.get(&i) {
                    Some(x) => *x,
                    None => continue,
                };
                let wp = &view.pkts[pi];
                if wp.scripted {
                    continue;
                }
                let pk = match &wp.pkt {
                    Some(k) => k,
                    None => continue,
                };
                if pk.ty == wire::ST_SYN || pk.ty == wire::ST_RESET {
                    continue;
                }
                rep.counters.inc("c04_emitted_packets_checked");
                let a = idx_of(pk.ack);
                // ack == contiguous prefix of what was stored
                if a != contiguous {
                    rep.violate(
                        P,
                        if a > contiguous { "ack-overstates" } else { "ack-understates" },
                        "ack".to_string(),
                        format!(
                            "packet emitted at t={} us acknowledges index {a} (ack_nr {}), but the highest sequence number up to which everything was stored has index {contiguous}",
                            e.t, pk.ack
                        ),
                        Some(e.t),
                    );
                }
                // boundary view: never beyond what was delivered to the endpoint
                let mut deliv_prefix = -1i64;
                while delivered.contains(&(deliv_prefix + 1)) {
                    deliv_prefix += 1;
                }
                if a > deliv_prefix {
                    rep.violate(
                        P,
                        "ack-beyond-delivered",
                        "ack".to_string(),
                        format!("packet emitted at t={} us acknowledges index {a}, but the script has delivered a contiguous prefix only up to index {deliv_prefix}", e.t),
                        Some(e.t),
                    );
                }
                if let Some(l) = last_ack {
                    if a < l {
                        rep.violate(P, "ack-moved-backwards", "ack".to_string(), format!("ack index went from {l} to {a} at t={} us", e.t), Some(e.t));
                    }
                }
                last_ack = Some(last_ack.map_or(a, |l: i64| l.max(a)));
                // selective ACK (pure state packets carry it)
                if pk.ty == wire::ST_STATE && fin_accepted {
                    // every bit now stands for a number beyond the end of the stream: whatever was
                    // parked there is no data of this connection, either report is honest
                    rep.counters.inc("c04_sacks_beyond_the_fin_not_judged");
                } else if pk.ty == wire::ST_STATE {
                    rep.counters.inc("c04_state_packets_checked");
                    let ooo: Vec<i64> = stored.range(a + 2..).copied().collect();
                    let any_ooo = stored.range(a + 1..).next().is_some();
                    match pk.sack() {
                        Some(bits) => {
                            rep.counters.inc("c04_sacks_checked");
                            for b in 0..64usize {
                                let set = bits.get(b / 8).map(|x| (x >> (b % 8)) & 1 == 1).unwrap_or(false);
                                let want = stored.contains(&(a + 2 + b as i64));
                                if set != want {
                                    rep.violate(
                                        P,
                                        if set { "sack-bit-overstates" } else { "sack-bit-missing" },
                                        "sack".to_string(),
                                        format!(
                                            "packet emitted at t={} us (ack index {a}): selective-ACK bit {b} (index {}) is {}, but that packet is {}",
                                            e.t,
                                            a + 2 + b as i64,
                                            if set { "set" } else { "clear" },
                                            if want { "stored out of order" } else { "not stored" }
                                        ),
                                        Some(e.t),
                                    );
                                    break;
                                }
                            }
                            if bits.len() != 8 {
                                rep.violate(P, "sack-length", "sack".to_string(), format!("selective ACK of {} bytes emitted", bits.len()), Some(e.t));
                            }
                        }
                        None => {
                            if !ooo.is_empty() && ooo.iter().any(|x| *x < a + 2 + 64) {
                                rep.violate(
                                    P,
                                    "sack-missing",
                                    "sack".to_string(),
                                    format!("state packet emitted at t={} us (ack index {a}) carries no selective ACK although indices {:?} are stored out of order", e.t, &ooo[..ooo.len().min(5)]),
                                    Some(e.t),
                                );
                            }
                        }
                    }
                    let _ = any_ooo;
                }
                // window honesty
                if !dead {
                    rep.counters.inc("c04_windows_checked");
                    let deq = dequeued(read_bytes, &stored_len, contiguous);
                    let buffered = stored_bytes_total.saturating_sub(deq);
                    let free = (p.capacity as u64).saturating_sub(buffered);
                    if pk.wnd as u64 > free {
                        rep.violate(
                            P,
                            "window-overstates",
                            "window".to_string(),
                            format!(
                                "packet emitted at t={} us advertises a window of {} bytes, but the {}-byte receive buffer holds {} bytes ({} stored, {} taken by the reader): {} free",
                                e.t, pk.wnd, p.capacity, buffered, stored_bytes_total, deq, free
                            ),
                            Some(e.t),
                        );
                    }
                    if reader_dropped && pk.wnd != 0 && pk.ty != wire::ST_FIN {
                        rep.counters.inc("c04_windows_after_reader_drop");
                    }
                }
            }
            _ => {}
        }
    }
    let _ = n;
    // end: nothing acknowledged was discarded
    if p.reader_reads_to_end && !reader_dropped {
        let acked_bytes: u64 = stored_len.range(..=contiguous).map(|(_, l)| *l as u64).sum();
        let ended = events.iter().any(|e| matches!(&e.ev, Ev::Api { conn: 0, side: 0, op: ApiOp::ReadRet(Ok(0)) } | Ev::Api { conn: 0, side: 0, op: ApiOp::ReadRet(Err(_)) }));
        if ended {
            rep.counters.inc("c04_final_drains_checked");
            if read_bytes != acked_bytes {
                rep.violate(
                    P,
                    "acknowledged-data-discarded",
                    "drain".to_string(),
                    format!("the endpoint acknowledged everything up to index {contiguous} ({acked_bytes} bytes), the reader, which read to the end, obtained {read_bytes} bytes"),
                    None,
                );
            }
        }
    }
    if events.iter().any(|e| matches!(&e.ev, Ev::Note(n) if n.starts_with("MISMATCH"))) {
        rep.violate(P, "delivered-bytes-altered", "drain".to_string(), "the reader obtained bytes that differ from the payloads the script sent".to_string(), None);
    }
}
