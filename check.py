#!/usr/bin/env python3
"""Driver for the runtime-monitoring checks of librqbit-utp (see DESIGN.md).

usage: python3 check.py <property id> [quick|thorough]
       python3 check.py replay <replay file>
       python3 check.py build

Exit codes: 0 = property held on everything explored (KNOWN-FINDING lines allowed),
            1 = violation not listed in known_findings.json (VIOLATION line printed),
            2 = inconclusive / broken (never happens on an unchanged tree; never a verdict).
Honours VERIF_SEED (int), VERIF_TIER (quick|thorough), VERIF_JOBS, VERIF_BUDGET_S.
"""
import fcntl
import json
import os
import subprocess
import sys
import time

ROOT = os.path.dirname(os.path.abspath(__file__))
HARNESS = os.path.join(ROOT, "harness")
SIMCHECK = os.path.join(HARNESS, "target", "release", "simcheck")
EVIDENCE = os.path.join(ROOT, "evidence")
REPLAYS = os.path.join(ROOT, "replays")
KNOWN = os.path.join(ROOT, "known_findings.json")

ENV = dict(os.environ)
ENV.update({"CARGO_NET_OFFLINE": "true", "CARGO_TERM_COLOR": "never"})

# Per-property settings. level: evidence level. require: counters that must be non-zero for the
# run to count as having observed the property at all (otherwise: inconclusive, exit 2).
HOOK_COMMITS = ["db69c86", "286b4e6", "19627ec"]
NOT_CLAIMED = {}

SIM_NOTE = ("trusted base: the harness itself (simulated network/clock, independent wire codec, oracles), tokio's paused clock, "
            "and the cfg-guarded hooks in /repo; real UDP sockets and preemptive thread interleavings are outside the simulated runs")

PROPS = {
    "C01": dict(
        level="exploration",
        level_text="Randomised exploration with runtime oracles: tens of thousands (quick) to hundreds of thousands (thorough) of "
                   "generated whole-stack executions (two real sockets, all fault classes, all configuration axes) with a content "
                   "oracle at the read boundary, a per-sequence-number content oracle on the wire and accounting cross-checks on "
                   "hooked state. Right level for a property quantified over fault sequences x schedules x inputs x configurations: "
                   "no finite enumeration exists, so reach comes from workload diversity; the evidence reports what was observed. Real-thread stage: mtstress with the content oracle at every read, mixed and growth workloads (plain in both tiers, under ThreadSanitizer in the thorough tier); probe_faults family: exact faults around every size probe of a loss-free baseline, including an adaptive straggler that delivers the old copy of a probe right after the sender transmitted its sequence number again; Miri stage (thorough): small duplex cases interpreted for undefined behaviour in the dependencies' unsafe code as the library drives it.",
        level_note=SIM_NOTE,
        technique="runtime monitoring: boundary + wire content oracles over simulated executions",
        budget=dict(quick=150, thorough=1500),
        require=["c01_reads_checked", "c01_wire_data_packets_checked", "c01_probe_splits_seen",
                 "c01_wire_retransmissions", "c01_snapshots_checked"],
        rule="cases = generated (configuration, fault plan, application schedule) triples of the duplex family run on the "
             "deterministic simulator; a case is non-trivial if the reader-side content oracle checked at least one byte and "
             "more than 4 datagrams were exchanged; distinct = distinct hash of the normalised wire trace (types, relative "
             "seq/ack numbers, sizes, fates)",
        assumptions=[
            "network, clock and randomness are simulated (SimTransport/SimEnv); the UDP adapter is outside the monitored code",
            "single-threaded deterministic schedule: task interleavings only at await points (preemptive interleavings: thorough-tier sanitizer passes)",
            "payload is a pseudo-random function of the stream offset, so offset/duplication/reordering errors change bytes",
        ],
    ),
    "C02": dict(
        level="exploration",
        level_text="Randomised exploration plus a single-fault sweep, decided on virtual time: (a) budgeted-loss (fair-lossy) "
                   "whole-stack executions must deliver every accepted byte and return from flush/shutdown before a generous "
                   "virtual deadline (a hang jumps there at no cost); (b) every single-datagram drop/duplicate/delay position of "
                   "small baseline traces; (c) loss-free fixed-latency executions checked for wire silence > 2L+40ms, idle "
                   "write/shutdown promptness and reader wake-ups in the same logical step. Unbounded 'eventually' is restated as "
                   "bounded progress; failures are classified by root cause so that one known stall cannot hide another. A read that is pending when the peer's FIN is handed over in sequence returns in that step (end-of-stream wake-up). Real-thread stage: mtstress (multi-threaded runtime, real clock, writers / readers on other threads than the connection tasks) with completion and content oracles, plain in both tiers and under ThreadSanitizer in the thorough tier; tiny-ring, spin-poll and ping (write-flush-write) workloads with lost wake-up oracles on fresh wakers and on hooked snapshots (a writer registered as waiting next to free space, the connection task registered as waiting next to buffered bytes).",
        level_note=SIM_NOTE + "; fairness model: per-identity drop budget 1, handshake packets protected (SYNs are not retransmitted, "
                   "the accepting side gives up after 1 s by design), inactivity limit configured large in the fair-lossy family",
        technique="runtime monitoring: bounded-progress and promptness oracles on virtual time + single-fault sweep",
        budget=dict(quick=200, thorough=2400),
        require=["c02_eof_wakeups_checked", "c02_completion_cases", "c02_directions_completed", "c02_idle_shutdowns_checked", "c02_idle_writes_checked",
                 "c02_reader_wakeups_checked", "c02_single_fault_positions_run", "dropped_datagrams"],
        rule="cases = generated duplex executions (fair-lossy / loss-free profiles) and (baseline, fault position) pairs of the "
             "single-fault sweep; non-trivial = at least one datagram dropped (fair-lossy), more than 6 datagrams (loss-free), "
             "a fault position inside the trace (sweep); distinct = distinct normalised wire trace hash",
        assumptions=[
            "bounded progress on virtual time stands in for 'eventually' (deadline 6 h virtual, stall = no byte read for 30 virtual minutes)",
            "the network is fair: no datagram identity is dropped more than once; SYN / SYN-ACK / first data packet are never dropped",
            "uTP has no half-close: each side closes only after it has read everything it expects",
        ],
    ),
    "C03": dict(
        level="fault_enumeration",
        level_text="Fault injection at generated points of generated executions, with runtime oracles: the network is cut at the "
                   "very instant a flush/shutdown returns Ok, the peer vanishes at a generated datagram index, a spoofed RESET or a "
                   "token cancellation hits at a generated time, plus the general duplex family with all loss patterns and call "
                   "orders. Oracles: Ok implies all covered bytes were acknowledged and still reach a reading peer; EOF only after "
                   "every byte below the FIN and never short of a successful shutdown; after a connection ends every pending / later "
                   "call returns at once and honestly; a vanished peer ends the connection within the inactivity limit. General family, any network: what a successful flush / shutdown covered is compared with what a peer application that reads to the end of its stream actually got. Real-thread stage: mtstress growth workload whose writers end with flush().await while the TX ring grows under them on another thread (every byte a successful flush covered must be read, and checked, by the peer).",
        level_note=SIM_NOTE,
        technique="runtime monitoring with fault injection: cut-at-Ok, vanish, RESET, cancel; history oracles at the API boundary",
        budget=dict(quick=200, thorough=2400),
        require=["c03_ok_coverage_vs_peer_reads_checked", "c03_ok_returns_checked", "c03_cut_cases_checked", "c03_eofs_checked", "c03_eof_vs_shutdown_ok_checked",
                 "c03_deaths_checked", "c03_returns_after_death_checked", "c03_vanish_cases_checked", "c03_resets_on_live_connection"],
        rule="cases = generated duplex executions with one injected fault (kind, side, point) each; non-trivial = at least one of "
             "the oracles' triggers occurred (an Ok return, an EOF, a connection end, a cut, a vanish with data outstanding); "
             "distinct = distinct normalised wire trace hash",
        assumptions=[
            "fault points are sampled (log-uniform over datagram indices / times), not enumerated exhaustively",
            "a cut drops everything sent at or after the instant of the Ok return; datagrams already in flight still arrive",
            "send back-pressure is switched off where 'at once' is judged (a connection task does nothing while the transport refuses to send)",
        ],
    ),
    "C04": dict(
        level="exploration",
        level_text="Trace oracle on every packet the receiving endpoint emits, over generated arrival scripts from the scripted "
                   "peer (in order, shuffled within windows of 1..300 packets, duplicated, dropped-then-resent, far beyond the "
                   "reassembly window, FIN out of sequence, data after FIN; payload sizes 1 B..link maximum; readers greedy / slow / "
                   "stalled / delayed / dropped or stopped mid-stream; receive buffers from 2 segments to 1 MiB; ISNs placed across "
                   "the 16-bit wrap). Ground truth of 'stored' comes from a hook on the reassembler's decision; independent of it, "
                   "ack_nr is also bounded by the contiguous prefix the script delivered. Checked: ack_nr, every SACK bit both "
                   "ways (64 deep), ack monotonicity, advertised window vs exact free space (whole-payload dequeue accounting), "
                   "hooked queue/reassembler byte bounds, refusal of in-window data, and the final drain (acknowledged data reaches "
                   "a reader that reads to the end, unaltered).",
        level_note=SIM_NOTE + "; the RxData hook (what the reassembler did with a packet) is trusted as ground truth for 'stored'",
        technique="runtime monitoring: scripted-peer arrival patterns + per-emitted-packet oracle against a stored-set model",
        budget=dict(quick=200, thorough=2400),
        require=["c04_emitted_packets_checked", "c04_sacks_checked", "c04_windows_checked", "c04_snapshots_checked", "c04_final_drains_checked"],
        rule="a case is one generated (socket configuration, reader behaviour, payload sizes, arrival script) tuple; non-trivial = more "
             "than 2 emitted packets judged; distinct = distinct normalised wire trace",
        assumptions=["data beyond an accepted FIN is not part of the stream", "snapshots at the instant a connection ends are not judged (the close path hands parked data to the reader)"],
    ),
    "C07": dict(
        level="exploration",
        level_text="Timing oracle on virtual time over generated arrival scripts (one stimulus per logical step; inter-arrival "
                   "times 0..200 ms incl. 39/40/41 ms, bursts, idle stretches of 1.5..8 s): each accepted in-order packet covered by "
                   "an emitted ack_nr within 40 ms + 3 ms; an acknowledgement in the very step for: unacknowledged bytes reaching "
                   "twice the endpoint's own (growing) segment size, out-of-order arrival or gap fill, duplicates, in-sequence FIN, "
                   "an application read that re-opens a zero window; and no emission at all after a second without stimulus, "
                   "application activity or debt. A fifth of the timing scripts run with transport back-pressure (the send call refuses datagrams for 1-120 ms); refused datagrams are no emissions, obligations inside a blockage fall due at its end. Deadline wake-up monitor on the hooked snapshots: a poll that ends with the delayed-ACK timer armed for instant D is followed by another poll no later than D.",
        level_note=SIM_NOTE,
        technique="runtime monitoring: scripted-peer arrival timing + obligation-tracking oracle on virtual time",
        budget=dict(quick=200, thorough=2400),
        require=["c07_delayed_acks_checked", "c07_immediate_acks_checked", "c07_threshold_crossings_seen", "c07_out_of_order_or_gap_fill_seen",
                 "c07_duplicates_seen", "c07_fins_seen", "c07_window_reopenings_seen", "c07_idle_stretches_observed"],
        rule="a case is one generated (socket configuration, reader behaviour, payload sizes, timed arrival script) tuple; "
             "non-trivial = more than 2 emissions judged; distinct = distinct normalised wire trace",
        assumptions=["tolerance 3 ms: timer wheel rounds up to 1 ms and a logical step is 1 ms", "judged on a pure receiver (the endpoint's application writes nothing)"],
    ),
    "C05": dict(
        level="exploration",
        level_text="Trace oracle over generated ACK/window histories produced by a scripted raw-uTP peer (instant delivery, so the "
                   "window 'most recently advertised to it' is unambiguous): at every first transmission of a sequence number, "
                   "outstanding bytes vs the advertised window (outside loss episodes), no new payload after a processed zero "
                   "window, the slow-start bound 2*S + acknowledged bytes before the first loss event, and one segment per timer "
                   "expiry with no new payload in the peer's silent phase. The sender's knowledge (ACKs, SACKs, window, proven "
                   "segment size, loss episodes) is reconstructed from the wire alone. The scripted peer also reorders without loss (selective ACKs of fewer than three segments, no loss event: the slow-start bound stays in force) and, while silent for good, emits packets that acknowledge nothing new and are not duplicate ACKs (own data, changed window): after a timeout only the oldest unacknowledged segment may be transmitted until new data is acknowledged.",
        level_note=SIM_NOTE + "; the scripted peer (harness/src/peer.rs) and the wire-level sender model (harness/src/mon/sender.rs)",
        technique="runtime monitoring: scripted-peer stimulus + wire-trace oracle on every first transmission",
        budget=dict(quick=200, thorough=2400),
        require=["c05_silent_phases_with_non_acknowledging_packets", "c05_first_transmissions_checked", "c05_window_bound_checked", "c05_slow_start_bound_checked", "c05_timeout_sends_checked"],
        rule="a case is one generated (socket configuration, write pattern, peer policy: ACK mode, pretended losses, window mode "
             "const/walk/zero-then-open/shrink, silence) script; non-trivial = more than 2 first transmissions were judged; "
             "distinct = distinct normalised wire trace hash",
        assumptions=["size-probe expiry is not counted as a retransmission timeout (the library deliberately does not treat it as congestion)",
                     "a data packet sent with neither a packet handed over nor an application write at that instant is taken to be the timeout path"],
    ),
    "C06": dict(
        level="exploration",
        level_text="Trace oracle over generated loss / ACK histories produced by the scripted peer (pretended losses of first and "
                   "repeated transmissions, cumulative-only or SACK personality, duplicate and stale ACKs, delayed / every-n ACKs, "
                   "silence for a while or for good with retry limits 2..14): which segment a timer expiry retransmits, doubling of "
                   "successive timeout gaps within [200 ms, 60 s], the retry cap and the failure time it predicts, fast retransmit of "
                   "the first hole in the very step of the third duplicate ACK / SACK evidence, never retransmitting acknowledged "
                   "data, and byte-identical content of every transmission of a sequence number (C01 wire oracle). Deadline wake-up monitor for the retransmission and recovery pipe-expiry timers on the cases that record snapshots.",
        level_note=SIM_NOTE + "; fast retransmit is judged only for the first loss detection of an episode (no retransmission since the last "
                   "ACK that covered everything sent) and only on realistic ACK histories (duplicates only while the peer holds data out of order)",
        technique="runtime monitoring: scripted-peer stimulus + wire-trace oracles on timing and content of every (re)transmission",
        budget=dict(quick=200, thorough=2400),
        require=["c06_transmissions_checked", "c06_timeout_retransmissions_checked", "c06_backoff_steps_checked", "c06_caps_checked",
                 "c06_fast_retransmit_triggers_checked", "c06_wire_content_checked"],
        rule="a case is one generated (socket configuration, write pattern, peer loss/ACK policy) script; non-trivial = more than 2 "
             "data transmissions judged; distinct = distinct normalised wire trace hash",
        assumptions=["a size probe that is taken back and re-cut is a new segment under the old sequence number: its transmission count starts again and its expiry is not a congestion timeout",
                     "timing tolerance 3 ms (timer wheel rounding + one logical step)"],
    ),
    "C08": dict(
        level="exploration",
        level_text="Hook, boundary and wire oracles over generated life-cycle executions: a subject socket with max_live_vsocks 1..4 "
                   "against a second real socket goes through 1..3 rounds; every round opens as many connections as the limit allows "
                   "(connecting and accepting), moves bytes both ways and ends each connection in a generated way (graceful close; "
                   "both halves dropped mid-transfer; shutdown while the peer application idles; peer dropping first while the "
                   "subject keeps writing; injected RESET; dropping while the peer has stopped reading), optionally with the path cut "
                   "in one or both directions mid-round; loss up to 15 %, duplication, reordering. After a bounded virtual wait "
                   "(inactivity limit + 150 s) the next round needs every slot again; a final round re-opens max_live_vsocks "
                   "connections; half of the cases then cancel the socket's token with 0..limit connections open and data in flight. "
                   "Checked: connection object dropped within the bound after the application let go / at once on failure; "
                   "dispatcher table entries always belong to a live object and the table is empty after every round; re-opening "
                   "never fails for lack of a slot; no datagram with a dropped connection's identifiers; after cancel every object "
                   "gone within two steps, held halves / accept / connect report errors, socket silent. Deaf-sender family: after the application let go, a scripted peer acknowledges the FIN with a data packet, never closes and keeps sending into the zero window for ten virtual minutes; deadline wake-up monitor for the inactivity / final-chance timer.",
        level_note=SIM_NOTE + "; 'bounded time' is judged against one generous bound in virtual time, so a slower but still "
                   "bounded termination is not distinguished from the present one",
        technique="runtime monitoring: life-cycle workload with fault injection + hooked object/table state, API log and wire trace oracles",
        budget=dict(quick=200, thorough=2400),
        require=["c08_connection_ends_judged", "c08_failed_connections_seen", "c08_empty_table_checks", "c08_table_observations",
                 "c08_ended_connections_checked_for_silence", "c08_cancellations", "c08_connections_live_at_cancel",
                 "c08_operations_after_cancel_checked"],
        rule="a case is one generated (limit, socket options, rounds x connection endings x round fault, network, cancel plan) "
             "tuple; non-trivial = at least 2 connection ends judged; distinct = distinct normalised wire trace; coverage_labels "
             "lists the (ending, round fault) pairs exercised",
        assumptions=["after the peer's FIN was received, EOF (not an error) is the right answer of a read after cancel",
                     "a connect that fails because its fresh connection id collides with a live one (C12) is not a slot leak"],
    ),
    "C09": dict(
        level="exploration",
        level_text="Two oracles. Arithmetic: the real seq_nr_offset / SeqNr ordering against true modular distance for every pair "
                   "of 16-bit values within +-8192 of each other (quick: complete for that band, 1.07e9 pairs, plus random pairs; "
                   "thorough: all 2^32 pairs, judged on the band). Metamorphic: the same whole-stack case run twice, identical but "
                   "for the values random_u16 hands out (small vs placed shortly before 65535, connection ids included); the "
                   "normalised wire traces and the application histories with their virtual timestamps must be equal. The "
                   "simulator's determinism (self-checked on every run) is what makes equality the right oracle. Script-pairs family: receiver, sender and handshake scripts are run under 3-4 placements of the two initial sequence numbers (local below remote, remote below local, either wrapping inside the script) and every emission (time, type, relative numbers, window, SACK bits, length) and application return must be identical.",
        level_note=SIM_NOTE + "; the band +-8192 is what 1 MiB buffers allow down to a 176-byte link MTU",
        technique="runtime monitoring: banded-exhaustive differential check of the sequence arithmetic + metamorphic trace comparison",
        budget=dict(quick=200, thorough=2400),
        require=["c09_pairs_checked", "c09_pairs_compared", "c09_runs_crossing_the_wrap", "c09_runs_with_more_than_1024_in_flight"],
        rule="arithmetic cases = slices of the pair space (every pair in the band is evaluated); metamorphic cases = (configuration, "
             "fault plan, schedule, two placements of the initial numbers); every fifth metamorphic case uses a small MTU, 1 MiB "
             "buffers and a bulk transfer so that more than 1024 packets are in flight while the numbers wrap; distinct = distinct "
             "slice / distinct normalised wire trace",
        assumptions=["initial sequence numbers and connection ids are injected through the UtpEnvironment hook",
                     "distances beyond +-8192 (link MTU below 176 bytes with 1 MiB buffers) are not judged"],
    ),
    "C10": dict(
        level="exploration",
        level_text="Three workload families under panic / internal-error / isolation monitors. (1) hostile: 2..5 real sockets with "
                   "2..8 token-identified connections and an attacker that sees the wire and spoofs any address: 20..400 datagrams "
                   "per case aimed at one live connection's exact identifiers in both directions (every packet type, sequence / "
                   "acknowledgement numbers at 0, +-1, +-50, +-2000, +-2^15 and random, windows 0..2^32-1, selective ACKs and "
                   "unknown extensions of length 0..255 incl. lying lengths, payloads 0..20000 bytes, truncations, bad version / "
                   "type nibbles, verbatim replays) plus noise, unknown ids / peers and a few foreign SYNs; afterwards fresh "
                   "connects between every pair used. (2) script_scan: the scripted-peer walks of C04/C05/C06/C07/C17 with the peer "
                   "itself hostile (same mutations, every handshake / teardown state as start point). (3) duplex_scan: the general "
                   "fault / chaos family of C01. Checked: no panic; no 'bug' error from a connection end, an API call or a WARN line; "
                   "bystander connections keep content, demultiplexing and (loss-free network) completion; post-attack connects are "
                   "served; hooked per-connection buffering (user queue, reassembly slots x 16 KiB, TX ring, segment list, inbound "
                   "channel) within configured sizes. Miri stage (thorough): hostile scripted-peer walks and small duplex cases interpreted by Miri. accept_service stage: foreign hosts send bare SYNs carrying the very connection ids the legitimate clients use while those connect; every legitimate connect must succeed, be paired and read back its own token.",
        level_note=SIM_NOTE + "; the attacker never sends a datagram that names a connection other than its target (that would "
                   "not be 'aimed at one connection id'); a bystander damaged by a known same-connection mechanism (C01 known finding) "
                   "is counted, not judged",
        technique="runtime monitoring: hostile-datagram workload (on-path attacker, hostile scripted peer) + panic / bug-error / "
                  "bystander-isolation / buffer-bound monitors",
        budget=dict(quick=300, thorough=3600),
        require=["c10_hostile_datagrams_handed_to_sockets", "c10_cases_aimed_at_a_live_connection", "c10_target_connection_broken",
                 "c10_target_connection_survived", "c10_post_attack_connects_checked", "c10_snapshots_checked_for_bounds",
                 "c10_hostile_peer_datagrams", "c10_logs_scanned_for_panic_and_bug", "c12_bytes_content_checked",
                 "c12_demux_deliveries_checked"],
        rule="a case is one generated (sockets, connections, network, attack plan) tuple, one hostile scripted-peer walk or one duplex "
             "execution; non-trivial = at least 10 hostile datagrams handed to sockets with 2 connections established (hostile) / "
             "more than 3 (10) datagrams (scans); distinct = distinct normalised wire trace",
        assumptions=["a SYN flood is not 'traffic aimed at one connection id': at most 3 foreign SYNs per case"],
    ),
    "C11": dict(
        level="exploration",
        level_text="Differential runtime oracle: the library's header and message parsers against an independent BEP-29 codec written "
                   "from the specification, over a structural grid (all 256 type/version nibble pairs x all extension chains up to "
                   "depth 2 over ids {1,2,3,255} x lengths {0,1,3,4,5,8,9,255}, depth 3-4 sampled, 3 payload sizes, every truncation "
                   "point), random strings, mutated packets and generated header values (serialize -> parse round trip, parse -> "
                   "serialize -> parse with the documented 64-bit SACK normalisation); every parser call under catch_unwind. Plus "
                   "every datagram real sockets emit in generated whole-stack executions, checked by the independent parser for "
                   "version, payload rule, extension shape and the connection id owed to the direction. Miri stage (thorough): the differential codec oracle over generated strings, interpreted by Miri. Emitted RESETs (the refusal of a SYN at a full backlog) carry the refused SYN's own connection id and acknowledge its sequence number.",
        level_note="trusted base: harness/src/wire.rs (independent codec) and the statement of the normalisations (SACK truncated / "
                   "padded to 64 bits, last SACK extension wins, close reason = extension 3 of length 4)",
        technique="runtime monitoring: differential oracle against an independent codec over a structural grid + emitted-traffic monitor",
        budget=dict(quick=120, thorough=1500),
        require=["c11_strings_parsed", "c11_accepted_by_both", "c11_rejected_by_both", "c11_header_roundtrips", "c11_reserialized",
                 "c11_emitted_datagrams_checked", "c11_emitted_conn_ids_checked"],
        rule="grid cases = one (type nibble, version nibble) pair each with all its chains/payloads/truncations; random cases = 3000 "
             "(quick) strings / mutations / header values each; emitted cases = generated duplex executions; non-trivial = at least "
             "one string parsed (grid/random) or more than 3 datagrams emitted; distinct = distinct nibble pair / string-set hash / "
             "wire trace hash",
        assumptions=["byte-identical re-encoding is not demanded for SACK extensions that are not 8 bytes long (the code documents the 64-bit normalisation)"],
    ),
    "C12": dict(
        level="exploration",
        level_text="Boundary, hook and table oracles over generated multi-socket executions: 2..5 real sockets, 3..24 connections "
                   "between them (several per pair, both directions, in bursts or spread out), each identified end to end by a "
                   "token the connector writes first and carrying its own two generator streams; in 60 % of the cases every "
                   "connection uses the same initial sequence numbers and the sockets' connection id counters start at the same or "
                   "adjacent values (so receive ids collide wherever the code lets them); max_live_vsocks 1..6 on half of the "
                   "sockets; loss, duplication, reordering. Checked: every byte read is the byte the peer of that connection wrote "
                   "at that offset, tokens intact, one accepted stream per connect; every payload offered to a reassembler came in "
                   "a datagram naming that connection; live objects never share (remote, receive id), an accepted connection never "
                   "takes the id of a connect in progress, no duplicate table key; live objects and table entries within the limit; "
                   "on a loss-free network every established connection completes whatever else was attempted or refused. accept_service stage (see C10): equal connection ids from different addresses must not disturb each other.",
        level_note=SIM_NOTE + "; a connection that was handed datagrams of an earlier incarnation of its own (address, id) key is "
                   "not judged on content (the protocol has no TIME_WAIT and the family removes the protection of random "
                   "sequence numbers on purpose); sharing a send id with a peer-side lingering incarnation is counted, not judged",
        technique="runtime monitoring: multi-connection workload with forced identifier collisions + per-connection content, "
                  "demultiplexing (hook vs wire) and table-state oracles",
        budget=dict(quick=200, thorough=2400),
        require=["c12_bytes_content_checked", "c12_demux_deliveries_checked", "c12_connection_objects", "c12_table_observations",
                 "c12_connections_established", "c12_connects_refused_by_limit"],
        rule="a case is one generated (sockets, limits, identifier plan, connection schedule, network) tuple; non-trivial = at "
             "least 2 connections established; distinct = distinct normalised wire trace",
        assumptions=["at most 4 connects are outstanding per (socket, address) (MAX_CONNECTING_PER_ADDR); a 5th concurrent one fails by design"],
    ),
    "C13": dict(
        level="exploration",
        level_text="Hook, wire and boundary oracles over four generated shapes of accept/connect traffic on one listening socket with "
                   "1..4 real client sockets (token written by the connector, echoed with the accept index by the stream that read "
                   "it) and scripted raw SYN sources: Order (SYNs pile up before / between paced sequential or 2..3 concurrent accept "
                   "calls, SYN datagrams duplicated by the network or the source), Backlog (25..50 SYNs with nobody accepting, then "
                   "a sequential acceptor), Abandon (1..45 accept futures and 1..4 connect futures dropped mid-call, then ordinary "
                   "connects incl. from the same client), Limit (max_live_vsocks 1..3 connections held, one more SYN and a waiting "
                   "accept, then a slot released). Checked: every successful connect reads back its own token from the one stream "
                   "that read it; incoming connection objects are created in SYN arrival order; never more than 32 SYNs retained, a "
                   "new SYN at a full backlog gets exactly one RESET (SYN's id, ack = SYN's seq) and never a stream, a SYN with room "
                   "or a copy of a retained SYN never gets one; copies of one SYN never yield two live objects; connects after the "
                   "abandonment all succeed; the waiting accept completes within one step of the slot's release. Accept calls that are polled once and dropped before the dispatcher runs (acceptors nobody waits on) are mixed into the Order and Abandon shapes.",
        level_note=SIM_NOTE + "; a copy of a SYN that arrives after its first connection has ended yields a new stream (no TIME_WAIT "
                   "in the protocol): counted, not judged",
        technique="runtime monitoring: accept/connect workload with cancellation and SYN duplication + hooked queue/table state, wire and token-echo oracles",
        budget=dict(quick=200, thorough=2400),
        require=["c13_successful_connects", "c13_incoming_objects_checked_for_order", "c13_syns_arriving_at_a_full_backlog",
                 "c13_resets_emitted", "c13_duplicate_syn_copies_seen", "c13_copies_of_a_retained_syn",
                 "c13_cases_with_abandoned_accepts", "c13_cases_with_abandoned_connects", "c13_slot_waits_checked",
                 "c13_objects_created_for_a_dead_acceptor"],
        rule="a case is one generated (shape, listener options, clients, connect / raw SYN schedule, accept schedule, network) tuple; "
             "non-trivial = at least 2 distinct SYNs reached the listener; distinct = distinct normalised wire trace; coverage_labels "
             "lists the shapes",
        assumptions=["which SYNs must be refused is decided only while no accept call is outstanding (exact from the hooked queue length)"],
    ),
    "C14": dict(
        level="exploration",
        level_text="Wire oracles over three generated families: (1) whole-stack duplex executions with link MTUs 120..9000 per side "
                   "(equal or different), a silent size black hole and/or EMSGSIZE at sizes anywhere between the protocol minimum "
                   "and the link MTU, both address families; (2) convergence runs (bulk transfer, nothing lost but oversize "
                   "datagrams; thorough tier: every path MTU value for the drawn link MTUs); (3) a scripted peer that sends payloads "
                   "far larger than the local link allows. Checked: every emitted datagram against the sender's link MTU; every "
                   "first transmission against the size proven at that moment, probes being the newest segment and alone; content "
                   "(C01 oracles) across failed probes; final segment size equals the largest payload that fits, probe count "
                   "<= ceil(log2(range)) + 2, transfer complete. A third of the duplex cases add ordinary loss (1-3 %) to the size black hole; stream corruption is attributed to the known probe re-cut finding only if everything before the probe had been acknowledged to the sender when it was re-cut. probe_faults family: exact faults around every size probe of a loss-free baseline, including an adaptive straggler (two passes) that delivers the old copy of a probe right after the sender transmitted its sequence number again.",
        level_note=SIM_NOTE + "; 'proven size' is reconstructed from the wire (largest payload acknowledged to or received by the sender)",
        technique="runtime monitoring: size/probe-discipline oracle on every datagram + convergence oracle on black-holing simulated paths",
        budget=dict(quick=240, thorough=3000),
        require=["c14_datagram_sizes_checked", "c14_first_transmissions_checked", "c14_probes_seen", "c14_probe_splits_seen",
                 "c14_convergence_cases_checked", "c14_content_reads_checked"],
        rule="a case is one generated (link MTUs, path limit kind and size, address family, transfer) tuple; non-trivial = more than "
             "4 first transmissions judged / a convergence verdict reached / more than 4 datagram sizes judged; distinct = distinct "
             "normalised wire trace",
        assumptions=["convergence is only promised, and only checked, when probes are lost for size alone (the library cannot tell a congestion loss of a probe from a size loss - its own TODO)",
                     "path limits are never set below the protocol minimum MTU (576 IPv4 / 1280 IPv6)"],
    ),
    "C15": dict(
        level="exploration",
        level_text="Invariant monitoring of the real Cubic controller driven through the CongestionController trait with millions of "
                   "generated calls (ACKs of 0/1/MSS/huge, timeouts, recovery entry/exit, MSS changes, peer-window updates, time steps "
                   "from 0 to hours, RTT estimates from 0 ns to hours): window bounds after every call, loss reactions, slow-start "
                   "growth bound, MSS rescaling. The upper bound (peer window) is checked right after every MSS change, before the peer window is re-applied.",
        level_note="trusted base: the oracle formulas (derived from the property statement) and the hook re-export of Cubic; no simulator involved",
        technique="runtime monitoring: invariant oracles after every call on generated operation sequences",
        budget=dict(quick=120, thorough=1200),
        require=["c15_upper_bound_checked_right_after_mss_change", "c15_window_bounds_checked", "c15_loss_events_checked", "c15_slow_start_acks_checked", "c15_mss_changes_checked"],
        rule="a case is one generated sequence of 1500 (quick) / 15000 (thorough) controller calls with its own starting MSS and peer "
             "window; every case is non-trivial; distinct = distinct hash of the call sequence",
        assumptions=["the upper bound is not asserted between set_mss and the next set_remote_window (the dispatcher always calls them back to back)",
                     "integer truncation tolerance of one segment on all bounds"],
    ),
    "C16": dict(
        level="exploration",
        level_text="Lock-step comparison of the real RttEstimator with a line-by-line RFC 6298 reference (alpha 1/8, beta 1/4, K 4, "
                   "G 10 ms, clamp 200 ms..60 s) over millions of generated sample / timeout sequences (samples 0 ns..hours, "
                   "adversarial alternations): equality after every sample, doubling-and-clamping after every timeout, bounds always, "
                   "smoothed RTT within the samples seen.",
        level_note="trusted base: the reference model written from RFC 6298 and the hook re-export of RttEstimator; no simulator involved",
        technique="runtime monitoring: reference-model oracle in lock-step on generated operation sequences",
        budget=dict(quick=120, thorough=1200),
        require=["c16_samples_checked", "c16_timeouts_checked"],
        rule="a case is one generated sequence of 2000 (quick) / 20000 (thorough) sample/timeout operations; every case is "
             "non-trivial; distinct = distinct hash of the operation sequence",
        assumptions=["1 microsecond tolerance for integer truncation order in the smoothing formulas"],
    ),
    "C17": dict(
        level="exploration",
        level_text="Trace rules on the wire over generated bounded scripts against the scripted peer in both handshake roles: a "
                   "prefix reaches Established / FinWait1 / FinWait2 / LastAck / simultaneous close / data-in-flight, then 2..10 "
                   "generated steps follow out of peer packets (in-order / ahead / duplicate data, ACK of everything or of data "
                   "only, FIN in or out of sequence, RESET, second SYN, STATE-as-FIN), application actions (write, shutdown, drop "
                   "reader / writer, read) and clock advances (1 ms..3 s); plus the silent-initiator sub-family for the SYN-ACK "
                   "rule. Rules: SYN-ACK content, repeat count, 200 ms interval and failure; own-initiative FIN sequence number, "
                   "all accepted bytes transmitted first, retransmission while unacknowledged, no payload after it; peer FIN only "
                   "in sequence, acknowledged by every later packet and answered; RESET ends the connection at once, silently, with "
                   "an error unless the close handshake was answered. Coverage evidence: (state, packet type) and (state, "
                   "application action) pairs read from hooked snapshots. A fifth of the walks run with transport back-pressure; prefixes for a close during timeout recovery and for a close with a size probe outstanding behind ordinary segments; deadline wake-up monitor for the SYN-ACK resend, retransmission and inactivity timers.",
        level_note=SIM_NOTE + "; what the endpoint does with data a peer sends after its own FIN is not judged",
        technique="runtime monitoring: scripted-peer state-machine walks + wire-trace conformance rules",
        budget=dict(quick=200, thorough=2400),
        require=["c17_synacks_checked", "c17_silent_initiator_cases", "c17_own_fins_checked", "c17_fin_retransmissions_checked",
                 "c17_peer_fins_in_sequence", "c17_peer_fins_out_of_sequence", "c17_fin_answers_checked", "c17_resets_on_live_connection"],
        rule="a case is one generated (role, options, prefix, script) tuple; non-trivial = more than 3 datagrams exchanged; distinct = "
             "distinct normalised wire trace; coverage_labels lists the (state, stimulus) pairs observed",
        assumptions=["FIN retransmission is judged against an upper bound of the timeout in force (max(300 ms, 5 x largest RTT sample))"],
    ),
    "C18": dict(
        level="exploration",
        level_text="Trace and state oracles over generated write-size / ACK-timing scripts against the scripted peer, both Nagle "
                   "settings. Nagle on: every first transmission is compared with the segment size in force when its last byte was "
                   "written; a shorter one with earlier data unacknowledged must be window-limited (run-sum rule on the wire, "
                   "Segmented hook as cross-check); the ACK that drains the pipe must release held-back bytes in the same logical "
                   "step. Nagle off: at the end of every poll (hooked snapshot) unsent accepted bytes need a stated reason (window / "
                   "congestion window exhausted, probe outstanding, timeout or recovery mode, transport pending, closing). The peer-window exemption needs evidence independent of the library's own flag: a run of first transmissions, or of consecutive cuts, that adds up to a window value the endpoint had processed.",
        level_note=SIM_NOTE + "; the Nagle-off clause reads hooked state (ring, segments, flight, cwnd) at poll boundaries",
        technique="runtime monitoring: scripted-peer stimulus + wire-trace oracle (Nagle on) and poll-boundary state oracle (Nagle off)",
        budget=dict(quick=200, thorough=2400),
        require=["c18_first_transmissions_checked", "c18_drain_releases_checked", "c18_nagle_off_polls_checked",
                 "c18_nagle_off_polls_with_unsent", "c18_partial_with_unacked_seen"],
        rule="a case is one generated (socket configuration incl. Nagle setting, write sizes 1 B..3 segments with pauses, ACK mode, "
             "window) script; non-trivial = more than 2 first transmissions or polls judged; distinct = distinct normalised wire trace",
        assumptions=["segments are pre-cut: one cut at the size in force when written is not 'smaller than it could have used' even if the proven size grows before it is sent"],
    ),
    "C19": dict(
        level="exploration",
        level_text="Boundary and state oracles over generated scripts in which writers outrun a slow, intermittently "
                   "acknowledging, zero-window or silent scripted peer, with initial/maximum transmit buffers from 1 B to 1 MiB "
                   "(incl. initial > maximum, non powers of two, writes larger than the buffer): accepted minus acknowledged bytes "
                   "against max(initial, maximum) at every write return; ring length <= capacity <= limit at every poll boundary "
                   "(hook); a pending write completes in the step in which a processed ACK freed space; with a peer silent for good "
                   "the pending write ends with an error when the connection fails; the C01 wire content oracle across every "
                   "growth step of the ring. Real-thread stage: mtstress with tiny TX buffers (writers block and are woken by connection tasks on other threads), growth workload (ring copied while the writer pushes from another thread) and spin-poll workload (every poll of a full ring registers a fresh waker; when room shows, that waker must be woken), plain and under ThreadSanitizer; Miri stage (thorough): TX-ring growth scripts.",
        level_note=SIM_NOTE,
        technique="runtime monitoring: scripted-peer stimulus + boundary accounting oracle + hooked ring invariants",
        budget=dict(quick=200, thorough=2400),
        require=["c19_write_returns_checked", "c19_writer_wakeups_checked", "c19_snapshots_checked", "c19_growth_steps_seen",
                 "c19_silent_peer_writes_checked", "c19_wire_content_checked"],
        rule="a case is one generated (buffer settings, write sizes, peer ACK/window/silence policy) script; non-trivial = more than "
             "one write return judged; distinct = distinct normalised wire trace",
        assumptions=["real-thread interleavings of writer and connection task (ring swap on growth) are covered by the sanitizer passes, not by the single-threaded simulator"],
    ),
}


# Multi-threaded stage (real threads, real clock, optional ThreadSanitizer build): which properties run it.
# Real-thread stage: groups of mtstress runs (kind, how many, label, arguments). Profiles: 0 mixed
# buffers; 1 growth (tiny TX ring growing to 1 MiB under small writes: the ring is copied while the
# writer pushes from another thread); 2 tiny fixed ring with the lost-wake-up snapshot rule; 3 tiny
# fixed ring, writers / readers polling from their own OS threads with fresh wakers (wake-up oracle);
# 4 ping: small messages each followed by a flush, polled from an OS thread (same oracle on flush).
# Every profile also checks, on the hooked snapshots, that the connection task is never registered
# as waiting for the writer next to bytes in the ring.
_MIXED_Q = ["--threads", "8", "--pairs", "3", "--conns", "4", "--bytes", "100000", "--rounds", "1"]
_GROW = ["--threads", "16", "--pairs", "8", "--conns", "6", "--bytes", "300000", "--rounds", "3", "--profile", "1"]
_TINY = ["--threads", "16", "--pairs", "8", "--conns", "6", "--bytes", "40000", "--rounds", "2", "--profile", "2"]
_SPIN = ["--threads", "8", "--pairs", "4", "--conns", "2", "--bytes", "20000", "--rounds", "1", "--profile", "3"]
_PING = ["--threads", "8", "--pairs", "4", "--conns", "2", "--bytes", "10000", "--rounds", "1", "--profile", "4"]
_GROW_TSAN = ["--threads", "8", "--pairs", "4", "--conns", "4", "--bytes", "200000", "--rounds", "1", "--profile", "1"]
MT_STAGE = {
    "C03": dict(quick=[("plain", 6, "growth+flush", _GROW + ["--flush-end", "1"])],
                thorough=[("plain", 30, "growth+flush", _GROW + ["--flush-end", "1"]),
                          ("plain", 6, "ping", _PING),
                          ("tsan", 2, "growth+flush", _GROW_TSAN + ["--flush-end", "1"])]),
    "C01": dict(quick=[("plain", 1, "mixed", _MIXED_Q), ("plain", 6, "growth", _GROW)],
                thorough=[("plain", 8, "mixed", ["--threads", "8", "--pairs", "4", "--conns", "6", "--bytes", "400000", "--rounds", "3"]),
                          ("plain", 40, "growth", _GROW),
                          ("tsan", 4, "mixed", ["--threads", "8", "--pairs", "4", "--conns", "6", "--bytes", "400000", "--rounds", "3"]),
                          ("tsan", 4, "growth", _GROW_TSAN)]),
    "C02": dict(quick=[("plain", 1, "mixed", _MIXED_Q), ("plain", 1, "tiny", _TINY), ("plain", 2, "ping", _PING)],
                thorough=[("plain", 8, "mixed", ["--threads", "16", "--pairs", "6", "--conns", "6", "--bytes", "200000", "--rounds", "3"]),
                          ("plain", 6, "tiny", _TINY),
                          ("plain", 10, "ping", _PING),
                          ("plain", 6, "spin", _SPIN),
                          ("tsan", 2, "mixed", ["--threads", "16", "--pairs", "6", "--conns", "6", "--bytes", "200000", "--rounds", "3"])]),
    "C19": dict(quick=[("plain", 1, "mixed", _MIXED_Q), ("plain", 3, "growth", _GROW), ("plain", 3, "spin", _SPIN)],
                thorough=[("plain", 6, "mixed", ["--threads", "4", "--pairs", "4", "--conns", "6", "--bytes", "400000", "--rounds", "2"]),
                          ("plain", 20, "growth", _GROW),
                          ("plain", 6, "tiny", _TINY),
                          ("plain", 16, "spin", _SPIN),
                          ("tsan", 2, "mixed", ["--threads", "4", "--pairs", "4", "--conns", "6", "--bytes", "400000", "--rounds", "2"]),
                          ("tsan", 2, "growth", _GROW_TSAN)]),
}
# Miri stage (thorough tier): small cases interpreted by Miri, one process per (kind, seed, size).
MIRI_STAGE = {
    "C11": [("codec", 1500)] * 16,
    "C10": [("hostile", 0)] * 12 + [("duplex", 1200)] * 4,
    "C01": [("duplex", 2500)] * 12,
    "C19": [("txgrow", 3500)] * 8,
}
MIRI_DIR = os.path.join(HARNESS, "target-miri")
MTSTRESS = os.path.join(HARNESS, "target", "release", "mtstress")
TSAN_DIR = os.path.join(HARNESS, "target-tsan")
MTSTRESS_TSAN = os.path.join(TSAN_DIR, "x86_64-unknown-linux-gnu", "release", "mtstress")


def log(msg):
    print(msg, flush=True)


def build():
    """Rebuild the harness against /repo's current working tree (path dependency)."""
    os.makedirs(os.path.join(HARNESS, "target"), exist_ok=True)
    lock = open(os.path.join(HARNESS, "target", ".build.lock"), "w")
    fcntl.flock(lock, fcntl.LOCK_EX)
    try:
        t0 = time.time()
        p = subprocess.run(["cargo", "build", "--release", "--offline", "--bins"], cwd=HARNESS, env=ENV,
                           stdout=subprocess.PIPE, stderr=subprocess.STDOUT, text=True)
        if p.returncode != 0:
            log(p.stdout[-6000:])
            log("BROKEN: harness build failed (not a verdict)")
            return False
        log(f"[build] ok in {time.time() - t0:.1f}s")
        return True
    finally:
        fcntl.flock(lock, fcntl.LOCK_UN)
        lock.close()


def build_tsan():
    """ThreadSanitizer build of mtstress (nightly, -Zbuild-std). Returns False if it cannot be built here."""
    env = dict(ENV)
    env["RUSTFLAGS"] = "--cfg ikatson_librqbit_utp_verif --cfg tokio_unstable -Zsanitizer=thread"
    os.makedirs(TSAN_DIR, exist_ok=True)
    lock = open(os.path.join(TSAN_DIR, ".build.lock"), "w")
    fcntl.flock(lock, fcntl.LOCK_EX)
    try:
        t0 = time.time()
        p = subprocess.run(["cargo", "+nightly", "build", "-Zbuild-std", "--target", "x86_64-unknown-linux-gnu", "--release",
                            "--bin", "mtstress", "--target-dir", TSAN_DIR], cwd=HARNESS, env=env,
                           stdout=subprocess.PIPE, stderr=subprocess.STDOUT, text=True)
        if p.returncode != 0:
            log(p.stdout[-3000:])
            log("[build] ThreadSanitizer build failed; the TSan runs are skipped (recorded in the evidence)")
            return False
        log(f"[build] tsan ok in {time.time() - t0:.1f}s")
        return True
    finally:
        fcntl.flock(lock, fcntl.LOCK_UN)
        lock.close()


def run_mt_stage(pid, tier, seed):
    """Real-thread stage. Returns (violations, evidence dict)."""
    import re
    groups = MT_STAGE[pid][tier]
    runs = []
    viol = []
    tsan_ok = None
    if any(g[0] == "tsan" for g in groups):
        tsan_ok = build_tsan()
    plan = []
    for gi, (kind, n, label, args) in enumerate(groups):
        if kind == "tsan" and not tsan_ok:
            continue
        exe = MTSTRESS_TSAN if kind == "tsan" else MTSTRESS
        plan += [(kind, exe, label, args, gi * 1000 + i) for i in range(n)]
    for kind, exe, label, args, i in plan:
        s = seed * 100003 + i
        env = dict(ENV)
        if kind == "tsan":
            env["TSAN_OPTIONS"] = "halt_on_error=0 report_signal_unsafe=0 exitcode=66"
        cmd = [exe, "--seed", str(s)] + args
        try:
            p = subprocess.run(cmd, cwd=ROOT, env=env, timeout=3600, stdout=subprocess.PIPE, stderr=subprocess.PIPE, text=True)
        except subprocess.TimeoutExpired:
            runs.append(dict(kind=kind, label=label, seed=s, verdict="inconclusive: wall-clock watchdog"))
            continue
        line = (p.stdout.strip().splitlines() or ["{}"])[-1]
        try:
            r = json.loads(line)
        except Exception:
            r = {"verdict": "broken", "problem": (p.stderr or "")[-500:]}
        races = p.stderr.count("WARNING: ThreadSanitizer")
        r["kind"] = kind
        r["label"] = label
        r["tsan_reports"] = races
        runs.append(r)
        bad = r.get("verdict") not in ("held",) or races > 0 or p.returncode not in (0,)
        if r.get("verdict") == "broken":
            continue
        if bad:
            os.makedirs(REPLAYS, exist_ok=True)
            path = os.path.join(REPLAYS, f"{pid}-mtstress-{kind}-{label}-{s}.json")
            with open(path, "w") as f:
                json.dump({"property": pid, "command": " ".join(cmd), "result": r,
                           "stderr_tail": (p.stderr or "")[-20000:]}, f, indent=1)
            rule = "data-race" if races > 0 else "mt-" + str(r.get("verdict"))
            sig = "ThreadSanitizer report" if races > 0 else str(r.get("problem") or r.get("verdict"))
            # strip run-specific numbers from the signature
            sig = re.sub(r"[0-9]+", "N", sig)[:160]
            viol.append({"property": pid, "rule": rule, "signature": sig, "detail": json.dumps(r)[:400], "replay": path, "count": 1})

    def tot(key):
        return sum(int(r.get(key, 0) or 0) for r in runs)
    ev = {
        "runs": len(runs),
        "plain_runs": sum(1 for r in runs if r.get("kind") == "plain"),
        "tsan_runs": sum(1 for r in runs if r.get("kind") == "tsan"),
        "runs_by_workload": {lab: sum(1 for r in runs if r.get("label") == lab) for lab in sorted({str(r.get("label")) for r in runs})},
        "tsan_build": {None: "not requested", True: "ok", False: "unavailable"}[tsan_ok],
        "tsan_reports": tot("tsan_reports"),
        "bytes_read_and_checked": tot("bytes_read_and_checked"),
        "connection_sides_completed": tot("connection_sides_completed"),
        "reads": tot("reads"),
        "writes": tot("writes"),
        "connection_task_polls": tot("connection_task_polls"),
        "tx_snapshots_checked_for_lost_wakeups": tot("tx_snapshots_checked_for_lost_wakeups"),
        "spin_polls_that_found_the_ring_full": tot("spin_polls_that_found_the_ring_full"),
        "spin_room_after_full_events_checked_for_a_wakeup": tot("spin_room_after_full_events"),
        "spin_wakeups_that_arrived_after_the_next_successful_poll": tot("spin_wakeups_confirmed_late"),
        "spin_flushes_completed": tot("spin_flushes_completed"),
        "final_flushes_ok": tot("final_flushes_ok"),
        "final_flushes_err": tot("final_flushes_err"),
        "final_flushes_that_met_the_peers_close": tot("final_flushes_that_met_the_peers_close"),
        "tx_snapshots_checked_for_a_sleeping_connection_task": tot("tx_snapshots_checked_for_a_sleeping_connection_task"),
        "snapshots_with_the_connection_task_waiting_next_to_data": tot("snapshots_with_the_connection_task_waiting_next_to_data"),
        "rx_snapshots_checked_for_a_sleeping_reader": tot("rx_snapshots_checked_for_a_sleeping_reader"),
        "snapshots_with_a_waiting_reader_next_to_queued_data": tot("snapshots_with_a_waiting_reader_next_to_queued_data"),
        "lost_wakeups": tot("lost_wakeups"),
        "max_worker_threads_seen_by_readers": max([int(r.get("worker_threads_seen_by_readers", 0)) for r in runs] or [0]),
        "verdicts": sorted({str(r.get("verdict")) for r in runs}),
        "groups": [dict(kind=k, runs=n, workload=lab, args=a) for (k, n, lab, a) in groups],
    }
    log(f"[{pid} {tier}] mtstress: {ev['plain_runs']} plain + {ev['tsan_runs']} tsan runs {ev['runs_by_workload']}, "
        f"{ev['bytes_read_and_checked']} bytes checked across real threads, tsan_reports={ev['tsan_reports']}, verdicts={ev['verdicts']}")
    return viol, ev


def run_miri_stage(pid, seed, jobs):
    """Interpret small cases with Miri. Returns (violations, evidence dict)."""
    import re
    plan = MIRI_STAGE[pid]
    env = dict(ENV)
    env["MIRIFLAGS"] = "-Zmiri-disable-isolation -Zmiri-permissive-provenance"
    base = ["cargo", "+nightly", "miri", "run", "--quiet", "--target-dir", MIRI_DIR, "--bin", "miricase", "--"]
    t0 = time.time()
    # the first invocation builds the interpreter's sysroot and the dependencies; do it alone
    try:
        p0 = subprocess.run(base + ["codec", "1", "1"], cwd=HARNESS, env=env, stdout=subprocess.PIPE, stderr=subprocess.PIPE, text=True, timeout=3600)
        ok0 = "MIRICASE" in p0.stdout
        err0 = p0.stderr
    except subprocess.TimeoutExpired:
        ok0, err0 = False, "timeout"
    if not ok0:
        log((err0 or "")[-2000:])
        log("[miri] the interpreter could not be set up here; the Miri runs are skipped (recorded in the evidence)")
        return [], {"available": False, "runs": 0}
    todo = [(k, sz, seed * 7919 + i) for i, (k, sz) in enumerate(plan)]
    running = []  # (Popen, kind, size, seed, start time)
    results, viol, abandoned = [], [], 0
    PER_RUN_LIMIT = 1500  # s; the interpreter is ~10^4 x slower than native: a case that turns out long is abandoned (no verdict)

    def finish(pr, k, sz, sd):
        out, err = pr.communicate()
        line = [l for l in out.splitlines() if l.startswith("MIRICASE")]
        ub = ("Undefined Behavior" in err) or ("memory leaked" in err) or ("error: unsupported operation" in err)
        results.append(dict(kind=k, size=sz, seed=sd, exit=pr.returncode, line=(line or [""])[0][:300], miri_error=ub))
        if ub or (pr.returncode == 1 and line):
            os.makedirs(REPLAYS, exist_ok=True)
            path = os.path.join(REPLAYS, f"{pid}-miri-{k}-{sd}.json")
            with open(path, "w") as f:
                json.dump({"property": pid, "command": " ".join(base + [k, str(sd), str(sz)]), "stdout": out[-5000:], "stderr": err[-20000:]}, f, indent=1)
            first = next((l for l in err.splitlines() if l.startswith("error")), "oracle violation under Miri")
            viol.append({"property": pid, "rule": "miri", "signature": re.sub(r"[0-9]+", "N", first)[:160],
                         "detail": (line or [first])[0][:300], "replay": path, "count": 1})

    while todo or running:
        while todo and len(running) < jobs:
            k, sz, sd = todo.pop(0)
            pr = subprocess.Popen(base + [k, str(sd), str(sz)], cwd=HARNESS, env=env, stdout=subprocess.PIPE, stderr=subprocess.PIPE, text=True)
            running.append((pr, k, sz, sd, time.time()))
        time.sleep(1.0)
        for item in list(running):
            pr, k, sz, sd, ts = item
            if pr.poll() is not None:
                running.remove(item)
                finish(pr, k, sz, sd)
            elif time.time() - ts > PER_RUN_LIMIT:
                pr.kill()
                pr.communicate()
                running.remove(item)
                abandoned += 1
    def tot(pat):
        return sum(int(m.group(1)) for r in results for m in [re.search(pat, r["line"])] if m)
    ev = {
        "available": True,
        "runs": len(results),
        "clean_runs": sum(1 for r in results if r["exit"] == 0 and not r["miri_error"]),
        "interpreter_errors": sum(1 for r in results if r["miri_error"]),
        "runs_abandoned_as_too_long": abandoned,
        "datagrams_interpreted": tot(r"datagrams=(\d+)"),
        "events_interpreted": tot(r"events=(\d+)"),
        "strings_parsed_under_miri": tot(r"strings=(\d+)"),
        "kinds": sorted({r["kind"] for r in results}),
        "wall_s": round(time.time() - t0, 1),
    }
    log(f"[{pid}] miri: {ev['runs']} interpreted runs ({ev['kinds']}), clean={ev['clean_runs']}, interpreter errors={ev['interpreter_errors']}, "
        f"abandoned={abandoned}, datagrams={ev['datagrams_interpreted']} strings={ev['strings_parsed_under_miri']} wall={ev['wall_s']}s")
    return viol, ev


def load_known():
    try:
        with open(KNOWN) as f:
            return json.load(f)
    except FileNotFoundError:
        return {"findings": [], "fixed": []}


def match_known(known, v):
    for k in known.get("findings", []):
        if k["property"] == v["property"] and k["rule"] == v["rule"] and k["signature"] == v["signature"]:
            return k
    return None


def write_evidence(pid, tier, seed, cfg, summary, wall, n_viol, extra=None):
    os.makedirs(EVIDENCE, exist_ok=True)
    cov = {
        "evaluations": int(summary.get("cases_run", 0)),
        "distinct_nontrivial": int(summary.get("distinct_nontrivial", 0)),
        "distinct_traces": int(summary.get("distinct_traces", 0)),
        "rule": cfg["rule"],
        "samples": summary.get("samples", [])[:6],
        "cases_planned": summary.get("cases_planned"),
        "budget_exhausted": summary.get("budget_exhausted"),
        "per_family": summary.get("per_family", {}),
        "oracle_counters": summary.get("counters", {}),
        "coverage_labels": summary.get("labels", []),
        "known_findings_seen": summary.get("known_seen", []),
        "inconclusive_cases": summary.get("inconclusive", [])[:20],
        "exhaustive": False,
    }
    if extra:
        cov.update(extra)
    ev = {
        "property_id": pid,
        "tier": tier,
        "seed": seed,
        "level": cfg["level"],
        "coverage": cov,
        "assumptions": cfg["assumptions"],
        "wall_s": round(wall, 3),
        "violations": n_viol,
    }
    tmp = os.path.join(EVIDENCE, f".{pid}.json.tmp")
    with open(tmp, "w") as f:
        json.dump(ev, f, indent=1)
    os.replace(tmp, os.path.join(EVIDENCE, f"{pid}.json"))


def run_check(pid, tier):
    cfg = PROPS[pid]
    seed = int(os.environ.get("VERIF_SEED", "1"))
    jobs = int(os.environ.get("VERIF_JOBS", str(os.cpu_count() or 16)))
    budget = float(os.environ.get("VERIF_BUDGET_S", cfg["budget"][tier]))
    t0 = time.time()
    if not build():
        return 2
    os.makedirs(REPLAYS, exist_ok=True)
    out = os.path.join(REPLAYS, f".{pid}.{tier}.{os.getpid()}.summary.tmp")
    cmd = [SIMCHECK, "--property", pid, "--tier", tier, "--seed", str(seed), "--jobs", str(jobs),
           "--budget-s", str(budget), "--out", out, "--replay-dir", REPLAYS]
    # wall-clock watchdog: generous; firing is inconclusive, never a verdict
    watchdog = budget * 3 + 600
    try:
        p = subprocess.run(cmd, cwd=ROOT, env=ENV, timeout=watchdog, stdout=subprocess.PIPE,
                           stderr=subprocess.STDOUT, text=True)
    except subprocess.TimeoutExpired:
        log(f"INCONCLUSIVE: simcheck exceeded the wall-clock watchdog of {watchdog:.0f}s")
        return 2
    if p.returncode != 0 or not os.path.exists(out):
        log(p.stdout[-4000:])
        log(f"INCONCLUSIVE: simcheck failed to run (exit {p.returncode})")
        return 2
    with open(out) as f:
        summary = json.load(f)
    os.remove(out)
    mt_ev = None
    if pid in MT_STAGE:
        mt_viol, mt_ev = run_mt_stage(pid, tier, seed)
        summary.setdefault("violations", []).extend(mt_viol)
    miri_ev = None
    if pid in MIRI_STAGE and tier == "thorough" and os.environ.get("VERIF_NO_MIRI") != "1":
        miri_viol, miri_ev = run_miri_stage(pid, seed, jobs)
        summary.setdefault("violations", []).extend(miri_viol)

    known = load_known()
    unlisted = []
    known_seen = {}
    for v in summary.get("violations", []):
        k = match_known(known, v)
        if k is not None:
            key = (v["property"], v["rule"], v["signature"])
            known_seen.setdefault(key, dict(count=0, what=k.get("what", ""), example=v.get("replay", "")))
            known_seen[key]["count"] += int(v.get("count", 1))
        else:
            unlisted.append(v)
    summary["known_seen"] = [
        {"property": a, "rule": b, "signature": c, "count": d["count"], "example_replay": d["example"]}
        for (a, b, c), d in sorted(known_seen.items())
    ]
    # replay files of known findings are noise; keep only those of unlisted violations
    keep = {v.get("replay") for v in unlisted}
    for v in summary.get("violations", []):
        r = v.get("replay")
        if r and r not in keep and os.path.exists(r):
            os.remove(r)

    for (a, b, c), d in sorted(known_seen.items()):
        log(f"KNOWN-FINDING: property={a} rule={b} signature=\"{c}\" seen in {d['count']} case(s): {d['what']}")

    counters = summary.get("counters", {})
    missing = [c for c in cfg["require"] if counters.get(c, 0) == 0]
    wall = time.time() - t0
    log(f"[{pid} {tier}] cases={summary.get('cases_run')}/{summary.get('cases_planned')} "
        f"distinct_nontrivial={summary.get('distinct_nontrivial')} violations={len(unlisted)} "
        f"known={sum(d['count'] for d in known_seen.values())} wall={wall:.1f}s")
    log("[counters] " + " ".join(f"{k}={v}" for k, v in sorted(counters.items())))

    extra = {}
    if mt_ev:
        extra["real_thread_stage"] = mt_ev
    if miri_ev:
        extra["miri_stage"] = miri_ev
    extra = extra or None
    if unlisted:
        write_evidence(pid, tier, seed, cfg, summary, wall, len(unlisted), extra)
        seen = set()
        for v in unlisted:
            key = (v["property"], v["rule"], v["signature"])
            if key in seen:
                continue
            seen.add(key)
            log(f"VIOLATION property={v['property']} replay={v.get('replay') or 'n/a'} rule={v['rule']} "
                f"signature=\"{v['signature']}\" detail={v['detail'][:300]}")
        return 1
    incon = summary.get("inconclusive", [])
    if missing or summary.get("cases_run", 0) == 0 or summary.get("distinct_nontrivial", 0) < 2:
        write_evidence(pid, tier, seed, cfg, summary, wall, 0, extra)
        log(f"INCONCLUSIVE: required observations missing: {missing} (cases_run={summary.get('cases_run')})")
        return 2
    if any("determinism self-check failed" in s for s in incon):
        write_evidence(pid, tier, seed, cfg, summary, wall, 0)
        log("INCONCLUSIVE: " + incon[0][:500])
        return 2
    if mt_ev and (mt_ev["runs"] == 0 or "broken" in mt_ev["verdicts"] or any(v.startswith("inconclusive") for v in mt_ev["verdicts"])):
        write_evidence(pid, tier, seed, cfg, summary, wall, 0, extra)
        log(f"INCONCLUSIVE: the real-thread stage did not produce a verdict: {mt_ev['verdicts']}")
        return 2
    write_evidence(pid, tier, seed, cfg, summary, wall, 0, extra)
    log(f"OK property={pid} held on {summary.get('cases_run')} executions "
        f"({summary.get('distinct_nontrivial')} distinct non-trivial)")
    return 0


def replay(path):
    with open(path) as f:
        r = json.load(f)
    if not build():
        return 2
    cs = r["case_seed"]
    cmd = [SIMCHECK, "--property", r["property"], "--tier", r.get("tier", "quick"), "--seed", str(r.get("seed", 1)),
           "--replay", f"{r['family']}:{r['index']}:{cs}", "--dump-log"]
    return subprocess.run(cmd, cwd=ROOT, env=ENV).returncode


def main():
    if len(sys.argv) < 2:
        print(__doc__)
        return 2
    if sys.argv[1] == "build":
        return 0 if build() else 2
    if sys.argv[1] == "replay":
        return replay(sys.argv[2])
    pid = sys.argv[1]
    tier = sys.argv[2] if len(sys.argv) > 2 else (os.environ.get("VERIF_TIER") or "quick")
    if pid not in PROPS:
        print(f"unknown property {pid}")
        return 2
    if tier not in ("quick", "thorough"):
        print(f"unknown tier {tier}")
        return 2
    return run_check(pid, tier)


if __name__ == "__main__":
    sys.exit(main())
