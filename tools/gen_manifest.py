#!/usr/bin/env python3
"""Regenerate MANIFEST.json from the property table in check.py (single source of truth)."""
import json, os, sys
ROOT = os.path.dirname(os.path.dirname(os.path.abspath(__file__)))
sys.path.insert(0, ROOT)
import check

props = [json.loads(l) for l in open(os.path.join(ROOT, "properties.jsonl"))]
hook_commits = check.HOOK_COMMITS
checks = []
na = []
for p in props:
    pid = p["id"]
    cfg = check.PROPS.get(pid)
    if cfg is None or not cfg.get("claimed", True):
        na.append({"property_id": pid, "reason": check.NOT_CLAIMED.get(pid, "check not built yet (work in progress; see DESIGN.md section 4)")})
        continue
    checks.append({
        "property_id": pid,
        "quick_cmd": f"python3 check.py {pid} quick",
        "thorough_cmd": f"python3 check.py {pid} thorough",
        "evidence_file": f"/verif/evidence/{pid}.json",
        "replay_cmd_template": "python3 check.py replay {path}",
        "engine": "simcheck",
        "level_claimed": {"category": cfg["level"], "text": cfg["level_text"], "design_ref": cfg.get("design_ref", f"DESIGN.md section 4, {pid}")},
        "level_note": cfg["level_note"],
        "technique": cfg["technique"],
    })
m = {
    "version": 1,
    "setup_cmd": "python3 check.py build",
    "hooks": {
        "guard": "ikatson_librqbit_utp_verif",
        "enable": "RUSTFLAGS '--cfg ikatson_librqbit_utp_verif --cfg tokio_unstable' set in harness/.cargo/config.toml; the harness crate has a path dependency on /repo, so every check rebuilds /repo's working tree with the hooks on",
        "baseline_off_cmd": "cd /repo && cargo test --workspace --no-fail-fast --offline",
        "source_commits": hook_commits,
        "add_only": True,
    },
    "engines": [
        {"name": "simcheck", "path": "harness/", "serves_properties": [c["property_id"] for c in checks],
         "kind_free_text": "Rust harness: deterministic whole-stack simulator (tokio paused clock, simulated network with fault plans, scripted raw-uTP peer), event log recorded at the API / wire boundary plus cfg-guarded state hooks, per-property monitors over the log; sharded over all cores; driven by check.py"},
    ],
    "checks": checks,
    "notes": "Technique family: runtime monitoring and sanitizers. Verdicts are 'held on the executions observed'; see DESIGN.md. known_findings.json lists recorded genuine defects (KNOWN-FINDING lines) and repaired ones (fixed:).",
    "not_applicable": na,
}
json.dump(m, open(os.path.join(ROOT, "MANIFEST.json"), "w"), indent=1)
print(f"MANIFEST.json: {len(checks)} checks, {len(na)} not claimed")
