#!/usr/bin/env python3
"""Markdown table of the seeded changes from seeded/*/meta.json and seeded/results.json.

usage: tools/seeded_table.py [m3 m4 ...]   (restrict to these mutant suffixes; default all)
"""
import glob, json, os, re, sys

ROOT = os.path.dirname(os.path.dirname(os.path.abspath(__file__)))
res = json.load(open(os.path.join(ROOT, "seeded", "results.json")))
only = set(sys.argv[1:])
print("| change | what it does | caught by (quick tier; rule of the first violation) |")
print("|---|---|---|")
caught = total = 0
for d in sorted(glob.glob(os.path.join(ROOT, "seeded", "C*-m*"))):
    name = os.path.basename(d)
    suffix = name.split("-")[1]
    if only and suffix not in only:
        continue
    meta = json.load(open(os.path.join(d, "meta.json")))
    summ = meta.get("summary", "").replace("|", "/").replace("\n", " ")
    if len(summ) > 150:
        summ = summ[:147] + "..."
    hits = []
    for p, r in sorted(res.get(name, {}).get("checks", {}).items()):
        if r.get("exit") == 1:
            rule = ""
            for l in r.get("lines", []):
                m = re.search(r"rule=([\w:-]+)", l)
                if m:
                    rule = m.group(1)
                    break
            hits.append(f"{p} ({rule})" if rule else p)
    total += 1
    own = name.split("-")[0]
    if any(h.startswith(own) for h in hits):
        caught += 1
    print(f"| {name} | {summ} | {', '.join(hits) if hits else 'not caught'} |")
print(f"\n{caught} of {total} caught by the quick check of their own property.", file=sys.stderr)
