#!/bin/sh
# import_seeded.sh <dir with <id>/<mN>/{patch.diff,demo*,meta.json}>: copy into /verif/seeded/<id>-<mN>/
src=$1
for d in "$src"/C*/m*; do
  [ -f "$d/patch.diff" ] || continue
  id=$(basename $(dirname "$d")); m=$(basename "$d")
  dst=/verif/seeded/$id-$m
  [ -d "$dst" ] && continue
  mkdir -p "$dst"
  cp "$d"/patch.diff "$d"/meta.json "$dst"/ 2>/dev/null
  cp "$d"/demo* "$dst"/ 2>/dev/null
  echo imported $id-$m
done
