#!/usr/bin/env python3
"""Confirm seeded changes and run the checks against them.

usage: tools/run_seeded.py confirm <dir> ...      apply in a scratch worktree, run the repo's tests
       tools/run_seeded.py check <dir> [props...]  apply to /repo, run checks (quick), undo
Results are merged into seeded/results.json.
"""
import json, os, subprocess, sys, time

ROOT = os.path.dirname(os.path.dirname(os.path.abspath(__file__)))
RESULTS = os.path.join(ROOT, "seeded", "results.json")
SCRATCH = "/tmp/wt/confirm"


def sh(cmd, cwd=None, timeout=3600, env=None):
    p = subprocess.run(cmd, cwd=cwd, shell=isinstance(cmd, str), stdout=subprocess.PIPE, stderr=subprocess.STDOUT, text=True, timeout=timeout, env=env)
    return p.returncode, p.stdout


def load():
    try:
        return json.load(open(RESULTS))
    except FileNotFoundError:
        return {}


def save(r):
    json.dump(r, open(RESULTS, "w"), indent=1, sort_keys=True)


def confirm(d):
    name = os.path.basename(d.rstrip("/"))
    patch = os.path.abspath(os.path.join(d, "patch.diff"))
    if not os.path.isdir(SCRATCH):
        sh(f"git -C /repo worktree add -q --detach {SCRATCH} HEAD")
    sh("git checkout -q --detach $(git -C /repo rev-parse HEAD) && git checkout -- . && git clean -fdq", cwd=SCRATCH)
    rc, out = sh(f"git apply --check {patch} && git apply {patch}", cwd=SCRATCH)
    res = {"applies": rc == 0}
    if rc == 0:
        env = dict(os.environ, CARGO_NET_OFFLINE="true", RUST_LOG="off", CARGO_TARGET_DIR="/tmp/wt/confirm-target")
        rc, out = sh("cargo test --offline 2>&1 | grep -aE '^test result|\\.\\.\\. FAILED'", cwd=SCRATCH, env=env)
        res["repo_tests"] = out.strip().splitlines()[:6]
        res["repo_tests_pass"] = any("76 passed; 0 failed" in l for l in res["repo_tests"])
    sh("git checkout -- . && git clean -fdq", cwd=SCRATCH)
    r = load()
    r.setdefault(name, {})["confirm"] = res
    save(r)
    print(name, res)


def check(d, props):
    name = os.path.basename(d.rstrip("/"))
    patch = os.path.abspath(os.path.join(d, "patch.diff"))
    rc, out = sh("git -C /repo status --porcelain")
    if out.strip():
        print("refusing: /repo has local changes:", out)
        return
    rc, out = sh(f"git -C /repo apply {patch}")
    if rc != 0:
        print("patch does not apply:", out)
        return
    r = load()
    e = r.setdefault(name, {}).setdefault("checks", {})
    try:
        for p in props:
            t0 = time.time()
            rc, out = sh(["python3", os.path.join(ROOT, "check.py"), p, "quick"], cwd=ROOT, timeout=7200)
            lines = [l for l in out.splitlines() if l.startswith(("VIOLATION", "INCONCLUSIVE", "OK ", "BROKEN"))]
            e[p] = {"exit": rc, "wall_s": round(time.time() - t0, 1), "lines": [l[:400] for l in lines[:6]]}
            print(name, p, "exit", rc, (lines[:1] or [""])[0][:200], flush=True)
    finally:
        sh("git -C /repo checkout -- .")
        save(r)
    # evidence files were rewritten by these runs; they are regenerated on the clean tree afterwards


if __name__ == "__main__":
    if sys.argv[1] == "confirm":
        for d in sys.argv[2:]:
            confirm(d)
    elif sys.argv[1] == "check":
        check(sys.argv[2], sys.argv[3:])
