#!/usr/bin/env python3
import json,sys
d=json.load(sys.stdin)
for k in d:
    if k not in ('samples','violations','counters'): print(k, d[k])
print('counters', json.dumps(d['counters']))
vs=sorted(d['violations'], key=lambda v:-v.get('count',1))
for v in vs[:int(sys.argv[1]) if len(sys.argv)>1 else 40]:
    print(v.get('count'), '|', v['rule'], '|', v['signature'],'|', v['family'], v['index'], v['case_seed'], '|', v['detail'][:220])
